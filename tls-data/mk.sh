#!/bin/bash
# Mints the long-lived test PKI used by the C15 lab (run once; the PEM files are committed).
set -e
mkca() { openssl ecparam -name prime256v1 -genkey -noout -out $1.key.sec1; openssl pkcs8 -topk8 -nocrypt -in $1.key.sec1 -out $1.key; rm $1.key.sec1
  openssl req -x509 -new -key $1.key -sha256 -days 36500 -subj "/CN=$2" -addext "basicConstraints=critical,CA:TRUE" -addext "keyUsage=critical,keyCertSign,cRLSign" -out $1.pem; }
mkleaf() { # name ca subject san eku
  openssl ecparam -name prime256v1 -genkey -noout -out $1.key.sec1; openssl pkcs8 -topk8 -nocrypt -in $1.key.sec1 -out $1.key; rm $1.key.sec1
  openssl req -new -key $1.key -subj "/CN=$3" -out $1.csr
  printf "basicConstraints=CA:FALSE\nkeyUsage=critical,digitalSignature\nextendedKeyUsage=$5\nsubjectAltName=$4\n" > $1.ext
  openssl x509 -req -in $1.csr -CA $2.pem -CAkey $2.key -CAcreateserial -days 36500 -sha256 -extfile $1.ext -out $1.pem; rm $1.csr $1.ext; }
mkca ca_a "verif CA A"; mkca ca_b "verif CA B"; mkca ca_c "verif client CA C"
mkleaf server ca_a good.test "DNS:good.test" serverAuth
mkleaf client_c ca_c client1 "DNS:client1.test" clientAuth
mkleaf client_b ca_b client2 "DNS:client2.test" clientAuth
rm -f *.srl
# (added later) an intermediate CA under client CA C and a client leaf issued by it: a client identity that is a chain of two certificates
mkinter() { # name ca subject
  openssl ecparam -name prime256v1 -genkey -noout -out $1.key.sec1; openssl pkcs8 -topk8 -nocrypt -in $1.key.sec1 -out $1.key; rm $1.key.sec1
  openssl req -new -key $1.key -subj "/CN=$3" -out $1.csr
  printf "basicConstraints=critical,CA:TRUE,pathlen:0\nkeyUsage=critical,keyCertSign,cRLSign\n" > $1.ext
  openssl x509 -req -in $1.csr -CA $2.pem -CAkey $2.key -CAcreateserial -days 36500 -sha256 -extfile $1.ext -out $1.pem; rm $1.csr $1.ext; }
if [ ! -e ca_ci.pem ]; then
  mkinter ca_ci ca_c "verif client sub-CA CI"
  mkleaf client_ci ca_ci client3 "DNS:client3.test" clientAuth
  cat client_ci.pem ca_ci.pem > client_chain.pem
  rm -f *.srl
fi
