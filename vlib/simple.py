"""Generic check shape shared by the table/codec properties:
   (A) TLC model-checks / enumerates a spec config, (B) its printed SCRIPT rows become stimuli,
   (C) seeded stimuli from the harness generator; all stimuli run on the real code (lab) and the
   recorded trace is validated by TLC with the property's Trace_* spec."""
import json, os, time
from . import core
from .core import ToolError

HARNESS_CLAUSES = {'UnknownEvent', 'Order', 'AllHeadersUsable', 'RtOnly', 'RunComplete', 'HarnessOK'}


def run_lab(lab, stims, tag, name, annotate=None, env=None, timeout=1800):
    wd = os.path.join(core.WORK, tag)
    os.makedirs(wd, exist_ok=True)
    sp, tp = (os.path.join(wd, f'{name}.{x}.ndjson') for x in ('stim', 'trace'))
    core.write_ndjson(sp, stims)
    core.vh(lab, 'run', sp, tp, env=env, timeout=timeout)
    ev = core.read_ndjson(tp)
    if annotate:
        annotate(ev)
        core.write_ndjson(tp, ev)
    return ev, tp


def gen(lab, seed, tier, tag):
    wd = os.path.join(core.WORK, tag)
    os.makedirs(wd, exist_ok=True)
    sp = os.path.join(wd, f'{lab}.gen.ndjson')
    core.vh(lab, 'gen', seed, tier, sp)
    return core.read_ndjson(sp)


def validate(prop, trace_module, verdict, events, path, label, cov, clause_filter=None, harness_clauses=HARNESS_CLAUSES, deque=True):
    own = (lambda c: (clause_filter(c) if clause_filter else True) or c in harness_clauses)
    res = core.tlc_trace(trace_module, path, name=f'{prop}_{label}', deque=deque, own=own)
    hb = [b for b in res['bad'] if set(b['clauses']) & harness_clauses]
    n_viol = core.judge_trace(verdict, res, events, prop_filter=clause_filter, label=label)
    if hb:
        b = hb[0]
        msg = f'{label}: harness/projection clause failed {b} : {json.dumps(events[b["ev"]-1])[:400]}'
        # a change to the code under test can break the recording's own invariants as well as the property: if this family also
        # produced property violations, those are reported (exit 1) and the harness failure becomes a note; otherwise it is a
        # tool error (exit 2)
        if n_viol == 0:
            raise ToolError(msg)
        verdict.notes.append(msg)
    cov['traces_validated_against_impl'] += res['stats'].get('runs', 0)
    cov['events_validated'] = cov.get('events_validated', 0) + res['total']
    cov.setdefault('trace_stats', {})[label] = res['stats']
    cov['tv_states'] = cov.get('tv_states', 0) + res.get('tlc_states', 0)
    return res


def sample_of(stims):
    s0 = dict(stims[len(stims) // 2])
    for k in list(s0.keys()):
        if len(json.dumps(s0[k])) > 500:
            s0[k] = json.dumps(s0[k])[:500] + '...'
    return s0


def finish(prop, tier, seed, verdict, cov, mc_stats, t0, assumptions, checker):
    ok_mc = [m for m in mc_stats if 'distinct' in m and not m.get('expected_violation_found')]
    cov['states'] = max(1, sum(m.get('distinct', 0) for m in ok_mc))
    cov['transitions'] = max(1, sum(m.get('generated', 0) for m in ok_mc))
    cov['model_runs'] = [{k: v for k, v in m.items() if k not in ('output_tail',)} for m in mc_stats]
    cov['checker_cmd'] = checker
    cov.setdefault('exhaustive', False)
    rc = verdict.finish()
    for n in verdict.notes:
        print('NOTE', n)
    core.write_evidence(prop, tier, seed, 'model_checking', cov, time.time() - t0, len(verdict.violations) + getattr(verdict, 'suppressed', 0), assumptions)
    return rc
