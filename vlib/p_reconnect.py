"""C14: a channel always answers and recovers. Specs: Reconnect (Mechanism model of Reconnect + buffer worker +
scripted connector, model checked against the Contract incl. liveness), MC_Reconnect (script export), Trace_Reconnect."""
import time, random
from . import core, simple
from .core import ToolError


def _flip_connected(ev):
    for i, x in enumerate(ev):
        if x.get('e') == 'hook' and x.get('ev') == 'rc_connected':
            ev[i] = dict(x, n=1 - x['n'])
            return ev
    return ev


def _drop_idle_make(ev):
    for i, x in enumerate(ev):
        if x.get('e') == 'hook' and x.get('ev') == 'rc_idle_make':
            return ev[:i] + ev[i + 1:]
    return ev


def _ok_to_pending(ev):
    for i, x in enumerate(ev):
        if x.get('e') == 'call' and x.get('res') == 'ok':
            ev[i] = dict(x, res='pending', by='-')
            return ev
    return ev


def _swap_answerer(ev):
    """candidates: an ok answer attributed to the other server (rejected whenever that server is down or not configured)"""
    out = []
    for i, x in enumerate(ev):
        if x.get('e') == 'call' and x.get('res') == 'ok' and len(out) < 4:
            out.append(ev[:i] + [dict(x, by='b' if x['by'] == 'a' else 'a')] + ev[i + 1:])
    return out or ev


def balance_part(verdict, cov, mc, seed, tier, tag):
    """Extension of the specification beyond the listed properties: the load-balanced channel (Balance.tla).  The model is checked
    (Contract; must-violate deviations; the stale-error observation), its simulated behaviours are replayed on a real
    Channel::balance_channel over TCP endpoints on 127.0.0.1, and the recorded steps are validated against the model's own actions.
    Nothing here can fail the C14 check: a mismatch is reported as DRIFT, an infrastructure problem (no loopback TCP) as a note."""
    info = {}
    try:
        r = core.tlc_mc('MC_Balance', 'MC_Balance.cfg', workers=8, timeout=900, coverage=False, check_actions=False)
        info['model'] = {'states': r.get('distinct'), 'violated': r.get('violated'), 'wall_s': r.get('wall_s')}
        if r.get('violated'):
            verdict.drift.append(f'Balance.tla violates its own {r["violated"]}')
        for cfg, inv in (('MC_Balance_nodrain.cfg', 'Contract'), ('MC_Balance_fresh.cfg', 'FreshFailure')):
            core.tlc_mc('MC_Balance', cfg, workers=4, timeout=600, expect_violation=inv, coverage=False)
        r2 = core.tlc_mc('MC_Balance', 'MC_Balance_ideal.cfg', workers=8, timeout=900, coverage=False, check_actions=False)
        info['deviations'] = {'DrainAll=FALSE': 'violates Contract (as it must)', 'PromoteAll=TRUE (the code)': 'violates FreshFailure: a stored dial error reaches a later call',
                              'PromoteAll=FALSE (idealised)': 'FreshFailure ' + ('violated' if r2.get('violated') else 'holds')}
        n = 400 if tier == 'thorough' else 60
        rows, st = core.tlc_export('MC_Balance', 'Gen_Balance.cfg', workers=1, timeout=600, simulate=f'num={n}', seed=seed + 14, name='Gen_Balance')
        rows = rows[:n]
        stims = []
        for r in rows:
            steps, hi = [], 0
            for stp in r['script'][1:]:
                if stp['op'] == 'call':
                    steps.append({'op': 'call', 'expect_pending': r['hist'][hi]['res'] == 'pending'})
                    hi += 1
                else:
                    steps.append(stp)
            stims.append({'class': 'tlc_balance', 'servers': ['a', 'b'], 'up0': r['script'][0]['srv'], 'script': steps})
        # the stale-error scenario found by TLC (MC_Balance_fresh): a down endpoint is dialled while calls go to the other one, then comes back
        for k in range(8 if tier != 'thorough' else 30):
            stims.append({'class': 'stale_error', 'servers': ['a', 'b'], 'up0': ['b'], 'script': [{'op': 'insert', 'key': 'k1', 'srv': 'a'}, {'op': 'insert', 'key': 'k2', 'srv': 'b'}]
                          + [{'op': 'call'}] * (2 + k % 4) + [{'op': 'up', 'srv': 'a'}] + [{'op': 'call'}] * 4})
        # Channel::balance_list: the endpoints are fixed up front; servers go down and come back
        for k in range(6 if tier != 'thorough' else 24):
            up0 = [['a', 'b'], ['a'], ['b'], []][k % 4]
            steps = [{'op': 'call'}, {'op': 'call'}]
            for srv in (('a', 'b') if k % 2 else ('b', 'a')):
                steps += [{'op': 'up' if srv not in up0 else 'down', 'srv': srv}, {'op': 'call'}, {'op': 'call'}]
            stims.append({'class': 'balance_list', 'servers': ['a', 'b'], 'up0': up0, 'list': ['a', 'b'] if k % 3 else ['a'], 'script': steps})
        # plain channels to a unix-socket endpoint (Endpoint "unix://..", connect_lazy): the server goes away and comes back several times
        for k in range(4 if tier != 'thorough' else 16):
            up0 = [['a'], []][k % 2]
            steps = [{'op': 'call'}, {'op': 'call'}]
            cur = 'a' in up0
            for _ in range(3):
                steps += [{'op': 'down' if cur else 'up', 'srv': 'a'}, {'op': 'call'}, {'op': 'call'}]
                cur = not cur
            stims.append({'class': 'uds_channel', 'servers': ['a'], 'up0': up0, 'uds': True, 'single': True, 'run_tag': k, 'script': steps})
        ev, path = simple.run_lab('balance', stims, tag + '_balance', 'balance', timeout=2400, env={'VH_HANG_SECS': '90'})
        # the clauses of C14 that read the same for any channel (completes, definite result, recovers) are violations when they fail
        # (this lab runs in real time over real sockets: a violation is reported only if it shows again when the run is repeated on its own)
        if not any(e.get('e') == 'lab_error' for e in ev):
            cf = lambda c: c.startswith('C14.') or c in ('NoPanic', 'NoHang')
            first = core.Verdict('C14')
            res1 = simple.validate('C14', 'Trace_Balance', first, ev, path, 'balance', cov, clause_filter=cf)
            badruns = sorted({b['run'] for b in res1.get('bad', [])})
            if badruns:
                again = [r[0]['stim'] for r in core.split_runs(ev) if r[0].get('run') in badruns][:10]
                ev2, path2 = simple.run_lab('balance', again, tag + '_balance', 'balance_again', timeout=1200, env={'VH_HANG_SECS': '90'})
                simple.validate('C14', 'Trace_Balance', verdict, ev2, path2, 'balance', cov, clause_filter=cf)
                info['violating_runs_first_pass'] = len(badruns)
        runs = [r for r in core.split_runs(ev) if not any(e.get('e') == 'lab_error' for e in r)]
        bad_end = [r for r in runs if any(e.get('e') == 'end' and e.get('outcome') != 'ok' for e in r)]
        for r in bad_end[:3]:
            verdict.drift.append(f'balance run {r[0].get("run")} ended with {[e for e in r if e.get("e") == "end"][0]}')
        runs = [r for r in runs if r not in bad_end]
        calls = [e for r in runs for e in r if e.get('e') == 'call']
        info['replayed'] = {'runs': len(runs), 'calls': len(calls), 'ok': sum(e['res'] == 'ok' for e in calls), 'unavailable': sum(e['res'] == 'unavailable' for e in calls),
                            'pending': sum(e['res'] == 'pending' for e in calls), 'other': sum(e['res'] == 'other' for e in calls)}
        # the observation TLC makes on the model (MC_Balance_fresh), looked for in the recorded runs: an UNAVAILABLE answer
        # while every configured server is up - the error of an earlier dial, kept by the endpoint and handed to a later call
        stale = 0
        for r in runs:
            up, want = set(r[0]['stim'].get('up0', [])), {}
            for e in r:
                if e.get('e') == 'env':
                    if e['op'] == 'insert': want[e['key']] = e['srv']
                    elif e['op'] == 'remove': want.pop(e['key'], None)
                    elif e['op'] == 'down': up.discard(e['srv'])
                    elif e['op'] == 'up': up.add(e['srv'])
                elif e.get('e') == 'call' and e['res'] == 'unavailable' and want and set(want.values()) <= up:
                    stale += 1
        info['stale_errors_observed'] = stale
        if runs:
            info['mechanism_trace'] = core.mech_validate(verdict, runs, 'Trace_BalanceMech', 'Trace_BalanceMech.cfg', tag + '_balance', 'balance', 'Balance.tla',
                                                            (('ok_to_pending', _ok_to_pending), ('swap_answerer', _swap_answerer)))
    except Exception as e:      # never fails the check of a listed property
        info['note'] = f'balance extension not evaluated: {str(e)[:300]}'
        verdict.notes.append(info['note'])
    cov['balance_extension'] = info


def check(prop, tier, seed):
    t0 = time.time()
    core.build_harness()
    verdict = core.Verdict(prop)
    cov = {'traces_validated_against_impl': 0, 'samples': []}
    mc = []
    tag = f'{prop}_{tier}'
    allow = {'PR_Err', 'ClosedCall'}
    for cfg in ('MC_Reconnect_TRUE.cfg', 'MC_Reconnect_FALSE.cfg'):
        r = core.tlc_mc('MC_Reconnect', cfg, workers=8)
        if r.get('violated'):
            raise ToolError(f'{cfg}: Mechanism model violates {r["violated"]}:\n' + r.get('output_tail', '')[-2500:])
        if set(r.get('never_taken', [])) - allow:
            raise ToolError(f'{cfg}: vacuous actions {r["never_taken"]}')
        mc.append(r)
    if tier == 'thorough':
        for cfg in ('MC_Reconnect_big_TRUE.cfg', 'MC_Reconnect_big_FALSE.cfg'):      # all 3 280 scripts of length <= 7, 7 calls
            r = core.tlc_mc('MC_Reconnect', cfg, workers=12, timeout=3000)
            if r.get('violated'):
                raise ToolError(f'{cfg}: Mechanism model violates {r["violated"]}:\n' + r.get('output_tail', '')[-2500:])
            mc.append(r)
    # unbounded: TLAPS proof of the Contract for any set of scripts, any number of calls, lazy or eager
    pr = core.tlapm_check('ReconnectProof', ['Reconnect'])
    if not pr['ok']:
        raise ToolError('tlapm: the proof that Reconnect.tla satisfies the Contract (ReconnectProof.tla) no longer goes through:\n' + pr.get('output_tail', ''))
    cov['tlaps_proof'] = {'theorem': 'Spec => []Contract for all Scripts, MaxCalls, Lazy', 'obligations_proved': pr['obligations'], 'wall_s': pr['wall_s']}
    if tier == 'thorough':
        neg = core.tlapm_check('ReconnectProof', ['Reconnect'], name='ReconnectProof_neg', mutate=lambda t: t.replace('TakeError = TRUE', 'TakeError \\in BOOLEAN'))
        if neg['ok']:
            raise ToolError('tlapm proved the Contract without assuming TakeError: the proof is vacuous')
        cov['tlaps_proof']['without_take_error'] = 'proof fails (as it must)'
    mc.append(core.tlc_mc('MC_Reconnect', 'MC_Reconnect_keeperr.cfg', workers=4, expect_violation='Contract'))
    mc.append(core.tlc_mc('MC_Reconnect', 'MC_Reconnect_nohbc.cfg', workers=4, expect_violation='Contract'))
    stims = []
    gens = ('Gen_Reconnect_TRUE.cfg', 'Gen_Reconnect_FALSE.cfg') if tier != 'thorough' else ('Gen_Reconnect_big_TRUE.cfg', 'Gen_Reconnect_big_FALSE.cfg')
    for cfg in gens:
        rows, st = core.tlc_export('MC_Reconnect', cfg, workers=1, timeout=900)
        mc.append(st)
        seen = set()
        for r in rows:
            k = (tuple(r['script']), r['lazy'])
            if k in seen:
                continue
            seen.add(k)
            stims.append({'class': 'tlc_script', 'lazy': r['lazy'], 'script': r['script'], 'calls': len(r['expect']) if r['connect'] == 'ok' and r['expect'] else 5, 'expect': r['expect'], 'expect_connect': r['connect'],
                          'connect_timeout': len(stims) % 3 == 1,       # a third of the channels also have Endpoint::connect_timeout set
                          'fail_kinds': [['refused'], ['timed_out', 'other'], ['not_found', 'denied', 'reset'], ['other']][len(stims) % 4],   # io::ErrorKind of failed attempts
                          'zero_calls': [[], [], [1], [], [0, 2], [], [3]][len(stims) % 7],   # calls issued with an already expired deadline
                          'ep_opts': [[], ['concurrency_limit'], [], ['rate_limit'], [], ['user_agent', 'buffer_size'], ['concurrency_limit', 'rate_limit']][len(stims) % 7]})   # other Endpoint options (tower layers around the connection)
    if not stims:
        raise ToolError('no scripts exported')
    # every fifth channel is an https one (tonic wraps the scripted connector's pipe in TLS); on half of those the failed attempts are
    # dials that succeed and die in the TLS handshake (the peer closes before it completes)
    for i, st in enumerate(stims):
        if i % 6 == 3:      # a dialer behind a tower ConcurrencyLimit (it must be polled ready before it is called)
            st['limited_dialer'] = True
        if i % 5 == 2:
            st['tls'] = True
            if (i // 5) % 2 == 0:
                st['fail_kinds'] = ['handshake_eof']
    if tier == 'thorough':
        rnd = random.Random(seed)
        for _ in range(400):
            n = rnd.randint(6, 9)
            stims.append({'class': 'long_script', 'lazy': rnd.random() < 0.5, 'script': [rnd.choice('FSD') for _ in range(n)], 'calls': 8})
    ev, path = simple.run_lab('reconnect', stims, tag, 'scripts')
    simple.validate(prop, 'Trace_Reconnect', verdict, ev, path, 'scripts', cov, clause_filter=lambda c: c.startswith('C14.') or c in ('NoPanic', 'NoHang'))
    # mechanism conformance: the model's predicted results vs the code's
    nd = 0
    for run in core.split_runs(ev):
        st = run[0]['stim']
        if 'expect' not in st:
            continue
        # (a call with an expired deadline that was cut off with CANCELLED stands for the 'ok' the model predicts)
        got = [('ok' if e['res'] == 'ok' or (e.get('zero') and e.get('code') == 1) else 'unavailable' if e.get('code') == 14 else 'other:%s' % e.get('code')) for e in run if e.get('e') == 'call']
        conn = [e['res'] for e in run if e.get('e') == 'connect']
        if conn and conn[0] != st['expect_connect'] or (conn and conn[0] == 'ok' and got != st['expect'][:len(got)]):
            nd += 1
            if nd <= 3:
                verdict.drift.append(f'script {st["script"]} lazy={st["lazy"]}: model predicted connect={st["expect_connect"]} {st["expect"]}, code gave connect={conn} {got}')
    # mechanism trace validation: the hook events of every arm of Reconnect::poll_ready / call are steps of Reconnect.tla
    runs = core.split_runs(ev)
    mt = {}
    for lazy in (True, False):
        sel = [r for r in runs if bool(r[0]['stim'].get('lazy')) == lazy and not any(e.get('e') == 'end' and e.get('outcome') != 'ok' for e in r)]
        name = 'TRUE' if lazy else 'FALSE'
        mt['lazy' if lazy else 'eager'] = core.mech_validate(verdict, sel, 'Trace_ReconnectMech', f'Trace_ReconnectMech_{name}.cfg', tag, f'scripts_{name}', 'Reconnect.tla',
                                                             (('flip_connected', _flip_connected), ('drop_idle_make', _drop_idle_make)))
    cov['mechanism_trace'] = mt
    nd += sum(m['runs_rejected'] for m in mt.values())
    cov['mechanism_drift'] = f'{nd} runs differ from the Mechanism model prediction'
    cov['samples'].append({'family': 'scripts', 'stimulus': simple.sample_of(stims)})
    balance_part(verdict, cov, mc, seed, tier, tag)
    cov['exhaustive'] = True
    cov['exhaustive_note'] = 'every script over {F,S,D} of length <= 5, lazy and eager, 5 calls each, is model checked and replayed on the real Channel'
    return simple.finish(prop, tier, seed, verdict, cov, mc, t0,
                         ['calls are issued at quiescent points (1 ms of virtual time after every drop and call)',
                          'scripted drops are followed by a quiescence barrier, so the client has noticed the drop before the next call (no slack for unnoticed drops)',
                          'how often the connector is invoked per call is not constrained by the Contract'],
                         'tlc MC_Reconnect_*.cfg, Gen_Reconnect_*.cfg; tlapm ReconnectProof.tla; vh reconnect; tlc Trace_Reconnect.cfg; tlc Trace_ReconnectMech_*.cfg')


def replay(prop, path):
    core.build_harness()
    stims = [r['stim'] for r in core.read_ndjson(path) if r.get('e') == 'reset']
    verdict = core.Verdict(prop)
    cov = {'traces_validated_against_impl': 0, 'samples': []}
    ev, p = simple.run_lab('reconnect', stims, f'{prop}_replay', 'replay')
    simple.validate(prop, 'Trace_Reconnect', verdict, ev, p, 'replay', cov, clause_filter=lambda c: c.startswith('C14.') or c in ('NoPanic', 'NoHang'))
    return verdict.finish()
