"""C15: TLS wiring decision table. Specs: Tls (table + clauses), MC_Tls (enumeration/export), Trace_Tls."""
import time
from . import core, simple
from .core import ToolError


def _pem_ders(name):
    import base64, re
    txt = open(f'{core.VERIF}/tls-data/{name}').read()
    return [base64.b64decode(''.join(b.split())) for b in re.findall(r'-----BEGIN CERTIFICATE-----(.*?)-----END CERTIFICATE-----', txt, re.S)]


def _digest(der):
    return sum((i % 251 + 1) * b for i, b in enumerate(der)) % 1000003


def check(prop, tier, seed):
    t0 = time.time()
    core.build_harness()
    verdict = core.Verdict(prop)
    cov = {'traces_validated_against_impl': 0, 'samples': []}
    mc = []
    tag = f'{prop}_{tier}'
    rows, st = core.tlc_export('MC_Tls', 'MC_Tls.cfg', workers=1, timeout=600)
    if st.get('distinct', 0) != len(rows):
        raise ToolError('MC_Tls: export incomplete / TableOK violated')
    mc.append(st)
    for r in rows:
        r['class'] = 'tlc_table'
    # a client CA that yields no trust anchor (empty PEM, a private key in its place): nobody may be served then
    extra = []
    for r in rows:
        if r['alpn'] == 'h2' and r['client_auth'] != 'none' and r['roots'] == 'right' and r['name'] == 'match' and r['tls_cfg']:
            for ca in ('empty', 'key_only'):
                extra.append(dict(r, client_ca=ca, **{'class': 'unusable_client_ca'}))
    # an origin override (set before or after the TLS configuration, naming a host the certificate does or does not cover) changes nothing
    for r in rows:
        if r['alpn'] == 'h2' and r['client_auth'] == 'none' and r['identity'] == 'none' and not r['assume_http2'] and r['tls_cfg']:
            for o in ('good_before', 'good_after', 'bad_before', 'bad_after'):
                extra.append(dict(r, origin=o, **{'class': 'origin_override'}))
    # a trusted certificate handed over as part of a PEM bundle (several certificates in one PEM) is as good as alone
    for r in rows:
        if r['alpn'] == 'h2' and not r['assume_http2'] and r['tls_cfg'] and r['name'] in ('match', 'mismatch'):
            if r['client_auth'] == 'none' and r['identity'] == 'none' and r['roots'] in ('right', 'other'):
                for f in ('bundle_first', 'bundle_last', 'list_first', 'list_last'):
                    extra.append(dict(r, roots_form=f, **{'class': 'pem_bundle_roots' if f.startswith('bundle') else 'several_roots'}))
            if r['client_auth'] != 'none' and r['roots'] == 'right' and r['name'] == 'match':
                for f in ('bundle_first', 'bundle_last'):
                    extra.append(dict(r, client_ca_form=f, **{'class': 'pem_bundle_client_ca'}))
    # a client identity that is a chain (leaf + the sub-CA that issued it; the server trusts only the root above): accepted like a
    # one-certificate identity, and the handler is shown the whole chain; the leaf alone has no path to the trusted CA
    for r in rows:
        if r['identity'] == 'valid' and r['roots'] == 'right' and r['name'] in ('match', 'uri_match') and r['tls_cfg']:
            for ident in ('chain', 'chain_leaf_only'):
                extra.append(dict(r, identity=ident, **{'class': 'chained_identity'}))
    # a second connection from the same Endpoint, to a server that can resume the first one's session and negotiates another ALPN
    for r in rows:
        if (r['alpn'] == 'h2' and r['client_auth'] == 'none' and r['identity'] == 'none' and r['roots'] == 'right' and r['name'] == 'match' and r['tls_cfg']):
            for a2 in ('h2', 'none', 'http/1.1'):
                extra.append(dict(r, second_alpn=a2, **{'class': 'second_connection'}))
            # ... or to a second tonic server of the same process that requires client certificates (the client has none)
            extra.append(dict(r, second_alpn='h2', second_client_auth='required', **{'class': 'second_server_is_strict'}))
    rows = rows + extra
    # load-balanced channels over two https endpoints (loopback TCP, real time): B's own settings decide whether B is ever talked to
    base = dict(rows[0], roots='right', name='match', alpn='h2', assume_http2=False, client_auth='none', identity='none', tls_cfg=True)
    rows = rows + [dict(base, balance_tls=True, b_domain=d, **{'class': 'balanced_tls_endpoints'}) for d in ('wrong.test', 'good.test', 'other.test')]
    presented = {'valid': [_digest(c) for c in _pem_ders('client_c.pem')], 'chain': [_digest(c) for c in _pem_ders('client_chain.pem')]}
    if len(presented['valid']) != 1 or len(presented['chain']) != 2:
        raise ToolError('tls-data: unexpected number of certificates in the client identities')
    for r in rows:
        if r['identity'] in presented:
            r['presented'] = presented[r['identity']]
    for i, r in enumerate(rows):      # every other configuration is built with the builder calls in the opposite order
        if i % 2 == 1:
            r['order'] = 'rev'
        if (i // 2) % 2 == 1:      # options that have a documented default are left unset instead of being set to that default
            r['leave_default'] = True
        if i % 5 == 3:      # the connection under test is accepted after the listener has reported a fatal accept error
            r['accept_error_first'] = True
    ev, path = simple.run_lab('tls', rows, tag, 'table', timeout=3000)
    simple.validate(prop, 'Trace_Tls', verdict, ev, path, 'table', cov, clause_filter=lambda c: c.startswith('C15.') or c in ('NoPanic', 'NoHang'))
    cov['samples'].append({'family': 'table', 'stimulus': simple.sample_of(rows)})
    cov['exhaustive'] = True
    return simple.finish(prop, tier, seed, verdict, cov, mc, t0,
                         ['rustls / webpki do the cryptography and chain validation (trusted base); the table specifies tonic\'s wiring',
                          'test PKI minted once with openssl and committed under /verif/tls-data (valid until 2126)',
                          'verified peer certificates are read from TlsConnectInfo<()> because Request::peer_certs() only knows TCP / UDS connect infos'],
                         'tlc MC_Tls.cfg (1 296-point table, all replayed with real handshakes); vh tls; tlc Trace_Tls.cfg')


def replay(prop, path):
    core.build_harness()
    stims = [r['stim'] for r in core.read_ndjson(path) if r.get('e') == 'reset']
    verdict = core.Verdict(prop)
    cov = {'traces_validated_against_impl': 0, 'samples': []}
    ev, p = simple.run_lab('tls', stims, f'{prop}_replay', 'replay')
    simple.validate(prop, 'Trace_Tls', verdict, ev, p, 'replay', cov, clause_filter=lambda c: c.startswith('C15.') or c in ('NoPanic', 'NoHang'))
    return verdict.finish()
