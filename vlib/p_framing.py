"""C01, C03 (body clauses), C06, C07: message framing. Spec modules: Bytes, FramingContract, FramingDec,
FramingEnc (Mechanism models, model checked against the Contract), Gen_* (TLC -> implementation scripts),
Trace_Framing (implementation -> TLC trace validation)."""
import json, os, random, time, hashlib
from . import core, decomp
from .core import ToolError

HARNESS_CLAUSES = {'RecorderHonest', 'HintsAligned', 'UnknownEvent', 'ScriptOffsetsConsistent', 'BodyBeforeDecode',
                   'EncBeforeDone', 'DeliveredIsPrefix', 'BodyPolledToEnd', 'KnownResult'}
CLAUSES = {
    'C01': {'WireDet', 'NoMessageLost', 'OnlyFramedMessages', 'NoSpuriousError', 'FirstErrorFinal', 'EndIsFinal',
            'NoSilentFailure', 'StreamTerminates', 'RunComplete', 'NoPanic', 'NoHang', 'EveryPollCompletes',
            'TerminalIsFinal', 'FramesAreTheMessages', 'BodyIsWholeFrames', 'NonEmptyData', 'TrueStatus',
            'NoCollateralLoss', 'NothingAfterStatus', 'StatusOnce', 'StatusBeforeEnd', 'NoPendingAfterEnd', 'PendingArrangesWakeup'},
    'C03': {'BodyIsWholeFrames', 'FramesAreTheMessages', 'StatusOnce', 'NothingAfterStatus', 'ClientHasNoTrailers',
            'ServerReportsInTrailers', 'TrueStatus', 'EosOnlyAfterStatus', 'StatusBeforeEnd', 'NoCollateralLoss',
            'WireDet', 'NoPendingAfterEnd', 'NonEmptyData', 'NoPanic', 'NoHang', 'RunComplete'},
    'C06': {'AcceptedIffWithinLimit', 'OversizeIsOutOfRange', 'RefusedBeforeReserve', 'NoCollateralLoss', 'TrueStatus',
            'NothingAfterStatus', 'StatusOnce', 'WireDet', 'NoMessageLost', 'OnlyFramedMessages', 'NoSpuriousError',
            'NoSilentFailure', 'FirstErrorFinal', 'EndIsFinal', 'NoPanic', 'NoHang', 'RunComplete', 'StreamTerminates',
            'StatusBeforeEnd', 'FramesAreTheMessages', 'BodyIsWholeFrames', 'EosOnlyAfterStatus'},
    'C07': {'FirstErrorFinal', 'EndIsFinal', 'TerminalIsFinal', 'EveryPollCompletes', 'NoPanic', 'NoHang',
            'OnlyFramedMessages', 'StreamTerminates', 'RunComplete', 'NoSilentFailure', 'NoSpuriousError',
            'AcceptedIffWithinLimit', 'OversizeIsOutOfRange', 'FlagWithoutEncodingIsInternal', 'NoMessageLost', 'TrueStatus',
            'PendingArrangesWakeup'},
}


def _mc(stats, module, cfg, workers=8, expect_violation=None, timeout=1500):
    r = core.tlc_mc(module, cfg, workers=workers, expect_violation=expect_violation, timeout=timeout)
    stats.append(r)
    if r.get('violated') and not expect_violation:
        raise ToolError(f'{cfg}: the repaired Mechanism model violates {r["violated"]} - specification bug or design defect:\n' + r.get('output_tail', '')[-2500:])
    if r.get('never_taken'):
        raise ToolError(f'{cfg}: actions never taken (vacuous model): {r["never_taken"]}')
    return r


def model_check_dec(stats, tier):
    _mc(stats, 'MC_FramingDec', 'MC_FramingDec.cfg')
    _mc(stats, 'MC_FramingDec', 'MC_FramingDec_noenc.cfg')
    # named deviation: the decoder before the fix must violate the monitor (anti-vacuity of the Contract)
    _mc(stats, 'MC_FramingDec', 'MC_FramingDec_unlatched.cfg', expect_violation='Shape')
    # named deviation: an empty DATA frame taken for the end of the body
    _mc(stats, 'MC_FramingDec', 'MC_FramingDec_emptyends.cfg', expect_violation='ContractHolds')
    if tier == 'thorough':
        _mc(stats, 'MC_FramingDec', 'MC_FramingDec_big.cfg', workers=12, timeout=3000)


def model_check_enc(stats, tier):
    for role in ('server', 'client'):
        _mc(stats, 'MC_FramingEnc', f'MC_FramingEnc_{role}_TRUE.cfg')
        _mc(stats, 'MC_FramingEnc', f'MC_FramingEnc_{role}_FALSE.cfg', expect_violation='ContractHolds')


def _run_lab(name, stims, tag):
    wd = os.path.join(core.WORK, tag)
    os.makedirs(wd, exist_ok=True)
    sp, tp, ap = (os.path.join(wd, f'{name}.{x}.ndjson') for x in ('stim', 'trace', 'ann'))
    core.write_ndjson(sp, stims)
    core.vh('framing', 'run', sp, tp)
    ev = core.read_ndjson(tp)
    decomp.annotate(ev)
    core.write_ndjson(ap, ev)
    return ev, ap


def _gen(lab, seed, tier, tag):
    wd = os.path.join(core.WORK, tag)
    os.makedirs(wd, exist_ok=True)
    sp = os.path.join(wd, f'{lab}.gen.ndjson')
    core.vh(lab, 'gen', seed, tier, sp)
    return core.read_ndjson(sp)


def dec_scripts(seed, tier, stats):
    """Pattern B: behaviours of the decoder Mechanism model as stimuli."""
    if tier == 'thorough':
        rows, st = core.tlc_export('Gen_FramingDec', 'Gen_FramingDec.cfg', workers=8, timeout=1500)
        rnd = random.Random(seed)
        rnd.shuffle(rows)
        rows = rows[:40000]
    else:
        rows, st = core.tlc_export('Gen_FramingDec', 'Gen_FramingDec.cfg', workers=1, simulate='num=700', seed=seed, timeout=600)
    st['kept'] = len(rows)
    stats.append(st)
    seen, stims = set(), []
    for r in rows:
        key = json.dumps([r['wire'], r['tail'], r['cuts']])
        if key in seen:
            continue
        seen.add(key)
        role = 'client' if r['tail'] == 'none_req' else 'server'
        tail = {'none_req': 'none', 'none_resp': 'none', 'trailers_ok': 'trailers_ok', 'trailers_err': 'trailers_err', 'body_err': 'body_err'}[r['tail']]
        stims.append({'kind': 'dec', 'class': 'tlc_behaviour', 'role': role, 'dec_enc': 'identity', 'enc': 'identity', 'override': False,
                      'codec': 'raw', 'bufsz': 8, 'yield': 32768, 'limit_enc': -1, 'limit_dec': 2, 'items': [], 'wire': r['wire'],
                      'cuts': r['cuts'] + [64], 'body_pend': [], 'tail': tail, 'tail_at': len(r['cuts']), 'extra_polls': 1,
                      'expect': r['expect']})
    # the same behaviours with a negotiated encoding: flagged frames of the model (lengths 0..3, arbitrary
    # bytes) then reach the real decompressors; no prediction is attached (the model's compressor is abstract)
    encs = ['gzip', 'deflate', 'zstd']
    extra = []
    for i, s0 in enumerate(stims):
        if any(f == 1 for f in s0['wire'][:1]) or (i % 3 == 0):
            s1 = dict(s0)
            s1.pop('expect', None)
            s1['dec_enc'] = encs[i % 3]
            s1['class'] = 'tlc_behaviour_enc'
            extra.append(s1)
    return stims + extra


def enc_scripts(stats):
    stims = []
    for role in ('server', 'client'):
        rows, st = core.tlc_export('Gen_FramingEnc', f'Gen_FramingEnc_{role}.cfg', workers=1, timeout=600)
        stats.append(st)
        for r in rows:
            items = [({'k': 'msg', 'b': it['ser']} if it['k'] == 'msg' else
                      {'k': 'encfail', 'b': [250, 17, len(it['ser'])] + it['ser']} if it['k'] == 'encfail' else it) for it in r['items']]
            for it in items:
                if it['k'] == 'err':
                    it['msg'] = [101]
            stims.append({'kind': 'enc', 'class': 'tlc_behaviour', 'role': role, 'enc': 'identity', 'override': False, 'codec': 'raw',
                          'bufsz': 8, 'yield': r['yield'], 'limit_enc': r['limit'], 'limit_dec': -1, 'items': items, 'cuts': [],
                          'body_pend': [], 'tail': 'none', 'tail_at': 0, 'extra_polls': 1, 'expect': r['expect']})
    return stims


def drift(verdict, events):
    """Mechanism conformance: compare what the model predicted with what the code did (never a violation)."""
    n = 0
    for run in core.split_runs(events):
        exp = run[0].get('stim', {}).get('expect')
        if not exp:
            continue
        kind = run[0]['stim']['kind']
        if kind == 'dec':
            got = [e for e in run if e.get('e') == 'dec' and e.get('r') not in ('pending',)]
            g = [(e['r'], e.get('m') if e['r'] == 'msg' else (e.get('st', {}).get('code') if e['r'] == 'err' else None)) for e in got]
            x = [(e['r'], e.get('ser') if e['r'] == 'msg' else (e.get('code') if e['r'] == 'err' else None)) for e in exp]
        else:
            got = [e for e in run if e.get('e') == 'enc']
            g = [(e['r'], e.get('bytes') if e['r'] == 'data' else None) for e in got]
            x = [(e['r'], e.get('bytes') if e['r'] == 'data' else None) for e in exp]
        m = min(len(g), len(x))
        if g[:m] != x[:m]:
            n += 1
            if n <= 3:
                verdict.drift.append(f'mechanism model predicted {x[:m]} but the code produced {g[:m]} (run {run[0].get("run")})')
    return n


def validate(prop, verdict, events, path, label, cov):
    res = core.tlc_trace('Trace_Framing', path, name=f'{prop}_{label}')
    harness_bad = [b for b in res['bad'] if set(b['clauses']) & HARNESS_CLAUSES]
    if harness_bad:
        b = harness_bad[0]
        raise ToolError(f'{label}: harness/projection clause failed {b} : {json.dumps(events[b["ev"]-1])[:400]}')
    n = core.judge_trace(verdict, res, events, prop_filter=lambda c: c in CLAUSES[prop], label=label)
    other = [b for b in res['bad'] if not (set(b['clauses']) & CLAUSES[prop])]
    for b in other[:3]:
        verdict.notes.append(f'{label}: clauses of a sibling property failed: {b}')
    cov['traces_validated_against_impl'] += res['stats'].get('runs', 0)
    cov['events_validated'] = cov.get('events_validated', 0) + res['total']
    cov.setdefault('trace_stats', {})[label] = res['stats']
    cov['tv_states'] = cov.get('tv_states', 0) + res.get('tlc_states', 0)
    return n


def check(prop, tier, seed):
    t0 = time.time()
    core.build_harness()
    verdict = core.Verdict(prop)
    mc_stats = []
    cov = {'traces_validated_against_impl': 0, 'samples': []}
    tag = f'{prop}_{tier}'
    families = []
    if prop in ('C01', 'C07', 'C06'):
        model_check_dec(mc_stats, tier)
    if prop in ('C01', 'C03', 'C06'):
        model_check_enc(mc_stats, tier)
    if prop == 'C01':
        families.append(('roundtrip', _gen('framing', seed, tier, tag)))
        families.append(('tlc_dec', [s for s in dec_scripts(seed, tier, mc_stats) if True]))
        families.append(('tlc_enc', enc_scripts(mc_stats)))
    elif prop == 'C03':
        families.append(('roundtrip', _gen('framing', seed + 1000, tier, tag)))
        families.append(('enc_limits', [s for s in _gen('framing_limits', seed, tier, tag) if s['class'] == 'enc_limit']))
        families.append(('tlc_enc', enc_scripts(mc_stats)))
    elif prop == 'C06':
        families.append(('limits', _gen('framing_limits', seed, tier, tag)))
        families.append(('tlc_enc', enc_scripts(mc_stats)))
        families.append(('tlc_dec', dec_scripts(seed, tier, mc_stats)))
    elif prop == 'C07':
        families.append(('hostile', _gen('framing_hostile', seed, tier, tag)))
        families.append(('tlc_dec', dec_scripts(seed, tier, mc_stats)))
    ndrift = 0
    classes = {}
    for label, stims in families:
        if not stims:
            raise ToolError(f'{label}: no stimuli generated')
        ev, path = _run_lab(label, stims, tag)
        validate(prop, verdict, ev, path, label, cov)
        ndrift += drift(verdict, ev)
        for s in stims:
            classes[s.get('class', label)] = classes.get(s.get('class', label), 0) + 1
        s0 = dict(stims[len(stims) // 2])
        for k in ('wire', 'items'):
            if k in s0 and len(json.dumps(s0[k])) > 400:
                s0[k] = str(s0[k])[:400] + '...'
        cov['samples'].append({'family': label, 'stimulus': s0})
    if prop == 'C03':
        # head-of-message clauses (POST, HTTP/2, path, content-type, te, status 200, exactly one grpc-status, no request
        # trailers) on recorded RPCs of the generated client and server: Call.tla / Trace_Call.tla
        from . import p_call, simple
        cstims = simple.gen('call', seed, tier, tag)
        cev, cpath = simple.run_lab('call', cstims, tag, 'calls', annotate=decomp.annotate)
        simple.validate(prop, 'Trace_Call', verdict, cev, cpath, 'calls', cov, clause_filter=p_call.clause_filter('C03'), harness_clauses=p_call.HARNESS)
        cov['samples'].append({'family': 'calls', 'stimulus': simple.sample_of(cstims)})
        # ... on calls whose own metadata carries protocol headers (grpc-encoding, grpc-accept-encoding) over the client's compression grid
        nstims = p_call.client_negotiation_stims(seed, tier)
        nev, npath = simple.run_lab('call', nstims, tag, 'client_negotiation', annotate=decomp.annotate)
        simple.validate(prop, 'Trace_Call', verdict, nev, npath, 'client_negotiation', cov, clause_filter=p_call.clause_filter('C03'), harness_clauses=p_call.HARNESS)
        cov['samples'].append({'family': 'client_negotiation', 'stimulus': simple.sample_of(nstims)})
        # ... in builds of tonic with a single compression feature
        p_call.single_feature_family(prop, tier, seed, verdict, cov, mc_stats)
        # ... and on the wire of the complete transport server, where a response may also be synthesised for a call that failed in a layer
        wstims = p_call.wire_stims(seed, tier)
        wev, wpath = simple.run_lab('call', wstims, tag, 'wire_responses', annotate=decomp.annotate)
        simple.validate(prop, 'Trace_Call', verdict, wev, wpath, 'wire_responses', cov, clause_filter=p_call.clause_filter('C03'), harness_clauses=p_call.HARNESS)
        cov['samples'].append({'family': 'wire_responses', 'stimulus': simple.sample_of(wstims)})
    if prop == 'C06':
        # the limits as configured on generated clients / servers (max_{de,en}coding_message_size), end to end
        from . import p_call, simple
        lstims = p_call.limit_stims(seed, tier)
        lev, lpath = simple.run_lab('call', lstims, tag, 'call_limits', annotate=decomp.annotate)
        simple.validate(prop, 'Trace_Call', verdict, lev, lpath, 'call_limits', cov, clause_filter=p_call.clause_filter('C06'), harness_clauses=p_call.HARNESS)
        cov['samples'].append({'family': 'call_limits', 'stimulus': simple.sample_of(lstims)})
    ok_mc = [m for m in mc_stats if 'distinct' in m and not m.get('expected_violation_found')]
    cov['states'] = sum(m.get('distinct', 0) for m in ok_mc)
    cov['transitions'] = sum(m.get('generated', 0) for m in ok_mc)
    cov['model_runs'] = [{k: v for k, v in m.items() if k not in ('output_tail',)} for m in mc_stats]
    cov['stimulus_classes'] = classes
    cov['mechanism_drift'] = f'{ndrift} runs differ from the Mechanism model prediction'
    cov['checker_cmd'] = 'tlc (MC_Framing*.cfg, Gen_Framing*.cfg, Trace_Framing.cfg) + harness/vh framing'
    cov['exhaustive'] = False
    rc = verdict.finish()
    for n in verdict.notes:
        print('NOTE', n)
    core.write_evidence(prop, tier, seed, 'model_checking', cov, time.time() - t0, len(verdict.violations),
                        ['TLC explores the Mechanism models exhaustively only within the stated constants',
                         'gzip/deflate decompression of recorded frames is done by CPython zlib, zstd by the zstd crate bulk API (trusted base)',
                         'the harness projection (event recording) is trusted; offsets/frames it reports are re-derived by the spec'])
    return rc


def replay(prop, path):
    core.build_harness()
    rows = core.read_ndjson(path)
    stims = [r['stim'] for r in rows if r.get('e') == 'reset' and 'stim' in r and r.get('lab') != 'call' and not str(r.get('lab', '')).startswith('vhf:')]
    cstims = [r['stim'] for r in rows if r.get('e') == 'reset' and 'stim' in r and r.get('lab') == 'call']
    verdict = core.Verdict(prop)
    cov = {'traces_validated_against_impl': 0, 'samples': []}
    if stims:
        ev, p = _run_lab('replay', stims, f'{prop}_replay')
        validate(prop, verdict, ev, p, 'replay', cov)
    from . import p_call
    p_call.replay_vhf(prop, rows, verdict, cov)
    if cstims:
        from . import p_call, simple
        ev, p = simple.run_lab('call', cstims, f'{prop}_replay', 'replay', annotate=decomp.annotate)
        simple.validate(prop, 'Trace_Call', verdict, ev, p, 'replay', cov, clause_filter=p_call.clause_filter(prop), harness_clauses=p_call.HARNESS)
    return verdict.finish()
