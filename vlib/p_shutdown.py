"""C13: graceful shutdown loses no accepted call. Specs: Shutdown (Mechanism model of the accept loop, connection
tasks and watch channel; safety + liveness under weak fairness; two named deviations), Gen_Shutdown (environment
schedules), Trace_Shutdown (Contract-level validation of real runs in virtual time)."""
import json, os, random, time
from . import core, simple
from .core import ToolError


def biased_schedules(rnd, n):
    """Environment schedules with the signal placed inside the life of in-flight calls (TLC's uniform simulation
    fires the signal early most of the time). Same alphabet and legality rules as the model's Env actions."""
    out = []
    for _ in range(n):
        nconn = rnd.randint(1, 3)
        calls = []
        for k in range(1, rnd.randint(1, 5) + 1):
            calls.append({'k': k, 'c': rnd.randint(1, nconn), 'items': rnd.choice([0, 0, 1, 2, 3])})
        need = {c['k']: c['items'] + 1 for c in calls}
        steps, offered, sent, fired, dropped = [], set(), set(), False, set()
        fire_at = rnd.randint(0, 12)
        for i in range(rnd.randint(6, 18)):
            if i == fire_at and not fired:
                steps.append({'op': 'fire', 'c': 0, 'k': 0, 'nb': rnd.random() < 0.3}); fired = True; continue
            choices = []
            for c in range(1, nconn + 1):
                if c not in offered:
                    choices.append({'op': 'offer', 'c': c, 'k': 0})
                elif c not in dropped and rnd.random() < 0.15:
                    choices.append({'op': 'drop', 'c': c, 'k': 0})
            for c in calls:
                if c['k'] not in sent and c['c'] in offered and c['c'] not in dropped:
                    choices.append({'op': 'send', 'c': 0, 'k': c['k']})
                if c['k'] in sent and need[c['k']] > 0:
                    choices.append({'op': 'release', 'c': 0, 'k': c['k']})
            if offered and rnd.random() < 0.08:
                choices.append({'op': 'accept_error', 'c': 0, 'k': 0})          # the incoming stream yields a fatal accept error
            if not choices:
                break
            st = rnd.choice(choices)
            if st['op'] in ('offer', 'drop', 'release') and rnd.random() < 0.3:
                st['nb'] = True          # no barrier: the next step follows in the same scheduler tick
            steps.append(st)
            if st['op'] == 'offer': offered.add(st['c'])
            if st['op'] == 'drop': dropped.add(st['c'])
            if st['op'] == 'send': sent.add(st['k'])
            if st['op'] == 'release': need[st['k']] -= 1
        rq, wq, pend = rnd.choice([(65536, 65536, 0), (1, 3, 0), (7, 2, 3), (64, 9, 2), (3, 1, 0)])
        out.append({'class': 'biased_schedule', 'calls': calls, 'steps': steps, 'shim': {'rq': rq, 'wq': wq, 'pend': pend}})
    return out


def presend_schedules(rnd, n):
    """A request is already waiting on a connection when the server gets to accept it: the client's half of the pipe exists first
    (offer with hold), the client connects and writes its request, then the server's half is admitted - in the same tick as the
    signal, or a tick before it.  The connection was accepted before the signal, so its request is served."""
    out = []
    for i in range(n):
        items = rnd.choice([0, 0, 2])
        calls = [{'k': 1, 'c': 1, 'items': items}]
        steps = [{'op': 'offer', 'c': 1, 'k': 0, 'hold': True, 'nb': True}, {'op': 'send', 'c': 0, 'k': 1}]
        if i % 3 == 2:      # a second, ordinary connection with a call in flight
            calls.append({'k': 2, 'c': 2, 'items': 1})
            steps += [{'op': 'offer', 'c': 2, 'k': 0}, {'op': 'send', 'c': 0, 'k': 2}]
        steps += [{'op': 'admit', 'c': 1, 'k': 0, 'nb': i % 2 == 0}, {'op': 'fire', 'c': 0, 'k': 0}]
        for c in calls:
            steps += [{'op': 'release', 'c': 0, 'k': c['k']}] * (c['items'] + 1)
        rq, wq, pend = rnd.choice([(65536, 65536, 0), (7, 2, 3), (64, 9, 2)])
        out.append({'class': 'request_waiting_at_accept', 'calls': calls, 'steps': steps, 'shim': {'rq': rq, 'wq': wq, 'pend': pend}})
    return out


def permit_schedules(rnd, n):
    """concurrency_limit_per_connection(1) x graceful shutdown: two or three calls on one connection, so all but the first wait for a
    permit; the signal fires while they wait; handlers are then released in order.  Every one of them had reached the server before
    the signal and is served."""
    out = []
    for i in range(n):
        ncalls = 2 + i % 2
        calls = [{'k': k, 'c': 1, 'items': rnd.choice([0, 0, 1, 2])} for k in range(1, ncalls + 1)]
        steps = [{'op': 'offer', 'c': 1, 'k': 0}] + [{'op': 'send', 'c': 0, 'k': c['k']} for c in calls]
        if i % 4 == 3:      # a second connection that is busy too
            calls.append({'k': 9, 'c': 2, 'items': 1})
            steps += [{'op': 'offer', 'c': 2, 'k': 0}, {'op': 'send', 'c': 0, 'k': 9}]
        steps.append({'op': 'fire', 'c': 0, 'k': 0})
        order = [c for c in calls]
        if i % 5 == 4:
            rnd.shuffle(order)      # gates released out of admission order: a released gate is remembered until its handler runs
        for c in order:
            steps += [{'op': 'release', 'c': 0, 'k': c['k']}] * (c['items'] + 1)
        rq, wq, pend = rnd.choice([(65536, 65536, 0), (7, 2, 3), (64, 9, 2)])
        out.append({'class': 'waiting_for_a_permit', 'calls': calls, 'steps': steps, 'shim': {'rq': rq, 'wq': wq, 'pend': pend}, 'limit': 1})
    return out


def timeout_schedules(rnd, n):
    """Server::timeout x graceful shutdown x streaming calls: the request timeout (300 ms) bounds the handler future only, so a
    response stream that is still being produced long after the signal (wait steps of 1 s) must run to completion."""
    out = []
    for s in biased_schedules(rnd, n * 2):
        if any(st['op'] == 'fire' for st in s['steps']) and len(out) < n:
            for c in s['calls']:
                c['items'] = max(1, c['items'])            # streaming calls only: their handlers answer at once
            steps = []
            for st in s['steps']:
                steps.append(st)
                if st['op'] == 'fire' or (st['op'] == 'release' and rnd.random() < 0.3):
                    steps.append({'op': 'wait', 'c': 0, 'k': 0, 'ms': 1000})
            out.append(dict(s, steps=steps, timeout_ms=300, **{'class': 'timeout_and_shutdown'}))
    return out


def mech_validate(verdict, cov, ev, tag, label):
    """Mechanism-level binding: the runs driven by TLC-exported schedules (fixed topology of MC_Shutdown.cfg), with the hook
    events tonic emitted, must be behaviours of Shutdown.tla itself (Trace_ShutdownMech).  Shortfall = DRIFT."""
    runs = [r for r in core.split_runs(ev) if r[0]['stim'].get('class') == 'tlc_schedule']
    # the binding must be able to reject: the same trace without its conn_closed events / with a moved all_closed is refused
    probes = (('drop_conn_closed', lambda e: [x for x in e if not (x.get('e') == 'hook' and x.get('ev') == 'conn_closed')]),
              ('early_all_closed', _move_all_closed))
    cov['mechanism_trace'] = core.mech_validate(verdict, runs, 'Trace_ShutdownMech', 'Trace_ShutdownMech.cfg', tag, label, 'Shutdown.tla', probes)
    cov['mechanism_drift'] = f'{cov["mechanism_trace"]["runs_rejected"]} runs are not behaviours of the Mechanism model'


def _move_all_closed(ev):
    """Candidates: an all_closed hook event moved to just before a conn_closed of its run that precedes it (whether the
    model notices depends on whether that connection was still open for it: several candidates are tried)."""
    out = []
    # strongest candidates first: all_closed moved to right after the first `accepted` of its run, with that connection's
    # conn_closed still to come - the model cannot have all connections closed there
    for i, x in enumerate(ev):
        if x.get('e') == 'hook' and x.get('ev') == 'all_closed':
            j = i - 1
            first_acc = None
            while j >= 0 and ev[j].get('e') != 'reset':
                if ev[j].get('e') == 'hook' and ev[j].get('ev') == 'accepted':
                    first_acc = j
                j -= 1
            if first_acc is not None and any(e.get('e') == 'hook' and e.get('ev') == 'conn_closed' and e.get('n') == ev[first_acc].get('n') for e in ev[first_acc:i]):
                c = list(ev)
                y = c.pop(i)
                c.insert(first_acc + 1, y)
                out.append(c)
        if len(out) >= 2:
            break
    for i, x in enumerate(ev):
        if x.get('e') == 'hook' and x.get('ev') == 'all_closed':
            j = i - 1
            while j >= 0 and ev[j].get('e') != 'reset':
                if ev[j].get('e') == 'hook' and ev[j].get('ev') == 'conn_closed':
                    c = list(ev)
                    y = c.pop(i)
                    c.insert(j, y)
                    out.append(c)
                    break
                j -= 1
        if len(out) >= 6:
            break
    return out or ev


def check(prop, tier, seed):
    t0 = time.time()
    core.build_harness()
    verdict = core.Verdict(prop)
    cov = {'traces_validated_against_impl': 0, 'samples': []}
    mc = []
    tag = f'{prop}_{tier}'
    r = core.tlc_mc('MC_Shutdown', 'MC_Shutdown.cfg', workers=8)
    if r.get('violated') or (set(r.get('never_taken', [])) - {'Teardown'}):
        raise ToolError(f'MC_Shutdown: {r.get("violated")} {r.get("never_taken")}\n' + r.get('output_tail', '')[-2500:])
    mc.append(r)
    if tier == 'thorough':
        for big in ('MC_Shutdown_big.cfg', 'MC_Shutdown_huge.cfg'):
            r = core.tlc_mc('MC_Shutdown', big, workers=12, timeout=3000, xmx='16g')
            if r.get('violated'):
                raise ToolError(f'{big}: {r.get("violated")}\n' + r.get('output_tail', '')[-2500:])
            mc.append(r)
    # unbounded: TLAPS proof of the safety clauses for any number of connections and calls
    pr = core.tlapm_check('ShutdownProof', ['Shutdown'])
    if not pr['ok']:
        raise ToolError('tlapm: the safety proof of Shutdown.tla (ShutdownProof.tla) no longer goes through:\n' + pr.get('output_tail', ''))
    cov['tlaps_proof'] = {'theorems': 'Spec => [](NoLoss /\\ ResolveLate); Spec => NoAcceptAfter; for all Conns, Calls, ConnOf, Items', 'obligations_proved': pr['obligations'], 'wall_s': pr['wall_s']}
    if tier == 'thorough':
        neg = core.tlapm_check('ShutdownProof', ['Shutdown'], name='ShutdownProof_neg', mutate=lambda t: t.replace('DrainGracefully = TRUE', 'DrainGracefully \\in BOOLEAN'))
        if neg['ok']:
            raise ToolError('tlapm proved the safety theorem without assuming DrainGracefully: the proof is vacuous')
        cov['tlaps_proof']['without_drain_assumption'] = 'proof fails (as it must)'
    mc.append(core.tlc_mc('MC_Shutdown', 'MC_Shutdown_nowait.cfg', workers=4, expect_violation='ResolveLate'))
    mc.append(core.tlc_mc('MC_Shutdown', 'MC_Shutdown_nodrain.cfg', workers=4, expect_violation='NoLoss'))
    n = 3000 if tier == 'thorough' else 500
    rows, st = core.tlc_export('Gen_Shutdown', 'Gen_Shutdown.cfg', workers=1, simulate=f'num={n}', seed=seed, timeout=1200)
    mc.append(st)
    rnd = random.Random(seed)
    seen, stims = set(), []
    for r in rows:
        key = json.dumps(r['steps'])
        if key in seen:
            continue
        seen.add(key)
        rq, wq, pend = rnd.choice([(65536, 65536, 0), (1, 3, 0), (7, 2, 3), (64, 9, 2), (3, 1, 0)])
        stims.append({'class': 'tlc_schedule', 'calls': r['calls'], 'steps': r['steps'], 'shim': {'rq': rq, 'wq': wq, 'pend': pend}})
    if len(stims) < 20:
        raise ToolError('too few schedules exported')
    stims += biased_schedules(rnd, 2000 if tier == 'thorough' else 300)
    stims += timeout_schedules(rnd, 600 if tier == 'thorough' else 100)
    stims += presend_schedules(rnd, 120 if tier == 'thorough' else 24)
    permits = permit_schedules(rnd, 200 if tier == 'thorough' else 40)
    for i, st in enumerate(stims):      # a third of the servers get a tower layer after their builder options (Server::layer must keep them)
        st['layer'] = i % 3 == 1
        if i % 4 == 2:      # a quarter of the servers admit one request per connection at a time (concurrency_limit_per_connection)
            st['limit'] = 1
    stims += permits
    # the address entry point (serve_with_shutdown(addr, ..) on a loopback TCP port, real time): one streaming call in flight at the signal
    stims += [{'class': 'address_entry_point', 'calls': [{'k': 1, 'c': 1, 'items': 1}], 'steps': [], 'shim': {'rq': 65536, 'wq': 65536, 'pend': 0}, 'addr_entry': True}] * 2
    # a run of transient accept errors in which the signal fires; a connection becomes acceptable only after the run
    stims += [{'class': 'signal_inside_an_accept_error_run', 'calls': [], 'steps': [], 'shim': {'rq': 65536, 'wq': 65536, 'pend': 0},
               'storm': {'errors': e, 'fire_at': f}} for e, f in ((400, 1), (400, 3), (1000, 200), (300, 50))]
    ev, path = simple.run_lab('shutdown', stims, tag, 'schedules')
    simple.validate(prop, 'Trace_Shutdown', verdict, ev, path, 'schedules', cov, clause_filter=lambda c: c.startswith('C13.') or c in ('NoPanic', 'NoHang'))
    mech_validate(verdict, cov, ev, tag, 'schedules')
    cov['samples'].append({'family': 'schedules', 'stimulus': simple.sample_of(stims)})
    return simple.finish(prop, tier, seed, verdict, cov, mc, t0,
                         ['stimuli are applied one at a time with a quiescence barrier, i.e. the real runs cover the model behaviours in which the server reacts completely between two environment steps',
                          'the server side of each connection (task started / saw the signal / aged / finished) and of the accept loop is observed through the events of feature verif-hooks',
                          'Mechanism-level trace validation covers the TLC-exported schedules (fixed topologies); the biased random schedules are validated at Contract level only',
                          'virtual time, single-threaded runtime; fragmentation quanta vary per schedule'],
                         'tlc MC_Shutdown*.cfg, Gen_Shutdown.cfg (-simulate); tlapm ShutdownProof.tla; vh shutdown; tlc Trace_Shutdown.cfg; tlc Trace_ShutdownMech.cfg')


def replay(prop, path):
    core.build_harness()
    stims = [r['stim'] for r in core.read_ndjson(path) if r.get('e') == 'reset']
    verdict = core.Verdict(prop)
    cov = {'traces_validated_against_impl': 0, 'samples': []}
    ev, p = simple.run_lab('shutdown', stims, f'{prop}_replay', 'replay')
    simple.validate(prop, 'Trace_Shutdown', verdict, ev, p, 'replay', cov, clause_filter=lambda c: c.startswith('C13.') or c in ('NoPanic', 'NoHang'))
    return verdict.finish()
