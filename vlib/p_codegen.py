"""C11: generated clients and servers agree with each other (Codegen.tla, MC_Codegen table, Trace_Codegen) and the
committed generated sources are fresh (auxiliary byte comparison after `cargo run -p codegen` in a scratch copy)."""
import json, os, random, shutil, subprocess, tempfile, time
from . import core, simple
from .core import ToolError

COMMITTED = [
    ('/repo/tonic-health/src/generated/grpc_health_v1.rs', 'grpc.health.v1', 'Health',
     [('check', 'Check', False, False), ('watch', 'Watch', False, True)]),
    ('/repo/tonic-reflection/src/generated/grpc_reflection_v1.rs', 'grpc.reflection.v1', 'ServerReflection',
     [('server_reflection_info', 'ServerReflectionInfo', True, True)]),
    ('/repo/tonic-reflection/src/generated/grpc_reflection_v1alpha.rs', 'grpc.reflection.v1alpha', 'ServerReflection',
     [('server_reflection_info', 'ServerReflectionInfo', True, True)]),
]


def regenerate():
    """Auxiliary, outside the TLA+ technique: regenerate the committed files in a scratch copy and compare bytes."""
    # a fixed scratch location: codegen bakes env!("CARGO_MANIFEST_DIR") into its binary, and with a random directory cargo
    # sometimes considered the binary built for the previous (deleted) directory fresh, which then looked for the .proto
    # files there ("not in any include path")
    tmp = os.path.join(core.WORK, 'codegen-scratch')
    shutil.rmtree(tmp, ignore_errors=True)
    os.makedirs(tmp)
    try:
        for d in ('codegen', 'tonic-build', 'tonic-health', 'tonic-reflection', 'tonic-types'):
            shutil.copytree(os.path.join('/repo', d), os.path.join(tmp, d), ignore=shutil.ignore_patterns('target'))
        shutil.copy('/repo/Cargo.lock', os.path.join(tmp, 'Cargo.lock'))
        with open(os.path.join(tmp, 'Cargo.toml'), 'w') as f:
            f.write('[workspace]\nmembers = ["codegen", "tonic-build"]\nresolver = "2"\n[workspace.package]\nrust-version = "1.75"\n'
                    '[workspace.lints.rust]\nmissing_docs = "allow"\n[workspace.lints.rustdoc]\nbroken_intra_doc_links = "allow"\n')
        env = dict(os.environ, CARGO_NET_OFFLINE='true', CARGO_TARGET_DIR=os.path.join(core.HARNESS, 'target', 'codegen'))
        for attempt in (1, 2):      # one retry: a transient cargo failure here is a tool problem, not a finding
            p = subprocess.run(['cargo', 'run', '--offline', '-q', '-p', 'codegen'], cwd=tmp, env=env, capture_output=True, text=True, timeout=1500)
            if p.returncode == 0:
                break
            os.makedirs(core.WORK, exist_ok=True)
            with open(os.path.join(core.WORK, f'codegen_regenerate_attempt{attempt}.stderr'), 'w') as f:
                f.write(p.stderr)
            os.utime(os.path.join(tmp, 'codegen', 'src', 'main.rs'))      # force a rebuild of the tool for the retry
            time.sleep(2)
        if p.returncode != 0:
            last = (p.stderr.strip().splitlines() or ['?'])[-1]
            raise ToolError(f'codegen did not run in the scratch copy (rc={p.returncode}, {last[:200]}):\n' + p.stderr[-3000:])
        diffs = []
        n = 0
        for crate in ('tonic-health', 'tonic-reflection', 'tonic-types'):
            gdir = os.path.join(crate, 'src', 'generated')
            for fn in sorted(os.listdir(os.path.join('/repo', gdir))):
                a = open(os.path.join('/repo', gdir, fn), 'rb').read()
                bp = os.path.join(tmp, gdir, fn)
                b = open(bp, 'rb').read() if os.path.exists(bp) else b''
                n += 1
                if a != b:
                    diffs.append(os.path.join(gdir, fn))
        return n, diffs
    finally:
        shutil.rmtree(tmp, ignore_errors=True)


def check(prop, tier, seed):
    t0 = time.time()
    core.build_harness()
    verdict = core.Verdict(prop)
    cov = {'traces_validated_against_impl': 0, 'samples': []}
    mc = []
    tag = f'{prop}_{tier}'
    rows, st = core.tlc_export('MC_Codegen', 'MC_Codegen.cfg', workers=1, timeout=900)
    if st.get('distinct', 0) != len(rows):
        raise ToolError('MC_Codegen: export incomplete / TableOK violated')
    mc.append(st)
    rnd = random.Random(seed)
    rnd.shuffle(rows)
    table = rows if tier == 'thorough' else rows[:1200]
    for i, r in enumerate(table):
        r['class'] = 'tlc_descriptor'
        r['opts']['disable_comments'] = ('', '', 'first', '', 'all')[i % 5]      # comments switched off for one / every rpc
    committed = []
    for path, pkg, svc, meths in COMMITTED:
        committed.append({'class': 'committed_file', 'file': path, 'package': pkg, 'service': {'name': svc, 'proto': svc},
                          'methods': [{'name': a, 'proto': b, 'cs': c, 'ss': d} for a, b, c, d in meths],
                          'opts': {'emit_package': True, 'default_stubs': False, 'arc_self': False, 'client': True, 'server': True}})
    # the same descriptors through tonic_build::manual, where every method names its own codec (two different ones per service)
    manual = []
    for r in table[:300]:
        if not r['methods']:
            continue
        m = json.loads(json.dumps(r))
        m['class'] = 'manual_descriptor'
        m['manual'] = True
        m['service']['name'] = m['service']['proto']      # the manual builder has one name for both
        for i, me in enumerate(m['methods']):
            me['codec'] = 'crate::CodecB' if i % 2 else 'crate::CodecA'
        m['opts']['disable_comments'] = ('first', '', 'all')[len(manual) % 3]
        m['opts']['leave_default'] = len(manual) % 2 == 0      # options that have a documented default are left unset instead of being set to it
        manual.append(m)
    for label, stims in (('descriptors', table), ('manual', manual), ('committed', committed)):
        ev, path = simple.run_lab('codegen', stims, tag, label)
        simple.validate(prop, 'Trace_Codegen', verdict, ev, path, label, cov, clause_filter=lambda c: c.startswith('C11.') or c in ('NoPanic', 'NoHang'))
        cov['samples'].append({'family': label, 'stimulus': simple.sample_of(stims)})
    n, diffs = regenerate()
    cov['regenerated_files_compared'] = n
    cov['regeneration'] = 'byte-identical' if not diffs else 'DIFFERS: ' + ', '.join(diffs)
    for d in diffs:
        verdict.add('regen:' + d, f'committed generated file {d} is not what `cargo run -p codegen` produces', replay_rows=[{'e': 'note', 'file': d}])
    return simple.finish(prop, tier, seed, verdict, cov, mc, t0,
                         ['facts are extracted from the generated token stream with syn (projection); a fixed set of generated services is also compiled into the harness and exercised end to end by C02 / C10',
                          'byte-exact regeneration of the committed files is an auxiliary comparison, not a model-based check (DESIGN.md section 6)'],
                         'tlc MC_Codegen.cfg (31 968 descriptors); vh codegen; tlc Trace_Codegen.cfg; cargo run -p codegen in a scratch copy + byte comparison')


def replay(prop, path):
    core.build_harness()
    stims = [r['stim'] for r in core.read_ndjson(path) if r.get('e') == 'reset']
    verdict = core.Verdict(prop)
    cov = {'traces_validated_against_impl': 0, 'samples': []}
    if stims:
        ev, p = simple.run_lab('codegen', stims, f'{prop}_replay', 'replay')
        simple.validate(prop, 'Trace_Codegen', verdict, ev, p, 'replay', cov, clause_filter=lambda c: c.startswith('C11.') or c in ('NoPanic', 'NoHang'))
    else:
        n, diffs = regenerate()
        for d in diffs:
            verdict.add('regen:' + d, f'{d} differs', replay_rows=[{'e': 'note', 'file': d}])
    return verdict.finish()
