"""Admission control of the server (`concurrency_limit_per_connection`): Admission.tla model checked (with a must-violate deviation),
its behaviours exported with a prediction after every step (Gen_Admission), replayed on the real server in virtual time (lab
`admission`) and validated by Trace_Admission.  Growth beyond the listed properties: only the C09.* clauses (a call that waits for a
permit is still cut off on time and is otherwise unaffected) count for a property; ADM.* failures and prediction mismatches are
reported as NOTE / DRIFT lines by the hosting check (C09)."""
import json
from . import core, simple
from .core import ToolError


def schedules(seed, tier, mc):
    seen, stims = set(), []
    for cfg in ('Gen_Admission.cfg', 'Gen_Admission_l1.cfg'):
        rows, st = core.tlc_export('Gen_Admission', cfg, workers=1, timeout=900, simulate=f'num={400 if tier == "thorough" else 60}', seed=seed % 100000 + 1)
        mc.append(st)
        for r in rows:
            key = json.dumps(r, sort_keys=True)
            if key in seen:
                continue
            seen.add(key)
            stims.append({'class': 'tlc_schedule', 'limit': r['limit'], 'srv': r['srv'], 'srv_timeout_ticks': r['srv'], 'calls': r['calls'], 'steps': r['steps'], 'tick_ms': 100})
    if len(stims) < 20:
        raise ToolError(f'Gen_Admission: only {len(stims)} schedules exported')
    return stims


def add_family(prop, tier, seed, verdict, cov, mc, tag):
    mc.append(core.tlc_mc('MC_Admission', 'MC_Admission_small.cfg', workers=4))
    mc.append(core.tlc_mc('MC_Admission', 'MC_Admission_srvtimer.cfg', workers=4, expect_violation='CutOnTime'))
    if tier == 'thorough':
        mc.append(core.tlc_mc('MC_Admission', 'MC_Admission.cfg', workers=8, timeout=3000))
        mc.append(core.tlc_mc('MC_Admission', 'MC_Admission_l1.cfg', workers=8, timeout=3000))
    stims = schedules(seed, tier, mc)
    ev, path = simple.run_lab('admission', stims, tag, 'admission')
    res = core.tlc_trace('Trace_Admission', path, name=f'{prop}_admission', own=lambda c: c.startswith(prop + '.') or c in ('NoPanic', 'NoHang') or c in simple.HARNESS_CLAUSES)
    hb = [b for b in res['bad'] if set(b['clauses']) & simple.HARNESS_CLAUSES]
    if hb:
        raise ToolError(f'admission: harness clause failed {hb[0]}')
    core.judge_trace(verdict, res, ev, prop_filter=lambda c: c.startswith(prop + '.') or c in ('NoPanic', 'NoHang'), label='admission')
    for b in [b for b in res['bad'] if any(c.startswith('ADM.') for c in b['clauses'])][:5]:
        verdict.notes.append(f'admission: a clause of the Admission model (no listed property) failed: {b}')
    # pattern B: the model's prediction after every step against what was observed
    ndrift = 0
    for run in core.split_runs(ev):
        steps = run[0].get('stim', {}).get('steps', [])
        obs = [e for e in run if e.get('e') == 'obs']
        for st, o in zip(steps, obs):
            want = st['after']
            got = {'running': sorted(o['running']), 'ok': sorted(o['ok']), 'cut': sorted(o['cut'])}
            if any(sorted(want[k]) != got[k] for k in got):
                ndrift += 1
                if len(verdict.drift) < 3:
                    verdict.drift.append(f'Admission predicted {dict((k, want[k]) for k in got)} after step {o["i"]} ({st["op"]} {st["k"]}) but the server showed {got} (run {run[0].get("run")})')
                break
    # corruption probe (the binding is not vacuous): in a copy of the recording, a call that was observed waiting is moved into
    # the running set / a cut-off is reported one tick early; Trace_Admission must reject both
    probe = _probe(ev, tag)
    cov['admission_probe'] = probe
    cov['traces_validated_against_impl'] += res['stats'].get('runs', 0)
    cov['events_validated'] = cov.get('events_validated', 0) + res['total']
    cov.setdefault('trace_stats', {})['admission'] = res['stats']
    cov['admission_drift'] = f'{ndrift} of {len(stims)} schedules differ from the prediction of Admission.tla'
    cov['samples'].append({'family': 'admission', 'stimulus': simple.sample_of(stims)})
    return res


def _probe(ev, tag):
    import copy, os
    out = {}
    for kind in ('over_limit', 'early_cut'):
        rows = []
        done = False
        for run in core.split_runs(ev):
            run = copy.deepcopy(run)
            if not done:
                stim = run[0]['stim']
                sent = set()
                for e in run:
                    if e.get('e') != 'obs':
                        continue
                    if e['op'] == 'send':
                        sent.add(e['k'])
                    waiting = [k for k in sorted(sent) if k not in e['started'] and k not in e['ok'] and k not in e['cut']]
                    if kind == 'over_limit' and waiting:
                        e['running'] = sorted(e['running'] + [waiting[0]]); e['started'] = e['started'] + [waiting[0]]; done = True; break
                    if kind == 'early_cut' and e['op'] == 'send' and stim['calls'][e['k'] - 1]['tmo'] > 0 and e['k'] not in e['ok']:
                        e['cut'] = sorted(set(e['cut']) | {e['k']}); e['running'] = [k for k in e['running'] if k != e['k']]; done = True; break
            rows += run
            if done and len(rows) > 400:
                break
        if not done:
            raise ToolError(f'admission probe {kind}: no recording to corrupt')
        path = os.path.join(core.WORK, tag, f'admission.probe_{kind}.ndjson')
        with open(path, 'w') as f:
            for r in rows:
                f.write(json.dumps(r) + '\n')
        res = core.tlc_trace('Trace_Admission', path, name=f'{tag}_admission_probe_{kind}')
        want = 'ADM.AtMostLimit' if kind == 'over_limit' else 'C09.UnaffectedBeforeDeadline'
        hit = [b for b in res['bad'] if want in b['clauses'] or (kind == 'over_limit' and 'ADM.WorkConserving' in b['clauses'])]
        if not hit:
            raise ToolError(f'admission probe {kind}: the corrupted recording was accepted (bad={res["bad"][:2]})')
        out[kind] = f'rejected ({sorted(hit[0]["clauses"])})'
    return out
