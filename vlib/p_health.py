"""C18: health service. Specs: Health (Mechanism model: channels, versions, watchers; invariants + liveness CatchUp),
Gen_Health (operation sequences), Trace_Health (Contract with subset-construction over the per-epoch status log)."""
import json, os, random, time
from . import core, simple
from .core import ToolError


def random_ops(rnd, n):
    out = []
    for _ in range(n):
        ops, nw = [], 0
        for _ in range(rnd.randint(4, 16)):
            s = rnd.choice(['', 'a', 'a', 'b'])
            k = rnd.random()
            if k < 0.3:
                ops.append({'op': 'set', 's': s, 'v': rnd.randint(0, 2), 'w': 0})
            elif k < 0.4:
                ops.append({'op': 'clear', 's': s, 'v': 0, 'w': 0})
            elif k < 0.55:
                ops.append({'op': 'check', 's': s, 'v': 0, 'w': 0})
            elif k < 0.7 and nw < 3:
                nw += 1
                ops.append({'op': 'watch', 's': s, 'v': 0, 'w': nw})
                if rnd.random() < 0.5:
                    ops.append({'op': 'park', 's': '', 'v': 0, 'w': nw})
            elif nw:
                ops.append({'op': 'next', 's': '', 'v': 0, 'w': rnd.randint(1, nw)})
        for w in range(1, nw + 1):
            ops += [{'op': 'next', 's': '', 'v': 0, 'w': w}] * 2
        out.append({'class': 'random_ops', 'ops': ops})
    return out


def _flip_item(ev):
    for i, x in enumerate(ev):
        if x.get('e') == 'op' and x.get('op') == 'next' and x['res'].get('r') == 'item':
            ev[i] = dict(x, res=dict(x['res'], status=(x['res']['status'] % 2) + 1))
            return ev
    return ev


def _drop_watch(ev):
    """Remove a successful watch whose stream is polled later in the same run."""
    for i, x in enumerate(ev):
        if x.get('e') == 'op' and x.get('op') == 'watch' and x['res'].get('r') == 'subscribed':
            for y in ev[i + 1:]:
                if y.get('e') == 'reset':
                    break
                if y.get('e') == 'op' and y.get('op') == 'next' and y.get('w') == x.get('w') and y['res'].get('r') == 'item':
                    return ev[:i] + ev[i + 1:]
    return ev


def preempt_rounds(rnd, n):
    """Single-threaded rounds in which tokio's cooperative budget preempts an operation at its k-th await (burn = 129 - k)."""
    out = []
    for _ in range(n):
        s = rnd.choice(['a', 'b', 'n'])
        nw, tasks = 0, []
        burn = lambda: rnd.choice([0, 0, 124, 125, 126, 127, 128])
        for _t in range(rnd.randint(2, 4)):
            ops, role = [], rnd.random()
            if role < 0.5:
                for _ in range(rnd.randint(1, 2)):
                    ops.append({'op': 'set', 's': s, 'v': rnd.randint(0, 2), 'w': 0, 'burn': burn()} if rnd.random() < 0.85 else {'op': 'clear', 's': s, 'v': 0, 'w': 0, 'burn': burn()})
            elif role < 0.85:
                nw += 1
                ops.append({'op': 'watch_retry', 's': s, 'v': 3, 'w': nw, 'burn': burn()})
                for _ in range(rnd.randint(1, 2)):
                    ops.append({'op': 'next', 's': '', 'v': 0, 'w': nw, 'burn': burn()})
            else:
                for _ in range(rnd.randint(1, 2)):
                    ops.append({'op': 'check', 's': s, 'v': 0, 'w': 0, 'burn': burn()})
            tasks.append(ops)
        epi = [{'op': 'set', 's': s, 'v': rnd.randint(0, 2), 'w': 0}, {'op': 'check', 's': s, 'v': 0, 'w': 0}]
        for w in range(1, nw + 1):
            epi += [{'op': 'next', 's': '', 'v': 0, 'w': w}] * 2
        out.append({'class': 'preempt', 'tasks': tasks, 'epilogue': epi})
    return out


def conc_rounds(rnd, n):
    """Rounds on the 8-worker runtime: writers / watchers / checkers on one service, all released by a barrier."""
    out = []
    for _ in range(n):
        s = rnd.choice(['a', 'b', 'n'])
        nw, threads = 0, []
        if len(out) % 5 == 4:
            # other services are being written while this one is read: service `a` is registered once and never touched again; three
            # writers hammer services b and n; the readers' Check / Watch of `a` answer with its status, whatever happens next door.
            # (the history is projected onto `a` before the linearizability search)
            threads.append([{'op': 'set', 's': 'a', 'v': 1, 'w': 0}, {'op': 'barrier', 's': '', 'v': 0, 'w': 0}] + [{'op': 'check', 's': 'a', 'v': 0, 'w': 0}] * 10)
            threads.append([{'op': 'barrier', 's': '', 'v': 0, 'w': 0}, {'op': 'watch_retry', 's': 'a', 'v': 1, 'w': 1}, {'op': 'next', 's': '', 'v': 0, 'w': 1}] + [{'op': 'check', 's': 'a', 'v': 0, 'w': 0}] * 6)
            for t in range(3):
                threads.append([{'op': 'barrier', 's': '', 'v': 0, 'w': 0}] + [{'op': 'set', 's': ('b', 'n')[(t + k) % 2], 'v': k % 3, 'w': 0} for k in range(40)])
            out.append({'class': 'conc_other_services_written', 'threads': threads, 'epilogue': [{'op': 'check', 's': 'a', 'v': 0, 'w': 0}], 'project': 'a'})
            continue
        if rnd.random() < 0.5:
            for _t in range(rnd.randint(3, 4)):
                threads.append([{'op': 'set', 's': s, 'v': rnd.randint(0, 2), 'w': 0}])
            for _t in range(rnd.randint(2, 3)):
                nw += 1
                threads.append([{'op': 'watch_retry', 's': s, 'v': 2000, 'w': nw}, {'op': 'next', 's': '', 'v': 0, 'w': nw}])
            rnd.shuffle(threads)
            kind = 'conc_register_race'
        else:
            for _t in range(rnd.randint(2, 5)):
                ops, role = [], rnd.random()
                if role < 0.45:
                    for _ in range(rnd.randint(1, 3)):
                        ops.append({'op': 'set', 's': s, 'v': rnd.randint(0, 2), 'w': 0} if rnd.random() < 0.85 else {'op': 'clear', 's': s, 'v': 0, 'w': 0})
                elif role < 0.85:
                    nw += 1
                    ops.append({'op': 'watch_retry', 's': s, 'v': rnd.choice([1, 20, 200]), 'w': nw})
                    for _ in range(rnd.randint(1, 3)):
                        ops.append({'op': 'next', 's': '', 'v': 0, 'w': nw})
                else:
                    for _ in range(rnd.randint(1, 3)):
                        ops.append({'op': 'check', 's': s, 'v': 0, 'w': 0})
                threads.append(ops)
            kind = 'conc_mixed'
        epi = [{'op': 'set', 's': s, 'v': rnd.randint(0, 2), 'w': 0}, {'op': 'check', 's': s, 'v': 0, 'w': 0}]
        for w in range(1, nw + 1):
            epi += [{'op': 'next', 's': '', 'v': 0, 'w': w}] * 2
        out.append({'class': kind, 'threads': threads, 'epilogue': epi})
    return out


LIN_CLAUSE = 'C18.HistoryIsAnInterleavingOfAtomicOperations'


def _project(run):
    """rounds with stim.project = <service>: keep the calls (and their returns) on that service and on its watchers only"""
    svc = run[0].get('stim', {}).get('project') if run else None
    if not svc:
        return run
    out, open_call = [], {}
    for e in run:
        if e.get('e') == 'call':
            keep = e.get('sn') == svc or e.get('op') == 'next'
            open_call[e.get('t')] = keep
            if keep:
                out.append(e)
        elif e.get('e') == 'ret':
            if open_call.get(e.get('t'), True):
                out.append(e)
        else:
            out.append(e)
    return out


def concurrent_part(verdict, cov, tag, tier, seed):
    """Concurrent writers / watchers: call-ret histories from (a) deterministic preemption rounds and (b) the multi-threaded
    runtime must be linearizable against Health.tla (Trace_HealthLin)."""
    rnd = random.Random(seed + 18)
    fam = (('preempt', preempt_rounds(rnd, 12000 if tier == 'thorough' else 1500)),
           ('conc', conc_rounds(rnd, 3000 if tier == 'thorough' else 300)))
    cov['linearizability'] = {}
    for label, stims in fam:
        ev, path = simple.run_lab('health', stims, tag, label, timeout=3000)
        runs = core.split_runs(ev)
        for r in runs:
            end = [e for e in r if e.get('e') == 'end']
            if end and end[0].get('outcome') != 'ok':
                verdict.add(f'{label}:{"NoPanic" if end[0]["outcome"] == "panic" else "NoHang"}:{r[0]["stim"].get("class")}',
                            f'run {r[0].get("run")} ended with {end[0]}', replay_rows=r)
        good = [_project(r) for r in runs if not any(e.get('e') == 'end' and e.get('outcome') != 'ok' for e in r)]
        st = core.lin_validate(verdict, good, 'Trace_HealthLin', 'Trace_HealthLin.cfg', tag, label, LIN_CLAUSE)
        st['preempted_ops'] = sum(1 for s in stims for t in s.get('tasks', []) for o in t if o.get('burn', 0) >= 124)
        st['stream_ends_observed'] = sum(1 for e in ev if e.get('e') == 'ret' and e['res'].get('r') == 'end')
        cov['linearizability'][label] = st
        cov['traces_validated_against_impl'] += len(good)
        cov['samples'].append({'family': label, 'stimulus': simple.sample_of(stims)})
    # the search must be able to reject: swap the results of two different-valued checks/items in a sequential epilogue
    probe = None
    for r in core.split_runs(core.read_ndjson(os.path.join(core.WORK, tag, 'preempt.trace.ndjson'))):
        j = [i for i, e in enumerate(r) if e.get('e') == 'joined']
        if not j:
            continue
        items = [i for i in range(j[0], len(r)) if r[i].get('e') == 'ret' and r[i]['res'].get('r') == 'status']
        if items:
            rr = list(r)
            rr[items[0]] = dict(rr[items[0]], res=dict(rr[items[0]]['res'], status=(rr[items[0]]['res']['status'] + 1) % 3))
            probe = rr
            break
    if probe is None:
        raise ToolError('no history suitable for the linearizability corruption probe')
    pv = core.Verdict(prop := verdict.prop)
    core.lin_validate(pv, [probe], 'Trace_HealthLin', 'Trace_HealthLin.cfg', tag, 'probe', LIN_CLAUSE)
    if not pv.violations:
        raise ToolError('Trace_HealthLin accepted a history whose final check result was altered: the linearizability check is vacuous')
    cov['linearizability']['corruption_probe'] = 'altered final check result rejected'


def check(prop, tier, seed):
    t0 = time.time()
    core.build_harness()
    verdict = core.Verdict(prop)
    cov = {'traces_validated_against_impl': 0, 'samples': []}
    mc = []
    tag = f'{prop}_{tier}'
    r = core.tlc_mc('Health', 'MC_Health.cfg', workers=8, timeout=1500)
    if r.get('violated') or r.get('never_taken'):
        raise ToolError(f'Health: {r.get("violated")} {r.get("never_taken")}\n' + r.get('output_tail', '')[-2500:])
    mc.append(r)
    mc.append(core.tlc_mc('Health', 'MC_Health_replace.cfg', workers=4, expect_violation='EndsOnlyAfterClear'))
    # unbounded: TLAPS proof of the two safety clauses for any services, statuses and bounds
    pr = core.tlapm_check('HealthProof', ['Health'])
    if not pr['ok']:
        raise ToolError('tlapm: the safety proof of Health.tla (HealthProof.tla) no longer goes through:\n' + pr.get('output_tail', ''))
    cov['tlaps_proof'] = {'theorem': 'Spec => [](OnlySetValues /\\ EndsOnlyAfterClear) for all Svcs, Stats, MaxOps, MaxW', 'obligations_proved': pr['obligations'], 'wall_s': pr['wall_s']}
    if tier == 'thorough':
        neg = core.tlapm_check('HealthProof', ['Health'], name='HealthProof_neg', mutate=lambda t: t.replace('SendOnExisting = TRUE', 'SendOnExisting \\in BOOLEAN'))
        if neg['ok']:
            raise ToolError('tlapm proved the safety theorem without assuming SendOnExisting: the proof is vacuous')
        cov['tlaps_proof']['without_send_on_existing'] = 'proof fails (as it must)'
    n = 4000 if tier == 'thorough' else 600
    rows, st = core.tlc_export('Gen_Health', 'Gen_Health.cfg', workers=1, simulate=f'num={n}', seed=seed, timeout=1200)
    mc.append(st)
    seen, stims = set(), []
    for row in rows:
        k = json.dumps(row['ops'])
        if k in seen:
            continue
        seen.add(k)
        ops = [{'op': o['op'], 's': '' if o['s'] == '-' else o['s'], 'v': 0 if o['v'] == '-' else int(o['v']), 'w': o['w']} for o in row['ops']]
        nw = max([o['w'] for o in ops] + [0])
        for w in range(1, nw + 1):
            ops += [{'op': 'next', 's': '', 'v': 0, 'w': w}] * 2
        stims.append({'class': 'tlc_ops', 'ops': ops})
    if len(stims) < 20:
        raise ToolError('too few operation sequences exported')
    stims += random_ops(random.Random(seed), 3000 if tier == 'thorough' else 500)
    ev, path = simple.run_lab('health', stims, tag, 'ops')
    simple.validate(prop, 'Trace_Health', verdict, ev, path, 'ops', cov, clause_filter=lambda c: c.startswith('C18.') or c in ('NoPanic', 'NoHang'))
    # Mechanism-level binding: every recorded operation with its result is the corresponding action of Health.tla
    runs = [r for r in core.split_runs(ev) if not any(e.get('e') == 'end' and e.get('outcome') != 'ok' for e in r)]
    cov['mechanism_trace'] = core.mech_validate(verdict, runs, 'Trace_HealthMech', 'Trace_HealthMech.cfg', tag, 'ops', 'Health.tla',
                                                (('flip_item', _flip_item), ('drop_watch', _drop_watch)))
    cov['mechanism_drift'] = f'{cov["mechanism_trace"]["runs_rejected"]} runs are not behaviours of the Mechanism model'
    cov['samples'].append({'family': 'ops', 'stimulus': simple.sample_of(stims)})
    concurrent_part(verdict, cov, tag, tier, seed)
    return simple.finish(prop, tier, seed, verdict, cov, mc, t0,
                         ['sequential families: operations are applied at quiescent points of a single-threaded runtime',
                          'concurrent families: (a) preemption rounds - tokio\'s cooperative budget forces a yield at a chosen await inside an operation, deterministic; (b) rounds on an 8-worker runtime - which interleavings occur there is up to the machine',
                          'a Watch response stream is a pull pipeline that may fetch several items ahead of the caller (EncodeBody batching): Trace_HealthLin models it as a queue filled while a next call is in progress',
                          'the first item of a watch stream may be the status current at subscription or any newer one (the stream reads at first poll)'],
                         'tlc MC_Health*.cfg, Gen_Health.cfg (-simulate); tlapm HealthProof.tla; vh health; tlc Trace_Health.cfg; tlc Trace_HealthMech.cfg; tlc Trace_HealthLin.cfg')


def replay(prop, path):
    core.build_harness()
    rows = core.read_ndjson(path)
    runs = core.split_runs(rows)
    verdict = core.Verdict(prop)
    cov = {'traces_validated_against_impl': 0, 'samples': []}
    seq = [r for r in runs if 'ops' in r[0].get('stim', {})]
    hist = [r for r in runs if 'ops' not in r[0].get('stim', {})]
    if seq:
        ev, p = simple.run_lab('health', [r[0]['stim'] for r in seq], f'{prop}_replay', 'replay')
        simple.validate(prop, 'Trace_Health', verdict, ev, p, 'replay', cov, clause_filter=lambda c: c.startswith('C18.') or c in ('NoPanic', 'NoHang'))
    if hist:
        # deterministic (preemption) rounds are re-run as they are; multi-threaded rounds are re-run 300 times each (which
        # interleaving occurs is up to the machine); the recorded history itself is re-validated and reported as a note
        note = core.Verdict(prop)
        core.lin_validate(note, hist, 'Trace_HealthLin', 'Trace_HealthLin.cfg', f'{prop}_replay', 'recorded', LIN_CLAUSE)
        print(f'NOTE property={prop} recorded histories in the replay file: {len(hist)}, of which not linearizable: {len(note.violations)}')
        stims = []
        for r in hist:
            st = r[0]['stim']
            stims += [st] * (1 if st.get('class') == 'preempt' else 300)
        ev, p = simple.run_lab('health', stims, f'{prop}_replay', 'rerun', timeout=3000)
        core.lin_validate(verdict, core.split_runs(ev), 'Trace_HealthLin', 'Trace_HealthLin.cfg', f'{prop}_replay', 'rerun', LIN_CLAUSE)
    return verdict.finish()
