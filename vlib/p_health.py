"""C18: health service. Specs: Health (Mechanism model: channels, versions, watchers; invariants + liveness CatchUp),
Gen_Health (operation sequences), Trace_Health (Contract with subset-construction over the per-epoch status log)."""
import json, random, time
from . import core, simple
from .core import ToolError


def random_ops(rnd, n):
    out = []
    for _ in range(n):
        ops, nw = [], 0
        for _ in range(rnd.randint(4, 16)):
            s = rnd.choice(['', 'a', 'a', 'b'])
            k = rnd.random()
            if k < 0.3:
                ops.append({'op': 'set', 's': s, 'v': rnd.randint(0, 2), 'w': 0})
            elif k < 0.4:
                ops.append({'op': 'clear', 's': s, 'v': 0, 'w': 0})
            elif k < 0.55:
                ops.append({'op': 'check', 's': s, 'v': 0, 'w': 0})
            elif k < 0.7 and nw < 3:
                nw += 1
                ops.append({'op': 'watch', 's': s, 'v': 0, 'w': nw})
                if rnd.random() < 0.5:
                    ops.append({'op': 'park', 's': '', 'v': 0, 'w': nw})
            elif nw:
                ops.append({'op': 'next', 's': '', 'v': 0, 'w': rnd.randint(1, nw)})
        for w in range(1, nw + 1):
            ops += [{'op': 'next', 's': '', 'v': 0, 'w': w}] * 2
        out.append({'class': 'random_ops', 'ops': ops})
    return out


def _flip_item(ev):
    for i, x in enumerate(ev):
        if x.get('e') == 'op' and x.get('op') == 'next' and x['res'].get('r') == 'item':
            ev[i] = dict(x, res=dict(x['res'], status=(x['res']['status'] % 2) + 1))
            return ev
    return ev


def _drop_watch(ev):
    """Remove a successful watch whose stream is polled later in the same run."""
    for i, x in enumerate(ev):
        if x.get('e') == 'op' and x.get('op') == 'watch' and x['res'].get('r') == 'subscribed':
            for y in ev[i + 1:]:
                if y.get('e') == 'reset':
                    break
                if y.get('e') == 'op' and y.get('op') == 'next' and y.get('w') == x.get('w') and y['res'].get('r') == 'item':
                    return ev[:i] + ev[i + 1:]
    return ev


def check(prop, tier, seed):
    t0 = time.time()
    core.build_harness()
    verdict = core.Verdict(prop)
    cov = {'traces_validated_against_impl': 0, 'samples': []}
    mc = []
    tag = f'{prop}_{tier}'
    r = core.tlc_mc('Health', 'MC_Health.cfg', workers=8, timeout=1500)
    if r.get('violated') or r.get('never_taken'):
        raise ToolError(f'Health: {r.get("violated")} {r.get("never_taken")}\n' + r.get('output_tail', '')[-2500:])
    mc.append(r)
    mc.append(core.tlc_mc('Health', 'MC_Health_replace.cfg', workers=4, expect_violation='EndsOnlyAfterClear'))
    n = 4000 if tier == 'thorough' else 600
    rows, st = core.tlc_export('Gen_Health', 'Gen_Health.cfg', workers=1, simulate=f'num={n}', seed=seed, timeout=1200)
    mc.append(st)
    seen, stims = set(), []
    for row in rows:
        k = json.dumps(row['ops'])
        if k in seen:
            continue
        seen.add(k)
        ops = [{'op': o['op'], 's': '' if o['s'] == '-' else o['s'], 'v': 0 if o['v'] == '-' else int(o['v']), 'w': o['w']} for o in row['ops']]
        nw = max([o['w'] for o in ops] + [0])
        for w in range(1, nw + 1):
            ops += [{'op': 'next', 's': '', 'v': 0, 'w': w}] * 2
        stims.append({'class': 'tlc_ops', 'ops': ops})
    if len(stims) < 20:
        raise ToolError('too few operation sequences exported')
    stims += random_ops(random.Random(seed), 3000 if tier == 'thorough' else 500)
    ev, path = simple.run_lab('health', stims, tag, 'ops')
    simple.validate(prop, 'Trace_Health', verdict, ev, path, 'ops', cov, clause_filter=lambda c: c.startswith('C18.') or c in ('NoPanic', 'NoHang'))
    # Mechanism-level binding: every recorded operation with its result is the corresponding action of Health.tla
    runs = [r for r in core.split_runs(ev) if not any(e.get('e') == 'end' and e.get('outcome') != 'ok' for e in r)]
    cov['mechanism_trace'] = core.mech_validate(verdict, runs, 'Trace_HealthMech', 'Trace_HealthMech.cfg', tag, 'ops', 'Health.tla',
                                                (('flip_item', _flip_item), ('drop_watch', _drop_watch)))
    cov['mechanism_drift'] = f'{cov["mechanism_trace"]["runs_rejected"]} runs are not behaviours of the Mechanism model'
    cov['samples'].append({'family': 'ops', 'stimulus': simple.sample_of(stims)})
    return simple.finish(prop, tier, seed, verdict, cov, mc, t0,
                         ['operations are applied at quiescent points of a single-threaded runtime (the multi-threaded driver of the design is not built)',
                          'the first item of a watch stream may be the status current at subscription or any newer one (the stream reads at first poll)'],
                         'tlc MC_Health*.cfg, Gen_Health.cfg (-simulate); vh health; tlc Trace_Health.cfg; tlc Trace_HealthMech.cfg')


def replay(prop, path):
    core.build_harness()
    stims = [r['stim'] for r in core.read_ndjson(path) if r.get('e') == 'reset']
    verdict = core.Verdict(prop)
    cov = {'traces_validated_against_impl': 0, 'samples': []}
    ev, p = simple.run_lab('health', stims, f'{prop}_replay', 'replay')
    simple.validate(prop, 'Trace_Health', verdict, ev, p, 'replay', cov, clause_filter=lambda c: c.startswith('C18.') or c in ('NoPanic', 'NoHang'))
    return verdict.finish()
