"""Shared machinery for /verif/bin/check: harness build, TLC runs (model checking, export, trace
validation), known-findings matching, evidence writing.

Exit codes of a check: 0 = property held on everything explored (KNOWN-FINDING / DRIFT lines allowed),
1 = VIOLATION (printed with a replay file), 2 = tool error / timeout / vacuity / harness failure.
"""
import json, os, re, subprocess, sys, time, shutil, hashlib

VERIF = os.path.dirname(os.path.dirname(os.path.abspath(__file__)))
SPEC = os.path.join(VERIF, 'spec')
HARNESS = os.path.join(VERIF, 'harness')
WORK = os.path.join(VERIF, 'work')
EVID = os.path.join(VERIF, 'evidence')
REPLAY = os.path.join(EVID, 'replay')
VH = os.path.join(HARNESS, 'target', 'debug', 'vh')
JAVA_CP = '/opt/veriftools/tla/tla2tools.jar:/opt/veriftools/tla/CommunityModules-deps.jar'


class ToolError(Exception):
    pass


def log(*a):
    print(*a, file=sys.stderr, flush=True)


def ensure_dirs():
    for d in (WORK, EVID, REPLAY):
        os.makedirs(d, exist_ok=True)


_built = False


def build_harness():
    """Rebuild the harness (and therefore tonic, from /repo's current working tree, hooks on)."""
    global _built
    if _built:
        return
    ensure_dirs()
    lock = os.path.join(HARNESS, 'Cargo.lock')
    if not os.path.exists(lock):
        shutil.copy('/repo/Cargo.lock', lock)
    t0 = time.time()
    env = dict(os.environ, CARGO_NET_OFFLINE='true')
    p = subprocess.run(['cargo', 'build', '--offline', '-q'], cwd=HARNESS, env=env, capture_output=True, text=True)
    if p.returncode != 0:
        sys.stderr.write(p.stdout[-4000:] + p.stderr[-8000:])
        raise ToolError('harness build failed (does /repo still compile with feature verif-hooks?)')
    log(f'[build] harness ok in {time.time()-t0:.1f}s')
    _built = True


def vh(lab, mode, *args, timeout=1800, env=None):
    build_harness()
    e = dict(os.environ)
    if env:
        e.update(env)
    p = subprocess.run([VH, lab, mode, *map(str, args)], capture_output=True, text=True, timeout=timeout, env=e)
    if p.returncode != 0:
        sys.stderr.write(p.stderr[-4000:])
        raise ToolError(f'vh {lab} {mode} exited {p.returncode}')
    return p


def workdir(name):
    d = os.path.join(WORK, name)
    if os.path.isdir(d):
        shutil.rmtree(d, ignore_errors=True)
    os.makedirs(d, exist_ok=True)
    return d


def read_ndjson(path):
    out = []
    with open(path) as f:
        for line in f:
            line = line.strip()
            if line:
                out.append(json.loads(line))
    return out


def write_ndjson(path, rows):
    with open(path, 'w') as f:
        for r in rows:
            f.write(json.dumps(r, separators=(',', ':')) + '\n')


# ----------------------------------------------------------------------------- TLC
def _tlc(args, cwd, env_extra=None, timeout=1800, xmx='6g', xss='1g', deque=False):
    env = dict(os.environ)
    jto = f'-Xss{xss}'
    if deque:
        jto += ' -Dtlc2.tool.queue.IStateQueue=StateDeque'
    env['JAVA_TOOL_OPTIONS'] = jto
    if env_extra:
        env.update(env_extra)
    if 'SKIPFILE' not in env:      # TraceKit reads it unconditionally: by default an empty list of clauses to skip
        ensure_dirs()
        empty = os.path.join(WORK, 'empty.skip.ndjson')
        if not os.path.exists(empty):
            open(empty, 'w').close()
        env['SKIPFILE'] = empty
    cmd = ['java', '-XX:+UseParallelGC', f'-Xmx{xmx}', '-cp', JAVA_CP, 'tlc2.TLC'] + args
    t0 = time.time()
    try:
        p = subprocess.run(cmd, cwd=cwd, env=env, capture_output=True, text=True, timeout=timeout)
    except subprocess.TimeoutExpired:
        raise ToolError(f'TLC timed out after {timeout}s: {" ".join(args)}')
    return p.returncode, p.stdout + p.stderr, time.time() - t0


_RE_STATES = re.compile(r'(\d+) states generated, (\d+) distinct states found, (\d+) states left on queue')
_RE_DEPTH = re.compile(r'The depth of the complete state graph search is (\d+)')
_RE_COV = re.compile(r'^<(\w+) line (\d+), col \d+ to line \d+, col \d+ of module (\w+)(?: \([^)]*\))?>: (\d+):(\d+)', re.M)


def tlc_mc(module, cfg, workers=8, timeout=1800, expect_violation=None, name=None, coverage=True, xmx='8g', extra=None, check_actions=True):
    """Model-check spec/<module>.tla with spec/<cfg>. Returns stats dict.
    expect_violation: name of an invariant/property expected to be violated (regression of a named deviation):
    then the run must FAIL with that name, else ToolError (anti-vacuity)."""
    name = name or cfg.replace('.cfg', '')
    meta = workdir('mc_' + name)
    args = ['-workers', str(workers), '-metadir', meta, '-noGenerateSpecTE', '-config', cfg]
    if coverage:
        args += ['-coverage', '1']
    if extra:
        args += extra
    args.append(module + '.tla')
    rc, out, wall = _tlc(args, SPEC, timeout=timeout, xmx=xmx)
    shutil.rmtree(meta, ignore_errors=True)
    st = {'module': module, 'cfg': cfg, 'wall_s': round(wall, 1), 'rc': rc}
    m = _RE_STATES.findall(out)
    if m:
        g, d, q = m[-1]
        st.update(generated=int(g), distinct=int(d), queue=int(q))
    m = _RE_DEPTH.search(out)
    if m:
        st['depth'] = int(m.group(1))
    cov = {}
    for a, line, mod, c1, c2 in _RE_COV.findall(out):
        cov[a] = max(cov.get(a, 0), int(c2))       # times taken (c1 counts only the successors that were new)
    st['actions'] = cov
    viol = None
    mi = re.search(r'Invariant (\w+) is violated', out)
    if mi:
        viol = mi.group(1)
    mp = re.search(r'(?:Action property|Temporal properties were violated|property) ?(\w+)? (?:is|was) violated', out)
    if viol is None and ('is violated' in out or 'was violated' in out or 'Temporal properties were violated' in out):
        m2 = re.search(r'Action property (\w+) is violated', out)
        viol = m2.group(1) if m2 else 'TemporalProperty'
    st['violated'] = viol
    if expect_violation:
        if viol is None:
            raise ToolError(f'{name}: the deviation model was expected to violate {expect_violation} but TLC found nothing (vacuous spec?)\n' + out[-1500:])
        st['expected_violation_found'] = viol
        return st
    if viol is not None:
        st['output_tail'] = out[-6000:]
        return st
    if 'Model checking completed. No error has been found' not in out and 'Finished in' not in out:
        raise ToolError(f'{name}: TLC did not complete:\n' + out[-3000:])
    if rc != 0:
        raise ToolError(f'{name}: TLC exit {rc}:\n' + out[-3000:])
    if check_actions:
        dead = [a for a, c in cov.items() if c == 0 and a not in ('Init',)]
        st['never_taken'] = dead
    return st


def tlc_export(module, cfg, tag='SCRIPT', workers=1, timeout=900, name=None, simulate=None, seed=None):
    """Run TLC and collect the JSON payloads of lines  <<"TAG", "json">>  printed from the spec."""
    name = name or cfg.replace('.cfg', '')
    meta = workdir('gen_' + name)
    args = ['-workers', str(workers), '-metadir', meta, '-noGenerateSpecTE', '-config', cfg]
    if simulate:
        args += ['-simulate', simulate]
    if seed is not None:
        args += ['-seed', str(seed)]
    args.append(module + '.tla')
    rc, out, wall = _tlc(args, SPEC, timeout=timeout)
    shutil.rmtree(meta, ignore_errors=True)
    rows = []
    for line in out.splitlines():
        if line.startswith('<<"' + tag + '"'):
            m = re.match(r'<<"' + tag + r'", (".*")>>$', line)
            if m:
                rows.append(json.loads(_tla_unquote(m.group(1))))
    if not rows and 'Error' in out:
        raise ToolError(f'{name}: export failed:\n' + out[-3000:])
    st = {'module': module, 'cfg': cfg, 'wall_s': round(wall, 1), 'rows': len(rows)}
    m = _RE_STATES.findall(out)
    if m:
        g, d, q = m[-1]
        st.update(generated=int(g), distinct=int(d))
    return rows, st


def _tla_unquote(s):
    # TLC prints strings with \" and \\ escapes
    return json.loads(s)


def tlc_trace(module, trace_path, timeout=1800, name=None, xmx='6g', deque=True, cfg=None, own=None, skip=()):
    """Validate an ndjson trace with spec/<module>.tla (cfg defaults to <module>.cfg).
    Returns dict(consumed,total,bad,stats). ToolError if TLC does not produce a TRACE_RESULT.
    own: predicate over clause names - the clauses the calling check reports or treats as harness clauses.  A run ended by
    clauses outside `own` only (a sibling property's) has not been judged to its end for the caller: validation is repeated
    with those clauses skipped (at most three times), so that each property's check decides its own clauses on every run."""
    name = name or module
    res = _tlc_trace_once(module, trace_path, timeout, name, xmx, deque, cfg, skip)
    if own is not None:
        skipped = set(skip)
        for _ in range(3):
            foreign = set()
            for b in res.get('bad', []):
                if not any(own(c) for c in b.get('clauses', [])):
                    foreign |= set(b.get('clauses', []))
            foreign -= skipped
            if not foreign:
                break
            skipped |= foreign
            res = _tlc_trace_once(module, trace_path, timeout, name, xmx, deque, cfg, sorted(skipped))
        res['skipped_sibling_clauses'] = sorted(skipped)
    return res


def _tlc_trace_once(module, trace_path, timeout, name, xmx, deque, cfg, skip):
    meta = workdir('tv_' + name)
    skipfile = os.path.join(workdir('skip_' + name), 'skip.ndjson')
    with open(skipfile, 'w') as f:
        for c in skip:
            f.write(json.dumps({'c': c}) + '\n')
    args = ['-workers', '1', '-metadir', meta, '-noGenerateSpecTE', '-config', cfg or (module + '.cfg'), module + '.tla']
    rc, out, wall = _tlc(args, SPEC, env_extra={'TRACE': trace_path, 'SKIPFILE': skipfile}, timeout=timeout, xmx=xmx, deque=deque)
    shutil.rmtree(meta, ignore_errors=True)
    res = None
    for line in out.splitlines():
        if line.startswith('<<"TRACE_RESULT"'):
            m = re.match(r'<<"TRACE_RESULT", (".*")>>$', line)
            if m:
                res = json.loads(_tla_unquote(m.group(1)))
    if res is None:
        raise ToolError(f'{name}: trace validation produced no result:\n' + out[-4000:])
    res['wall_s'] = round(wall, 1)
    m = _RE_STATES.findall(out)
    if m:
        res['tlc_states'] = int(m[-1][1])
    if res.get('consumed') != res.get('total'):
        raise ToolError(f'{name}: trace spec stopped at event {res.get("consumed")} of {res.get("total")} (spec is not total):\n' + out[-2000:])
    return res


def tlapm_check(main, deps, name=None, timeout=1500, mutate=None, threads=6):
    """Run the TLA+ proof system on spec/<main>.tla in a scratch copy (no fingerprint cache).  mutate: optional function
    text -> text applied to the main module (anti-vacuity: the mutated proof must FAIL).  Returns dict(ok, obligations, wall_s)."""
    name = name or main
    wd = workdir('tlaps_' + name)
    shutil.rmtree(wd, ignore_errors=True)
    os.makedirs(wd)
    for d in deps:
        shutil.copy(os.path.join(SPEC, d + '.tla'), wd)
    txt = open(os.path.join(SPEC, main + '.tla')).read()
    if mutate:
        txt = mutate(txt)
    open(os.path.join(wd, main + '.tla'), 'w').write(txt)
    t0 = time.time()
    try:
        p = subprocess.run(['tlapm', '--threads', str(threads), '--cleanfp', main + '.tla'], cwd=wd, capture_output=True, text=True, timeout=timeout)
    except subprocess.TimeoutExpired:
        raise ToolError(f'tlapm {name}: timeout after {timeout}s')
    out = p.stdout + p.stderr
    m = re.search(r'All (\d+) obligations? proved', out)
    res = {'tool': 'tlapm', 'module': main, 'ok': bool(m) and p.returncode == 0, 'obligations': int(m.group(1)) if m else 0,
           'wall_s': round(time.time() - t0, 1), 'mutated': bool(mutate)}
    if not res['ok']:
        res['output_tail'] = out[-1500:]
    shutil.rmtree(wd, ignore_errors=True)
    return res


def tlc_mech_trace(module, trace_path, timeout=1800, name=None, xmx='6g', cfg=None):
    """Mechanism-level trace validation: the trace spec re-uses the model's own actions (plus bounded silent steps), so
    acceptance is 'some behaviour of the model matches every event'.  Returns dict(matched,total,next,wall_s,tlc_states,
    invariant_violated).  A shortfall is not an error here: the caller reports it as DRIFT."""
    name = name or module
    meta = workdir('tv_' + name)
    args = ['-workers', '1', '-metadir', meta, '-noGenerateSpecTE', '-config', cfg or (module + '.cfg'), module + '.tla']
    rc, out, wall = _tlc(args, SPEC, env_extra={'TRACE': trace_path}, timeout=timeout, xmx=xmx, deque=True)
    shutil.rmtree(meta, ignore_errors=True)
    res = None
    for line in out.splitlines():
        if line.startswith('<<"MECH_RESULT"'):
            m = re.match(r'<<"MECH_RESULT", (".*")>>$', line)
            if m:
                res = json.loads(_tla_unquote(m.group(1)))
    inv = re.search(r'Invariant (\w+) is violated', out)
    if res is None and not inv:
        raise ToolError(f'{name}: mechanism trace validation produced no result:\n' + out[-4000:])
    res = res or {'matched': -1, 'total': -1, 'next': {}}
    res['invariant_violated'] = inv.group(1) if inv else None
    res['wall_s'] = round(wall, 1)
    m = _RE_STATES.findall(out)
    if m:
        res['tlc_states'] = int(m[-1][1])
    return res


def mech_validate(verdict, runs, module, cfg, tag, label, model_name, probes=()):
    """Validate recorded runs (lists of events, each starting with its reset event) against a Mechanism-level trace spec.
    A run the model cannot follow is reported as DRIFT and removed, so the rest is still validated (at most 5 rounds).
    probes: (name, mutation) pairs - the mutated trace must be rejected, otherwise the binding is vacuous (ToolError)."""
    flat = [e for r in runs for e in r]
    path = os.path.join(WORK, tag, f'{label}.mech.ndjson')
    os.makedirs(os.path.dirname(path), exist_ok=True)
    if not flat:
        return {'runs': 0, 'events': 0, 'matched': 0, 'runs_rejected': 0, 'corruption_probes': {}}
    write_ndjson(path, flat)
    res = tlc_mech_trace(module, path, name=f'{tag}_{label}_mech', cfg=cfg)
    drift = 0
    while (res['matched'] != res['total'] or res['invariant_violated']) and drift < 5:
        drift += 1
        i = min(max(res['matched'], 0), len(flat) - 1)
        start = max(k for k in range(i + 1) if flat[k].get('e') == 'reset')
        verdict.drift.append(f'{model_name} cannot follow run {flat[start].get("run")} at its event {i - start + 1}: {json.dumps(flat[i])[:200]}'
                             + (f' (model invariant {res["invariant_violated"]})' if res['invariant_violated'] else ''))
        nxt = [k for k in range(start + 1, len(flat)) if flat[k].get('e') == 'reset']
        flat = flat[:start] + (flat[nxt[0]:] if nxt else [])
        if not flat:
            break
        write_ndjson(path, flat)
        res = tlc_mech_trace(module, path, name=f'{tag}_{label}_mech', cfg=cfg)
    pr = {}
    for pname, mut in probes:
        # a probe yields one corrupted copy, or several candidates (a corruption is not always observable: e.g. moving an
        # event past another one that happens to be a no-op for the model); the binding is shown non-vacuous as soon as one
        # candidate is rejected
        cands = mut(list(flat))
        if not (isinstance(cands, list) and cands and isinstance(cands[0], list)):
            cands = [cands]
        cands = [c for c in cands if c != flat][:4]
        if not cands:
            pr[pname] = 'not applicable'
            continue
        verdicts = []
        for ci, mutated in enumerate(cands):
            pp = os.path.join(WORK, tag, f'{label}.mech.{pname}{ci}.ndjson')
            write_ndjson(pp, mutated)
            r2 = tlc_mech_trace(module, pp, name=f'{tag}_{label}_{pname}{ci}', cfg=cfg)
            rejected = not (r2['matched'] == r2['total'] and not r2['invariant_violated'])
            verdicts.append(rejected)
            if rejected:
                pr[pname] = f'rejected at event {r2["matched"] + 1} of {r2["total"]}' + (f' (candidate {ci + 1})' if ci else '')
                break
        if not any(verdicts):
            raise ToolError(f'{module}: accepted every corrupted trace of probe {pname} ({len(cands)} candidates): the binding is vacuous')
    return {'runs': len(runs), 'events': res['total'], 'matched': res['matched'], 'tlc_states': res.get('tlc_states'),
            'runs_rejected': drift, 'corruption_probes': pr}


def lin_validate(verdict, runs, module, cfg, tag, label, clause, max_report=10):
    """Histories (call/ret events) must be linearizable w.r.t. the model the trace spec re-uses.  A rejected run is a
    violation of `clause` (replay file = the recorded history); validation goes on with the runs after it."""
    stats = {'runs': len(runs), 'events': 0, 'tlc_states': 0, 'rejected': 0}
    rest = list(runs)
    k = 0
    while rest and stats['rejected'] < max_report:
        flat = [e for r in rest for e in r]
        path = os.path.join(WORK, tag, f'{label}.lin{k}.ndjson')
        os.makedirs(os.path.dirname(path), exist_ok=True)
        write_ndjson(path, flat)
        res = tlc_mech_trace(module, path, name=f'{tag}_{label}_lin{k}', cfg=cfg)
        stats['tlc_states'] += res.get('tlc_states') or 0
        k += 1
        if res['matched'] == res['total'] and not res['invariant_violated']:
            stats['events'] += res['total']
            break
        i = min(max(res['matched'], 0), len(flat) - 1)
        start = max(j for j in range(i + 1) if flat[j].get('e') == 'reset')
        # which run is it
        pos, idx = 0, 0
        for idx, r in enumerate(rest):
            if pos == start:
                break
            pos += len(r)
        bad = rest[idx]
        stats['events'] += start
        stats['rejected'] += 1
        cls = bad[0].get('stim', {}).get('class', '')
        verdict.add(f'{label}:{clause}:{cls}',
                    f'run {bad[0].get("run")}: no interleaving of atomic operations explains the recorded history; first unexplained event #{i - start + 1} {json.dumps(flat[i])[:200]}'
                    + (f' (model invariant {res["invariant_violated"]})' if res['invariant_violated'] else ''), replay_rows=bad)
        rest = rest[idx + 1:]
    return stats


# ----------------------------------------------------------------------------- runs / replay files
def split_runs(events):
    runs, cur = [], None
    for ev in events:
        if ev.get('e') == 'reset':
            cur = [ev]
            runs.append(cur)
        elif cur is not None:
            cur.append(ev)
    return runs


def load_known():
    p = os.path.join(VERIF, 'known_findings.json')
    if not os.path.exists(p):
        return []
    return json.load(open(p))


class Verdict:
    """Collects violations of one check invocation and turns them into output lines / exit code."""

    def __init__(self, prop):
        self.prop = prop
        self.violations = []   # dicts: signature, what, replay
        self.known_hits = {}
        self.drift = []
        self.notes = []

    def add(self, signature, what, replay_rows=None, replay_path=None):
        known = [k for k in load_known() if k.get('property') == self.prop and k.get('state') == 'open' and k.get('signature') == signature]
        if known:
            self.known_hits[signature] = known[0].get('what', what)
            return
        if len(self.violations) >= 10:
            self.suppressed = getattr(self, 'suppressed', 0) + 1
            return
        if replay_path is None:
            ensure_dirs()
            h = hashlib.sha1((self.prop + signature + what).encode()).hexdigest()[:10]
            replay_path = os.path.join(REPLAY, f'{self.prop}-{h}.ndjson')
            write_ndjson(replay_path, replay_rows or [{'e': 'note', 'what': what}])
        self.violations.append({'signature': signature, 'what': what, 'replay': replay_path})

    def finish(self):
        for sig, what in self.known_hits.items():
            print(f'KNOWN-FINDING: property={self.prop} {sig} {what}')
        for d in self.drift:
            print(f'DRIFT property={self.prop} {d}')
        for n in self.notes[:5]:
            print(f'NOTE property={self.prop} {n}')
        seen = set()
        for v in self.violations:
            if v['replay'] in seen:
                continue
            seen.add(v['replay'])
            print(f'VIOLATION property={self.prop} replay={v["replay"]}')
            print(f'  signature={v["signature"]} :: {v["what"]}')
        if getattr(self, 'suppressed', 0):
            print(f'  (+{self.suppressed} more violating runs not listed)')
        return 1 if self.violations else 0


def judge_trace(verdict, res, events, prop_filter=None, label=''):
    """Map TLC's `bad` list (run, ev, clauses) to violations, one replay file per failing run."""
    runs = {r[0].get('run'): r for r in split_runs(events)}
    n = 0
    for b in res.get('bad', []):
        clauses = sorted(b.get('clauses', []))
        if prop_filter:
            clauses = [c for c in clauses if prop_filter(c)]
            if not clauses:
                continue
        run = runs.get(b.get('run'), [])
        evidx = b.get('ev', 0)
        ev = events[evidx - 1] if 0 < evidx <= len(events) else {}
        cls = run[0].get('stim', {}).get('class', '') if run else ''
        sig = f'{label}:{"+".join(clauses)}' + (f':{cls}' if cls else '')
        what = f'run {b.get("run")} event #{evidx} {json.dumps(ev)[:300]} violates {clauses}'
        verdict.add(sig, what, replay_rows=run)
        n += 1
    return n


def write_evidence(prop, tier, seed, level, coverage, wall_s, violations, assumptions):
    ensure_dirs()
    ev = {
        'property_id': prop, 'tier': tier, 'seed': int(seed), 'level': level,
        'coverage': coverage, 'assumptions': assumptions, 'wall_s': round(wall_s, 1), 'violations': violations,
    }
    path = os.path.join(EVID, f'{prop}.json')
    with open(path, 'w') as f:
        json.dump(ev, f, indent=1, sort_keys=True)
    return path
