"""C08 (MetadataMap part): typed accessors, wire form, padding-indifferent receipt. Spec: Metadata, Trace_Meta."""
from . import core, simple


def add_families(prop, tier, seed, verdict, cov, mc, tag):
    stims = simple.gen('meta', seed, tier, tag)
    ev, path = simple.run_lab('meta', stims, tag, 'metadata_map')
    simple.validate(prop, 'Trace_Meta', verdict, ev, path, 'metadata_map', cov,
                    clause_filter=lambda c: c.startswith('C08.') or c in ('NoPanic', 'NoHang'))
    cov['samples'].append({'family': 'metadata_map', 'stimulus': simple.sample_of(stims)})
