"""Projection helper: independent decompression of flagged frame payloads (C zlib via Python; tonic's
flate2 uses miniz_oxide). Adds gzip/deflate attempts to the `frames` hints of `wire` events; the
specification cross-checks the hint offsets against its own parse of the bytes."""
import zlib


def _try(fn, data):
    try:
        return {'ok': True, 'v': list(fn(data))}
    except Exception:
        return {'ok': False, 'v': []}


def annotate(events):
    for ev0 in events:
        targets = []
        if ev0.get('e') == 'wire' and 'frames' in ev0:
            targets.append(ev0)
        if ev0.get('e') == 'bodies':
            targets += [ev0['req'], ev0['resp']]
        for ev in targets:
            b = bytes(ev['bytes'])
            for h in ev['frames']:
                if h.get('flag') == 1 and h.get('len', 0) > 0:
                    payload = b[h['off'] + 5: h['off'] + 5 + h['len']]
                    h['gzip'] = _try(lambda d: zlib.decompress(d, 16 + zlib.MAX_WBITS), payload)
                    h['deflate'] = _try(lambda d: zlib.decompress(d, zlib.MAX_WBITS), payload)
                else:
                    h['gzip'] = {'ok': False, 'v': []}
                    h['deflate'] = {'ok': False, 'v': []}
    return events
