from . import p_framing
REGISTRY = {
    'C01': p_framing, 'C03': p_framing, 'C06': p_framing, 'C07': p_framing,
}
