from . import p_framing, p_status, p_call, p_simple, p_deadline, p_reconnect, p_shutdown, p_health, p_web, p_reflect, p_codegen, p_tls
REGISTRY = {
    'C01': p_framing, 'C03': p_framing, 'C06': p_framing, 'C07': p_framing,
    'C04': p_status,
    'C02': p_call, 'C05': p_call, 'C08': p_call,
    'C12': p_simple, 'C10': p_simple, 'C20': p_simple,
    'C09': p_deadline, 'C14': p_reconnect, 'C13': p_shutdown, 'C18': p_health, 'C16': p_web, 'C17': p_web, 'C19': p_reflect, 'C11': p_codegen, 'C15': p_tls,
}
