from . import p_framing, p_status
REGISTRY = {
    'C01': p_framing, 'C03': p_framing, 'C06': p_framing, 'C07': p_framing,
    'C04': p_status,
}
