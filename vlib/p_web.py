"""C16 (grpc-web server layer) and C17 (grpc-web client layer). Specs: GrpcWeb (Contract operators: text decoding,
trailer blocks, body split), WebClient (Mechanism model of the client decode loop), Trace_Web (trace validation)."""
import base64, random, struct, time
from . import core, simple
from .core import ToolError

WEB = ['application/grpc-web', 'application/grpc-web+proto', 'application/grpc-web-text', 'application/grpc-web-text+proto']
TEXT = WEB[2:]


def frame(flag, payload):
    return bytes([flag]) + struct.pack('>I', len(payload)) + bytes(payload)


def rand_trailers(rnd, any_map=False):
    names = ['grpc-status', 'grpc-message', 'x-a', 'x-a', 'x-b-bin', 'k']
    out = [{'n': 'grpc-status', 'v': list(str(rnd.randint(0, 16)).encode())}]
    if any_map:      # "any trailers": the inner service need not be tonic - an empty map, or one without grpc-status
        r = rnd.random()
        if r < 0.12:
            return []
        if r < 0.24:
            out = []
    for _ in range(rnd.randint(0, 4)):
        n = rnd.choice(names[1:])
        v = rnd.choice([b'', b'ok', b'a:b', b'http://x:80/y', b'a b  c', b'x: y', b'AAEC', b'100%25', b'::'])
        out.append({'n': n, 'v': list(v)})
    for e in out:
        e['nb'] = list(e['n'].encode())
    return out


def cut(rnd, data, mode=None):
    data = bytes(data)
    if not data:
        return []
    mode = mode or rnd.choice(['one', 'bytes', 'small', 'rand', 'rand'])
    if mode == 'one':
        return [list(data)]
    if mode == 'bytes' and len(data) <= 80:
        return [[b] for b in data]
    out, p = [], 0
    while p < len(data):
        k = rnd.choice([1, 2, 3, 4, 5, 7, 16, 64]) if mode == 'small' else rnd.randint(1, max(1, len(data) // 2))
        if rnd.random() < 0.12:
            out.append([])                # an empty DATA frame (two cut points coincide)
        out.append(list(data[p:p + k]))
        p += k
    return out


def trailer_block(tr):
    return b''.join(e['n'].encode() + b':' + bytes(e['v']) + b'\r\n' for e in tr)


def gen(seed, tier, which):
    rnd = random.Random(seed * 7 + (16 if which == 'C16' else 17))
    n = 1500 if tier == 'thorough' else 250
    out = []
    if which == 'C16':
        for _ in range(n):
            msgs = [bytes(rnd.randrange(256) for _ in range(rnd.choice([0, 1, 3, 20, 100]))) for _ in range(rnd.randint(0, 3))]
            fb = b''.join(frame(0, m) for m in msgs)
            accept = rnd.choice(WEB + ['none', 'text/html'])
            out.append({'kind': 'srv_resp', 'class': 'srv_resp', 'method': 'POST', 'version': rnd.choice(['HTTP/1.1', 'HTTP/2.0']), 'ctype': rnd.choice(WEB),
                        'accept': accept, 'text': accept in TEXT, 'chunks_req': [], 'chunks_resp': cut(rnd, fb), 'trailers': rand_trailers(rnd, any_map=True),
                        'inner_status': 200, 'frames_bytes': list(fb)})
            if len(out) % 3 == 1:      # the inner gRPC service labels its response with a subtype (another gRPC stack behind the bridge)
                out[-1]['inner_ctype'] = ('application/grpc+proto', 'application/grpc+json')[len(out) % 2]
        for k in range(n):
            # (every fortieth request carries a payload around / above the layer's 8 KiB buffer constant)
            payload = bytes(rnd.randrange(256) for _ in range(rnd.choice([8185, 8186, 9000, 20000]) if k % 40 == 7 else rnd.choice([0, 1, 2, 3, 4, 5, 17, 60, 200])))
            text = rnd.random() < 0.6
            wire = base64.b64encode(payload) if text else payload
            well = True
            if text and wire and rnd.random() < 0.15:
                wire = wire[:-rnd.randint(1, 3)]
                well = False
            out.append({'kind': 'srv_req', 'class': 'srv_req', 'method': 'POST', 'version': 'HTTP/1.1', 'ctype': rnd.choice(TEXT if text else WEB[:2]), 'accept': 'none', 'text': text,
                        'chunks_req': cut(rnd, wire, 'one') if len(payload) > 8000 and len(out) % 2 == 0 else cut(rnd, wire), 'chunks_resp': [], 'trailers': [{'n': 'grpc-status', 'nb': list(b'grpc-status'), 'v': [48]}], 'inner_status': 200,
                        'payload': list(payload), 'wellformed': well})
            # what the caller offers for the response (its own grpc-accept-encoding header, or none) is the gRPC service's business: the
            # bridge passes it on as it is
            out[-1]['honest_eos'] = k % 3 == 1
            g = ('none', 'identity', 'gzip', 'zstd,identity', 'gzip,deflate')[k % 5]
            out[-1]['gae'] = g
            out[-1]['gae_bytes'] = list(g.encode())
        # text requests whose base64 form exceeds the layer's 8 KiB buffer constant by a third and more, whole or in two chunks
        for size in (8186, 8190, 9000, 20000):
            payload = bytes(rnd.randrange(256) for _ in range(size))
            wire = base64.b64encode(payload)
            for chunks in ([list(wire)], [list(wire[:10923]), list(wire[10923:])], [list(wire[:12001]), list(wire[12001:])]):
                out.append({'kind': 'srv_req', 'class': 'srv_req_large_text', 'method': 'POST', 'version': 'HTTP/1.1', 'ctype': TEXT[0], 'accept': 'none', 'text': True,
                            'chunks_req': [c for c in chunks if c], 'chunks_resp': [], 'trailers': [{'n': 'grpc-status', 'nb': list(b'grpc-status'), 'v': [48]}], 'inner_status': 200,
                            'payload': list(payload), 'wellformed': True})
        # base64 text made of several independently padded segments (one per flushed frame, as every grpc-web encoder
        # including tonic-web's own produces them), cut anywhere - also inside and right after the padding
        for _ in range(n // 2):
            parts = [frame(0, bytes(rnd.randrange(256) for _ in range(rnd.choice([0, 1, 2, 3, 4, 7, 30])))) for _ in range(rnd.randint(2, 4))]
            payload = b''.join(parts)
            wire = b''.join(base64.b64encode(p_) for p_ in parts)
            mode = rnd.choice(['one', 'small', 'rand', 'rand'])
            out.append({'kind': 'srv_req', 'class': 'srv_req_segments', 'method': 'POST', 'version': 'HTTP/1.1', 'ctype': rnd.choice(TEXT), 'accept': 'none', 'text': True,
                        'chunks_req': cut(rnd, wire, mode), 'chunks_resp': [], 'trailers': [{'n': 'grpc-status', 'nb': list(b'grpc-status'), 'v': [48]}], 'inner_status': 200,
                        'payload': list(payload), 'wellformed': True})
            out[-1]['honest_eos'] = len(out) % 2 == 0      # half of the segmented bodies report their end as soon as the last chunk is out
        fb = frame(0, b'hello')
        for m in ['GET', 'POST', 'OPTIONS', 'PUT']:
            for v in ['HTTP/1.0', 'HTTP/1.1', 'HTTP/2.0', 'HTTP/3.0']:
                for ct in WEB + ['application/grpc', 'text/plain', None, 'application/grpc-web;charset=x']:
                    for acc in [WEB[0], WEB[3], 'none', 'text/html']:
                        web = ct in WEB
                        cls = 'passes_through' if (not web and v == 'HTTP/2.0') else 'rejected_405' if (web and m != 'POST') else 'rejected_400' if not web else 'table'
                        out.append({'kind': 'table', 'class': cls, 'method': m, 'version': v, 'ctype': ct or 'none', 'ctype_bytes': list((ct or '').encode()), 'accept': acc,
                                    'chunks_req': [], 'chunks_resp': [list(fb)], 'trailers': [{'n': 'grpc-status', 'nb': list(b'grpc-status'), 'v': [48]}], 'inner_status': 200,
                                    'frames_bytes': list(fb)})
        return out
    # ---- C17
    bodies = []
    for _ in range(max(8, n // 25)):
        msgs = [bytes(rnd.randrange(256) for _ in range(rnd.choice([0, 1, 2, 5, 30]))) for _ in range(rnd.randint(0, 3))]
        tr = rand_trailers(rnd)
        fb = b''.join(frame(rnd.choice([0, 0, 1]), m) for m in msgs)
        wire = fb + frame(0x80, trailer_block(tr))
        bodies.append((fb, tr, wire))
    # messages larger than the layer's 8 KiB buffer constant, cut below / at / above it (one 0x80 byte and a 0/1 byte early in the payload)
    for size in ((9000, 20000) if tier == 'thorough' else (9000,)):
        m = bytearray(rnd.randrange(2, 0x7f) for _ in range(size))
        m[100], m[8300 % size] = 0x80, 0x01
        tr = rand_trailers(rnd)
        fb = frame(0, bytes(m)) + frame(0, b'xy')
        wire = fb + frame(0x80, trailer_block(tr))
        base = {'kind': 'cli_resp', 'version': 'HTTP/2.0', 'chunks_req': [[0, 0, 0, 0, 1, 9]], 'frames_bytes': list(fb), 'trailers': tr}
        for c in (4000, 8191, 8192, 8193, 8197, size - 1, size + 5, size + 6):
            out.append(dict(base, **{'class': 'large_message', 'complete': True, 'has_full_trailers': True, 'chunks_resp': [list(wire[:c]), list(wire[c:])]}))
        out.append(dict(base, **{'class': 'large_message', 'complete': True, 'has_full_trailers': True, 'chunks_resp': [list(wire[i:i + 4096]) for i in range(0, len(wire), 4096)]}))
    for fb, tr, wire in bodies:
        base = {'kind': 'cli_resp', 'version': 'HTTP/2.0', 'chunks_req': [[0, 0, 0, 0, 1, 9]], 'frames_bytes': list(fb), 'trailers': tr}
        L = len(wire)
        singles = list(range(1, L)) if (tier == 'thorough' or L <= 60) else rnd.sample(range(1, L), 40)
        for c in singles:
            cls = 'cut_in_trailers' if c > len(fb) else 'cut_in_header' if any(0 < c - off < 5 for off in _offsets(fb)) else 'cli_resp'
            out.append(dict(base, **{'class': cls, 'complete': True, 'has_full_trailers': True, 'chunks_resp': [list(wire[:c]), list(wire[c:])]}))
        for _ in range(12 if tier != 'thorough' else 60):
            out.append(dict(base, **{'class': 'cli_resp', 'complete': True, 'has_full_trailers': True, 'chunks_resp': cut(rnd, wire)}))
        out.append(dict(base, **{'class': 'cli_resp', 'complete': True, 'has_full_trailers': True, 'chunks_resp': [list(wire)]}))
        truncs = list(range(1, L)) if (tier == 'thorough' or L <= 60) else rnd.sample(range(1, L), 40)
        for k in truncs:
            # a body that stops exactly between two frames is not "cut off inside a frame": either outcome is accepted there
            out.append(dict(base, **{'class': 'truncated', 'complete': False, 'has_full_trailers': False, 'at_boundary': k in _offsets(fb),
                                     'chunks_resp': cut(rnd, wire[:k], rnd.choice(['one', 'small', 'rand']))}))
        if fb:
            bad = bytearray(wire)
            bad[0] = rnd.choice([2, 3, 0x81, 0xff])
            out.append(dict(base, **{'class': 'truncated', 'complete': False, 'has_full_trailers': False, 'at_boundary': False, 'frames_bytes': [], 'chunks_resp': cut(rnd, bytes(bad))}))
    for _ in range(40):
        payload = bytes(rnd.randrange(256) for _ in range(rnd.choice([0, 5, 64])))
        out.append({'kind': 'cli_req', 'class': 'cli_req', 'version': rnd.choice(['HTTP/2.0', 'HTTP/1.1']), 'chunks_req': cut(rnd, payload), 'chunks_resp': [], 'payload': list(payload),
                    'frames_bytes': [], 'trailers': []})
    # the client layer is generic over the transport's Buf: a third of the response bodies deliver their data frames as
    # non-contiguous segments of 1, 3 or 4 bytes (chunk() is then only the first segment of a frame)
    for k, st in enumerate(out):
        if st.get('kind') == 'cli_resp':
            st['seg'] = (0, 0, 1, 0, 0, 3, 0, 0, 4)[k % 9]
    return out


def _offsets(fb):
    offs, p = [], 0
    while p + 5 <= len(fb):
        offs.append(p)
        p += 5 + struct.unpack('>I', fb[p + 1:p + 5])[0]
    offs.append(len(fb))
    return offs


def check(prop, tier, seed):
    t0 = time.time()
    core.build_harness()
    verdict = core.Verdict(prop)
    cov = {'traces_validated_against_impl': 0, 'samples': []}
    mc = []
    tag = f'{prop}_{tier}'
    if prop == 'C17':
        r = core.tlc_mc('MC_WebClient', 'MC_WebClient.cfg', workers=8, timeout=1500)
        if r.get('violated') or r.get('never_taken'):
            raise ToolError(f'MC_WebClient: {r.get("violated")} {r.get("never_taken")}\n' + r.get('output_tail', '')[-2500:])
        mc.append(r)
        mc.append(core.tlc_mc('MC_WebClient', 'MC_WebClient_asbefore.cfg', workers=4, expect_violation='Contract'))
    stims = gen(seed, tier, prop)
    if prop == 'C16':
        # Mechanism model of the base64 carry buffer: model checked, the pre-fix deviation must violate, and every exported
        # (text shape, chunking) behaviour is replayed on the real service with the model's prediction attached
        r = core.tlc_mc('WebB64', 'MC_WebB64_big.cfg' if tier == 'thorough' else 'MC_WebB64.cfg', workers=8, timeout=1500)
        if r.get('violated') or r.get('never_taken'):
            raise ToolError(f'WebB64: {r.get("violated")} {r.get("never_taken")}\n' + r.get('output_tail', '')[-2500:])
        mc.append(r)
        mc.append(core.tlc_mc('WebB64', 'MC_WebB64_prefix.cfg', workers=4, expect_violation='NoSpuriousError'))
        rows, st = core.tlc_export('Gen_WebB64', 'Gen_WebB64.cfg', workers=1, timeout=900)
        mc.append(st)
        rows2, st2 = core.tlc_export('Gen_WebB64', 'Gen_WebB64_sim.cfg', workers=1, simulate=f'num={8000 if tier == "thorough" else 1500}', seed=seed, timeout=900)
        mc.append(st2)
        seen = set()
        for row in rows + rows2:
            key = (''.join(row['text']), tuple(row['chunks']))
            if key in seen:
                continue
            seen.add(key)
            wire = bytes(65 if c == 'D' else 61 for c in row['text'])
            chunks, p_ = [], 0
            for k in row['chunks']:
                chunks.append(list(wire[p_:p_ + k])); p_ += k
            well = row['st'] == 'end'
            stims.append({'kind': 'srv_req', 'class': 'tlc_b64_shape', 'method': 'POST', 'version': 'HTTP/1.1', 'ctype': TEXT[0], 'accept': 'none', 'text': True,
                          'chunks_req': chunks, 'chunks_resp': [], 'trailers': [{'n': 'grpc-status', 'nb': list(b'grpc-status'), 'v': [48]}], 'inner_status': 200,
                          'payload': [0] * row['out'] if well else [], 'wellformed': well, 'predict': {'st': row['st'], 'out': row['out']}})
    ev, path = simple.run_lab('web', stims, tag, 'web', env={'VH_HANG_SECS': '10'})
    if prop == 'C16':
        nd = 0
        for run in core.split_runs(ev):
            pr = run[0]['stim'].get('predict')
            if not pr:
                continue
            body = [e for e in run if e.get('e') == 'inner_body']
            got = ('err' if body and body[0].get('err') else 'end', len(body[0].get('bytes', [])) if body else -1)
            if got[0] != pr['st'] or (pr['st'] == 'end' and got[1] != pr['out']):
                nd += 1
                if nd <= 3:
                    verdict.drift.append(f'WebB64 predicted {pr} for chunks {[len(c) for c in run[0]["stim"]["chunks_req"]]} of a {sum(len(c) for c in run[0]["stim"]["chunks_req"])}-symbol text, the code gave {got}')
        cov['mechanism_drift'] = f'{nd} runs differ from the Mechanism model prediction'
        cov['b64_shape_behaviours_replayed'] = len(seen)
    simple.validate(prop, 'Trace_Web', verdict, ev, path, 'web', cov,
                    clause_filter=lambda c: c.startswith(prop + '.') or c in ('NoPanic', 'NoHang', 'NothingAfterTheEnd', 'PendingArrangesWakeup', 'InnerCalledOnce'),
                    harness_clauses={'UnknownEvent'})
    cov['samples'].append({'family': 'web', 'stimulus': simple.sample_of(stims)})
    return simple.finish(prop, tier, seed, verdict, cov, mc, t0,
                         ['trailer values never start with a space in the stimuli (the wire format cannot distinguish it from the optional space after the colon)',
                          'the text variant is decoded group-wise: every 4-symbol group is an independently padded base64 quantum'],
                         ('tlc MC_WebClient*.cfg; ' if prop == 'C17' else 'tlc MC_WebB64*.cfg, Gen_WebB64*.cfg; ') + 'vh web; tlc Trace_Web.cfg')


def replay(prop, path):
    core.build_harness()
    stims = [r['stim'] for r in core.read_ndjson(path) if r.get('e') == 'reset']
    verdict = core.Verdict(prop)
    cov = {'traces_validated_against_impl': 0, 'samples': []}
    ev, p = simple.run_lab('web', stims, f'{prop}_replay', 'replay', env={'VH_HANG_SECS': '10'})
    simple.validate(prop, 'Trace_Web', verdict, ev, p, 'replay', cov, clause_filter=lambda c: c.startswith(prop + '.') or c in ('NoPanic', 'NoHang', 'NothingAfterTheEnd', 'PendingArrangesWakeup', 'InnerCalledOnce'),
                    harness_clauses={'UnknownEvent'})
    return verdict.finish()


def bridge_family(prop, tier, seed, verdict, cov, tag):
    """C05 on the grpc-web bridge: the inner gRPC service is handed the caller's own grpc-accept-encoding (Trace_Web, clause C05.*)."""
    stims = [s for s in gen(seed, tier, 'C16') if s.get('kind') == 'srv_req' and 'gae' in s]
    if len(stims) < 20:
        raise ToolError('web bridge: too few requests')
    ev, path = simple.run_lab('web', stims, tag, 'web_bridge')
    simple.validate(prop, 'Trace_Web', verdict, ev, path, 'web_bridge', cov, clause_filter=lambda c: c.startswith(prop + '.') or c in ('NoPanic', 'NoHang'))
    cov['samples'].append({'family': 'web_bridge', 'stimulus': simple.sample_of(stims)})
