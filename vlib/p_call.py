"""C02, C05, C08 (and the head clauses of C03): one RPC end to end. Specs: Call (Contract), StatusCodec,
FramingContract, MC_Negotiation (decision table export), Trace_Call (trace validation)."""
import json, os, random, time
from . import core, simple, decomp
from .core import ToolError

COMMON = {'NoPanic', 'NoHang'}
HARNESS = {'UnknownEvent', 'HarnessOK', 'RecorderHonest', 'HintsAligned', 'RunComplete'}


# clauses that restate a sentence shared by two properties ("every metadata entry the handler attached" is C02 and C08)
SHARED = {'C02': {'C08.ErrorMetadataReceived', 'C08.InitialMetadataReceived', 'C08.HandlerSeesRequestMetadata'},
          'C03': set(), 'C05': set(), 'C08': set()}


def clause_filter(prop):
    def f(c):
        return c.startswith(prop + '.') or c in COMMON or c in SHARED.get(prop, ())
    return f


def negotiation_stims(seed, tier, mc):
    rows, st = core.tlc_export('MC_Negotiation', 'MC_Negotiation.cfg', workers=1, timeout=900)
    if st.get('distinct', 0) != len(rows):
        raise ToolError('MC_Negotiation: table export incomplete or TableOK violated')
    mc.append(st)
    rnd = random.Random(seed)
    n = 20000 if tier == 'thorough' else 2500
    # stratify: keep every class / allowed-set pattern represented
    buckets = {}
    for r in rows:
        buckets.setdefault((r['class'], tuple(r['allowed']), r['flag']), []).append(r)
    picked = []
    per = max(1, n // len(buckets))
    for k, b in buckets.items():
        rnd.shuffle(b)
        picked += b[:per]
    stims = []
    for r in picked:
        headers = [{'n': 'content-type', 'v': list(b'application/grpc')}, {'n': 'te', 'v': list(b'trailers')}]
        if r['offer'][0] != 'absent':
            headers.append({'n': 'grpc-accept-encoding', 'v': r['offer'][1]})
        reqname = ''
        if r['reqenc'][0] != 'absent':
            headers.append({'n': 'grpc-encoding', 'v': r['reqenc'][1]})
            reqname = bytes(r['reqenc'][1]).decode('latin1')
        comp = reqname if reqname in ('gzip', 'deflate', 'zstd') else ''
        wellformed = r['flag'] == 0 or comp != ''
        shape = ['unary', 'sstream'][len(stims) % 2]
        msg = [[1, 2, 3], [], [0] * 40][(len(stims) // 2) % 3]
        stims.append({'mode': 'raw', 'class': 'negotiation_' + r['class'], 'transport': 'inproc', 'shape': shape,
                      # every fourth server is tonic::server::Grpc configured through EnabledCompressionEncodings (enable all, pop the unwanted)
                      'server': {'send': r['send'], 'accept': r['accept'], 'max_dec': -1, 'max_enc': -1, 'via_config': len(stims) % 4 == 3},
                      'client': {'send': '', 'accept': [], 'max_dec': -1, 'max_enc': -1},
                      'req': {'meta': [], 'msgs': [msg]},
                      'script': {'init_meta': [], 'msgs': [[9] * 40] if shape == 'unary' else [[9] * 40, [], [7]], 'end': {'ok': True}, 'fail_before': False, 'no_compress': False},
                      'raw': {'method': 'POST', 'version': 'HTTP/2.0', 'uri': '/p.q.Svc/Unary' if shape == 'unary' else '/p.q.Svc/SStream',
                              'headers': headers, 'msg': msg, 'flag': r['flag'], 'comp': comp, 'wellformed': wellformed, 'lead': (0, 0, 1, 49)[(len(stims) // 3) % 4]},
                      'table': r})
    return stims


def client_negotiation_stims(seed, tier):
    """client-mode calls over every (client send, client accept, server send, server accept) combination."""
    encs = ['gzip', 'deflate', 'zstd']
    subsets = [[e for i, e in enumerate(encs) if m >> i & 1] for m in range(8)]
    rnd = random.Random(seed + 5)
    out = []
    for cs in [''] + encs:
        for ca in subsets:
            for ss in subsets:
                for sa in subsets:
                    if tier != 'thorough' and rnd.random() > 0.25:
                        continue
                    shape = rnd.choice(['unary', 'cstream', 'sstream', 'bidi'])
                    rnd.shuffle(ca)
                    # a third of the calls with a non-empty accept set are made with request metadata that already carries a
                    # grpc-accept-encoding entry (a proxy handing the incoming call's metadata on): what the client advertises is still
                    # what it was configured to accept.  (With an empty accept set the sentences of C05 and C08 pull in opposite
                    # directions - "advertises exactly" against "every entry reaches the peer" - and nothing is judged.)
                    meta = []
                    if ca and len(out) % 3 == 0:
                        other = [e for e in encs if e not in ca] + ['identity']
                        meta = [{'n': 'grpc-accept-encoding', 'bin': False, 'v': list(','.join(other if len(out) % 2 else encs + ['identity']).encode())}]
                    # likewise a grpc-encoding entry (only where the client compresses: what is announced is what the body is compressed with)
                    if cs and len(out) % 4 == 1:
                        meta = meta + [{'n': 'grpc-encoding', 'bin': False, 'v': list(('identity' if len(out) % 8 == 1 else [e for e in encs if e != cs][0]).encode())}]
                    out.append({'mode': 'client', 'class': 'client_negotiation', 'transport': 'inproc', 'shim': {'cap': 0, 'rq': 0, 'wq': 0, 'pend': 0}, 'shape': shape,
                                'server': {'send': ss, 'accept': sa, 'max_dec': -1, 'max_enc': -1},
                                'client': {'send': cs, 'accept': list(ca), 'max_dec': -1, 'max_enc': -1, 'clone': rnd.random() < 0.4},
                                'req': {'meta': meta, 'msgs': [[5] * 50] if shape in ('unary', 'sstream') else [[5] * 50, [], [1]]},
                                'script': {'init_meta': [], 'msgs': [[9] * 60] if shape in ('unary', 'cstream') else [[9] * 60, [], [8]],
                                           'end': {'ok': True}, 'fail_before': False, 'no_compress': rnd.random() < 0.2}})
    return out


def mock_stims(seed, tier):
    """the generated client against canned responses: response encodings, flags, status placement, HTTP status"""
    import struct, zlib
    rnd = random.Random(seed + 55)
    out = []
    encs = ['gzip', 'deflate', 'zstd']
    n = 3000 if tier == 'thorough' else 500
    def fr(flag, payload):
        return [flag] + list(struct.pack('>I', len(payload))) + list(payload)
    for i in range(n):
        accept = [e for e in encs if rnd.random() < 0.4]
        headers = [{'n': 'content-type', 'v': list(b'application/grpc')}]
        enc_hdr = rnd.choice([None, None, 'identity', 'gzip', 'deflate', 'zstd', 'br', 'gz\xefp'])
        if enc_hdr is not None:
            headers.append({'n': 'grpc-encoding', 'v': list(enc_hdr.encode('latin1'))})
        status = rnd.choice([200] * 6 + [400, 401, 403, 404, 429, 500, 502, 503, 504, 418])
        head_code = rnd.choice([None] * 5 + [0, 3, 13, 16])
        if head_code is not None:
            headers.append({'n': 'grpc-status', 'v': list(str(head_code).encode())})
        k = rnd.randint(0, 2) if head_code is None and status == 200 else 0
        frames, first_flagged = [], False
        for j in range(k):
            payload = bytes([rnd.randrange(256)] * rnd.choice([0, 3, 20]))
            flag = 1 if rnd.random() < 0.35 else 0
            if flag == 1:
                if enc_hdr == 'gzip':
                    co = zlib.compressobj(6, zlib.DEFLATED, 31); payload = co.compress(payload) + co.flush()
                elif enc_hdr == 'deflate':
                    payload = zlib.compress(payload)
                if j == 0:
                    first_flagged = True
            frames.append(fr(flag, payload))
        trail_code = rnd.choice([0, 0, 0, 5, 9, 14, None]) if head_code is None else None
        trailers = [{'n': 'grpc-status', 'v': list(str(trail_code).encode())}] if trail_code is not None else []
        if trail_code not in (None, 0):
            trailers.append({'n': 'grpc-message', 'v': list(b'boom')})
        shape = rnd.choice(['unary', 'sstream'])
        out.append({'mode': 'mock', 'class': 'mock_response', 'transport': 'mock', 'shim': {'cap': 0, 'rq': 0, 'wq': 0, 'pend': 0}, 'shape': shape,
                    'server': {'send': [], 'accept': [], 'max_dec': -1, 'max_enc': -1}, 'client': {'send': '', 'accept': accept, 'max_dec': -1, 'max_enc': -1},
                    'req': {'meta': [], 'msgs': [[1]]}, 'script': {'init_meta': [], 'msgs': [], 'end': {'ok': True}, 'fail_before': False, 'no_compress': False},
                    'mock': {'status': status, 'headers': headers, 'body_chunks': frames, 'has_trailers': trail_code is not None, 'trailers': trailers, 'first_flagged': first_flagged}})
    return out


def mock_table_stims(seed, tier, mc):
    """MC_Response: the TLC-enumerated table of response shapes, served to the generated client as canned responses."""
    import struct
    rows, st = core.tlc_export('MC_Response', 'MC_Response.cfg', workers=4, timeout=900)
    mc.append(st)
    if len(rows) != 11088:
        raise ToolError(f'MC_Response exported {len(rows)} points, expected 11088')
    rnd = random.Random(seed + 77)
    if tier != 'thorough':
        small = [r for r in rows if r['class'] in ('error_from_trailers', 'ok_if_shape_allows', 'error_from_http_status')]
        rows = small + rnd.sample([r for r in rows if r['class'] == 'error_from_headers'], 500) + rnd.sample([r for r in rows if r['class'] == 'unspecified'], 400)
    val = {'0': b'0', '2': b'2', '5': b'5', '14': b'14', '16': b'16', 'bad': b'1&'}
    out = []
    for r in rows:
        headers = [{'n': 'content-type', 'v': list(b'application/grpc')}]
        if r['hs'] != 'none':
            headers.append({'n': 'grpc-status', 'v': list(val[r['hs']])})
        if r['hmsg']:
            headers.append({'n': 'grpc-message', 'v': list(b'from headers')})
        frames = [[0] + list(struct.pack('>I', 2)) + [j, 7] for j in range(r['nmsg'])]
        if len(out) % 3 == 1:      # a peer that is not tonic may send empty DATA frames anywhere: before, between and after the messages
            frames = [c for f in frames for c in ([], f)] + [[]]
        has_tr = r['ts'] != 'absent'
        trailers = []
        if r['ts'] not in ('absent', 'nostatus'):
            trailers.append({'n': 'grpc-status', 'v': list(val[r['ts']])})
        if has_tr and r['tmsg']:
            trailers.append({'n': 'grpc-message', 'v': list(b'from trailers')})
        if r['ts'] == 'nostatus':
            trailers.append({'n': 'x-other', 'v': list(b'1')})
        out.append({'mode': 'mock', 'class': 'mock_table_' + r['class'], 'transport': 'mock', 'shim': {'cap': 0, 'rq': 0, 'wq': 0, 'pend': 0}, 'shape': r['shape'],
                    'server': {'send': [], 'accept': [], 'max_dec': -1, 'max_enc': -1}, 'client': {'send': '', 'accept': [], 'max_dec': -1, 'max_enc': -1},
                    'req': {'meta': [], 'msgs': [[1]]}, 'script': {'init_meta': [], 'msgs': [], 'end': {'ok': True}, 'fail_before': False, 'no_compress': False},
                    'mock': {'status': r['http'], 'headers': headers, 'body_chunks': frames, 'has_trailers': has_tr, 'trailers': trailers, 'first_flagged': False}})
    return out


def mock_metadata_stims(seed, tier):
    """canned responses of a peer that attaches custom metadata to the response headers and to the trailers (C08: "in responses,
    trailers or error statuses"): single and repeated entries, ASCII and binary (padded or not), on unary and streaming calls that
    succeed, fail with a status in the trailers, or fail on the client (a message over its decoding limit)."""
    import base64, struct
    def wire(entries, pad):
        out = []
        for e in entries:
            v = bytes(e['v'])
            if e['bin']:
                v = base64.b64encode(v)
                if not pad:
                    v = v.rstrip(b'=')
            out.append({'n': e['n'], 'v': list(v)})
        return out
    def a(n, v): return {'n': n, 'bin': False, 'v': list(v.encode())}
    def b(n, v): return {'n': n, 'bin': True, 'v': list(v)}
    patterns = [
        ([a('x-h', 'one')], [a('x-t', 'last')]),
        ([a('x-multi', 'first'), a('x-multi', 'second'), a('x-multi', 'third')], [a('x-tm', 't1'), a('x-tm', 't2')]),
        ([b('x-hb-bin', b'\x00\x01'), b('x-hb-bin', b''), b('x-hb-bin', b'\xff\xfe\xfd\xfc')], [b('x-tb-bin', b'a'), b('x-tb-bin', b'ab'), b('x-tb-bin', b'abc')]),
        ([a('x-mix', 'p'), b('x-mix-bin', b'q'), a('x-mix', 'r')], [a('x-tm', 'same'), a('x-tm', 'same'), b('x-tb-bin', b'\x80')]),
        ([], [a('x-tm', 'u'), a('x-other', 'v'), a('x-tm', 'w')]),
        ([a('x-multi', 'a'), a('x-multi', 'b')], []),
    ]
    out = []
    for shape in ('unary', 'sstream'):
        for hmeta, tmeta in patterns:
            for ts in (0, 5):
                for pad in (True, False):
                    for oversize in (False, True):
                        if oversize and ts:
                            continue
                        payload = [7] * (200 if oversize else 2)
                        frames = [[0] + list(struct.pack('>I', len(payload))) + payload]
                        if shape == 'sstream' and not oversize:
                            frames.append([0, 0, 0, 0, 1, 9])
                        if ts and shape == 'unary':
                            frames = []
                        headers = [{'n': 'content-type', 'v': list(b'application/grpc')}] + wire(hmeta, pad)
                        trailers = [{'n': 'grpc-status', 'v': list(str(ts).encode())}] + wire(tmeta, pad)
                        if ts:
                            # (every other error status is one whose message does not percent-decode to UTF-8, or whose details are not
                            # base64: the status degrades to an error about that, the entries travelling with it are still entries)
                            bad = ('', 'message', 'details')[len(out) % 4 % 3] if not oversize else ''
                            trailers.insert(1, {'n': 'grpc-message', 'v': list(b'caf%FF%FE' if bad == 'message' else b'from trailers')})
                            if bad == 'details':
                                trailers.insert(2, {'n': 'grpc-status-details-bin', 'v': list(b'*not-base64*')})
                        out.append({'mode': 'mock', 'class': 'mock_metadata', 'transport': 'mock', 'shim': {'cap': 0, 'rq': 0, 'wq': 0, 'pend': 0}, 'shape': shape,
                                    'server': {'send': [], 'accept': [], 'max_dec': -1, 'max_enc': -1},
                                    'client': {'send': '', 'accept': [], 'max_dec': 64 if oversize else -1, 'max_enc': -1},
                                    'req': {'meta': [], 'msgs': [[1]]}, 'script': {'init_meta': [], 'msgs': [], 'end': {'ok': True}, 'fail_before': False, 'no_compress': False},
                                    'mock': {'status': 200, 'headers': headers, 'body_chunks': frames, 'has_trailers': True, 'trailers': trailers, 'first_flagged': False,
                                             'hmeta': hmeta, 'tmeta': tmeta}})
    return out


def mock_status_stims(seed, tier):
    """canned error responses of a peer that is not tonic: every code, message absent / plain / percent-encoded UTF-8, details of
    0..5 bytes base64-coded with or without padding, in the headers of a trailers-only response or in the trailers after a message."""
    import base64, struct
    out = []
    msgs = [('', []), ('boom', list(b'boom')), ('caf%C3%A9%20%25', list('caf\u00e9 %'.encode()))]
    for shape in ('unary', 'sstream'):
        for code in range(1, 17):
            for where in ('headers', 'trailers'):
                for dn in range(0, 6):
                    for pad in (True, False):
                        if tier != 'thorough' and (code + dn + (1 if pad else 0)) % 3:
                            continue
                        wire_msg, msg = msgs[(code + dn) % 3]
                        details = [(7 * i + code) % 256 for i in range(dn)]
                        st = [{'n': 'grpc-status', 'v': list(str(code).encode())}]
                        if wire_msg:
                            st.append({'n': 'grpc-message', 'v': list(wire_msg.encode())})
                        if dn:
                            b = base64.b64encode(bytes(details))
                            st.append({'n': 'grpc-status-details-bin', 'v': list(b if pad else b.rstrip(b'='))})
                        headers = [{'n': 'content-type', 'v': list(b'application/grpc')}]
                        frames, trailers, has_tr = [], [], False
                        if where == 'headers':
                            headers += st
                        else:
                            if shape == 'sstream':
                                frames = [[0, 0, 0, 0, 1, 9]]
                            trailers, has_tr = st, True
                        out.append({'mode': 'mock', 'class': 'mock_status', 'transport': 'mock', 'shim': {'cap': 0, 'rq': 0, 'wq': 0, 'pend': 0}, 'shape': shape,
                                    'server': {'send': [], 'accept': [], 'max_dec': -1, 'max_enc': -1}, 'client': {'send': '', 'accept': [], 'max_dec': -1, 'max_enc': -1},
                                    'req': {'meta': [], 'msgs': [[1]]}, 'script': {'init_meta': [], 'msgs': [], 'end': {'ok': True}, 'fail_before': False, 'no_compress': False},
                                    'mock': {'status': 200, 'headers': headers, 'body_chunks': frames, 'has_trailers': has_tr, 'trailers': trailers, 'first_flagged': False,
                                             'st': {'code': code, 'msg': msg, 'details': details}}})
    return out


def limit_stims(seed, tier):
    """C06 at call level: max_{de,en}coding_message_size configured on the generated client / server."""
    rnd = random.Random(seed + 6)
    out = []
    n = 1200 if tier == 'thorough' else 240
    for i in range(n):
        shape = ['unary', 'cstream', 'sstream', 'bidi'][i % 4]
        L = rnd.choice([0, 1, 5, 64])
        side, key = [('server', 'max_dec'), ('server', 'max_enc'), ('client', 'max_dec'), ('client', 'max_enc')][(i // 4) % 4]
        def msgs(k):
            return [[rnd.randrange(256)] * rnd.choice([max(L - 1, 0), L, L + 1, L + 7, 0]) for _ in range(k)]
        nreq = 1 if shape in ('unary', 'sstream') else rnd.randint(1, 4)
        nresp = 1 if shape in ('unary', 'cstream') else rnd.randint(0, 4)
        h2 = rnd.random() < 0.4
        st = {'mode': 'client', 'class': ('h2_' if h2 else 'inproc_') + side + '_' + key, 'transport': 'h2' if h2 else 'inproc',
              'shim': {'cap': 65536, 'rq': rnd.choice([3, 64, 65536]), 'wq': rnd.choice([5, 65536]), 'pend': 0}, 'shape': shape,
              'server': {'send': [], 'accept': [], 'max_dec': -1, 'max_enc': -1}, 'client': {'send': '', 'accept': [], 'max_dec': -1, 'max_enc': -1},
              'req': {'meta': [], 'msgs': msgs(nreq)},
              'script': {'init_meta': [], 'msgs': msgs(nresp), 'end': {'ok': True}, 'fail_before': False, 'no_compress': False}}
        st[side][key] = L
        st['client']['clone'] = rnd.random() < 0.5        # the call is made on a clone of the configured client
        out.append(st)
    return out


def compressed_limit_stims(seed, tier):
    """Compression x decoding limit: the limit applies to the on-the-wire payload, so a run of one byte that is far longer than the
    receiver's limit but compresses to a few dozen bytes arrives intact (C02: same messages; C06: accepted iff wire length within limit)."""
    rnd = random.Random(seed + 66)
    out = []
    for enc in ('gzip', 'deflate', 'zstd'):
        for L in (64, 2048):
            for shape in ('unary', 'cstream', 'sstream', 'bidi'):
                for side in ('client', 'server', 'both'):
                    def msgs(k):
                        return [[rnd.randrange(256)] * rnd.choice([3 * L, L + 1, 5 * L]) for _ in range(k)]
                    nreq = 1 if shape in ('unary', 'sstream') else rnd.randint(1, 3)
                    nresp = 1 if shape in ('unary', 'cstream') else rnd.randint(1, 3)
                    h2 = rnd.random() < 0.4
                    st = {'mode': 'client', 'class': 'compressed_over_limit_' + side, 'transport': 'h2' if h2 else 'inproc', 'wire_small': True,
                          'shim': {'cap': 65536, 'rq': rnd.choice([3, 64, 65536]), 'wq': rnd.choice([5, 65536]), 'pend': 0}, 'shape': shape,
                          'server': {'send': [enc], 'accept': [enc], 'max_dec': L if side in ('server', 'both') else -1, 'max_enc': -1},
                          'client': {'send': enc, 'accept': [enc], 'max_dec': L if side in ('client', 'both') else -1, 'max_enc': -1, 'clone': rnd.random() < 0.3},
                          'req': {'meta': [], 'msgs': msgs(nreq)},
                          'script': {'init_meta': [], 'msgs': msgs(nresp), 'end': {'ok': True}, 'fail_before': False, 'no_compress': False}}
                    out.append(st)
    # asymmetric limits that are never hit: only one direction of one side is limited and the large messages travel the other way
    # (a limit must not leak into the other direction or onto the other side - also not through a cloned client)
    for shape in ('unary', 'cstream', 'sstream', 'bidi'):
        for side, key in (('client', 'max_enc'), ('client', 'max_dec'), ('server', 'max_enc'), ('server', 'max_dec')):
            for clone in (False, True):
                big_is_resp = (side, key) in (('client', 'max_enc'), ('server', 'max_dec'))
                def msgs(k, big):
                    return [[rnd.randrange(256)] * (rnd.choice([100, 200]) if big else rnd.choice([0, 5, 64])) for _ in range(k)]
                nreq = 1 if shape in ('unary', 'sstream') else rnd.randint(1, 3)
                nresp = 1 if shape in ('unary', 'cstream') else rnd.randint(1, 3)
                h2 = rnd.random() < 0.4
                st = {'mode': 'client', 'class': f'asymmetric_limit_{side}_{key}', 'transport': 'h2' if h2 else 'inproc',
                      'shim': {'cap': 65536, 'rq': 65536, 'wq': 65536, 'pend': 0}, 'shape': shape,
                      'server': {'send': [], 'accept': [], 'max_dec': -1, 'max_enc': -1}, 'client': {'send': '', 'accept': [], 'max_dec': -1, 'max_enc': -1, 'clone': clone},
                      'req': {'meta': [], 'msgs': msgs(nreq, not big_is_resp)},
                      'script': {'init_meta': [], 'msgs': msgs(nresp, big_is_resp), 'end': {'ok': True}, 'fail_before': False, 'no_compress': False}}
                st[side][key] = 64
                out.append(st)
    # limits of 2^32 and more (-2, -3, -4 in the stimulus) are never hit
    for i, shape in enumerate(('unary', 'cstream', 'sstream', 'bidi')):
        for side, key in (('client', 'max_dec'), ('server', 'max_dec'), ('client', 'max_enc'), ('server', 'max_enc')):
            st = {'mode': 'client', 'class': f'huge_limit_{side}_{key}', 'transport': 'inproc',
                  'shim': {'cap': 65536, 'rq': 65536, 'wq': 65536, 'pend': 0}, 'shape': shape,
                  'server': {'send': [], 'accept': [], 'max_dec': -1, 'max_enc': -1}, 'client': {'send': '', 'accept': [], 'max_dec': -1, 'max_enc': -1, 'clone': i % 2 == 1},
                  'req': {'meta': [], 'msgs': [[7] * 17] if shape in ('unary', 'sstream') else [[7] * 17, [8] * 5]},
                  'script': {'init_meta': [], 'msgs': [[9] * 17] if shape in ('unary', 'cstream') else [[9] * 17, [], [1] * 40], 'end': {'ok': True}, 'fail_before': False, 'no_compress': False}}
            st[side][key] = (-2, -3, -4)[(i + len(out)) % 3]
            out.append(st)
    return out


def long_stream_stims(seed, tier):
    """Scale: streams of 120 messages in each streaming direction (whatever is counted, buffered or reused per message)."""
    rnd = random.Random(seed + 120)
    out = []
    for shape in ('cstream', 'sstream', 'bidi'):
        for enc in ('', 'gzip'):
            for h2 in (False, True):
                big_req = shape in ('cstream', 'bidi')
                big_resp = shape in ('sstream', 'bidi')
                def msgs(n):
                    return [[rnd.randrange(256)] * rnd.choice([0, 1, 3, 20, 7]) for _ in range(n)]
                st = {'mode': 'client', 'class': 'long_stream', 'transport': 'h2' if h2 else 'inproc',
                      'shim': {'cap': 65536, 'rq': rnd.choice([64, 65536]), 'wq': rnd.choice([100, 65536]), 'pend': 0}, 'shape': shape,
                      'server': {'send': [enc] if enc else [], 'accept': [enc] if enc else [], 'max_dec': -1, 'max_enc': -1},
                      'client': {'send': enc, 'accept': [enc] if enc else [], 'max_dec': -1, 'max_enc': -1},
                      'req': {'meta': [], 'msgs': msgs(120 if big_req else 1)},
                      'script': {'init_meta': [], 'msgs': msgs(120 if big_resp else 1), 'end': {'ok': True} if rnd.random() < 0.7 else {'ok': False, 'code': 9, 'msg': list(b'late'), 'details': [], 'meta': []},
                                 'fail_before': False, 'no_compress': False}}
                out.append(st)
    return out


def wire_stims(seed, tier):
    """mode "wire": a bare h2 client against the complete transport server.  Grid: shape x who produces the response - the handler
    (success, every error code), a user layer failing with a Status (every code, directly or down its source chain), the server's
    timeout, the request's own grpc-timeout, both - with the handler slower or faster than the deadline by a wide margin."""
    stims = []
    def add(cls, shape, server, script, expires, extra_headers=()):
        headers = [{'n': 'content-type', 'v': list(b'application/grpc')}, {'n': 'te', 'v': list(b'trailers')}] + list(extra_headers)
        sv = {'send': [], 'accept': [], 'max_dec': -1, 'max_enc': -1, 'fail_code': -1, 'fail_how': 'direct'}
        sv.update(server)
        sc = {'init_meta': [], 'msgs': [[9] * 40] if shape == 'unary' else [[9] * 40, [], [7]], 'end': {'ok': True}, 'fail_before': False, 'no_compress': False}
        sc.update(script)
        stims.append({'mode': 'wire', 'class': 'wire_' + cls, 'transport': 'h2', 'shape': shape, 'server': sv,
                      'client': {'send': '', 'accept': [], 'max_dec': -1, 'max_enc': -1}, 'req': {'meta': [], 'msgs': [[1, 2, 3]]}, 'script': sc,
                      'raw': {'uri': '/p.q.Svc/Unary' if shape == 'unary' else '/p.q.Svc/SStream', 'headers': headers, 'msg': [1, 2, 3]},
                      'wire': {'expires': expires}})
    def hdr(v):
        return [{'n': 'grpc-timeout', 'v': list(v.encode())}]
    for shape in ('unary', 'sstream'):
        add('served', shape, {}, {}, False)
        add('served', shape, {'timeout_ms': 500}, {'latency_ms': 20}, False)
        add('served', shape, {}, {'latency_ms': 20}, False, hdr('500m'))
        for code in range(1, 17):
            end = {'ok': False, 'code': code, 'msg': list(b'boom') if code % 2 else [], 'details': [9, 9] if code % 3 == 0 else [], 'meta': []}
            add('handler_error', shape, {}, {'end': end, 'fail_before': code % 2 == 0, 'msgs': [[9] * 40] if shape == 'unary' else [[5]]}, False)
            for how in ('direct', 'source', 'source2'):
                if tier != 'thorough' and how != 'direct' and code % 4:
                    continue
                add('layer_failure', shape, {'fail_code': code, 'fail_how': how}, {}, False)
        add('layer_failure', shape, {'fail_code': 0}, {}, False)
        add('server_timeout', shape, {'timeout_ms': 50}, {'latency_ms': 200}, True)
        add('server_timeout', shape, {'timeout_us': 300}, {'latency_ms': 2}, True)
        add('request_timeout', shape, {}, {'latency_ms': 200}, True, hdr('50m'))
        add('request_timeout', shape, {}, {'latency_ms': 3000}, True, hdr('1S'))
        add('request_timeout', shape, {}, {'latency_ms': 20}, True, hdr('0n'))
        add('both_timeouts', shape, {'timeout_ms': 50}, {'latency_ms': 200}, True, hdr('10S'))
        add('both_timeouts', shape, {'timeout_ms': 5000}, {'latency_ms': 200}, True, hdr('50m'))
        add('both_timeouts', shape, {'timeout_ms': 5000}, {'latency_ms': 20}, False, hdr('500m'))
        # a failing handler behind a deadline that does not expire, and a layer failure with a deadline configured
        add('handler_error', shape, {'timeout_ms': 500}, {'latency_ms': 20, 'end': {'ok': False, 'code': 9, 'msg': [], 'details': [], 'meta': []}, 'fail_before': True,
                                                           'msgs': [[9] * 40] if shape == 'unary' else []}, False)
        add('layer_failure', shape, {'fail_code': 8, 'timeout_ms': 50}, {}, False, hdr('50m'))
    return stims


def check(prop, tier, seed):
    t0 = time.time()
    core.build_harness()
    verdict = core.Verdict(prop)
    cov = {'traces_validated_against_impl': 0, 'samples': []}
    mc = []
    tag = f'{prop}_{tier}'
    fams = [('calls', simple.gen('call', seed, tier, tag))]
    if prop == 'C05':
        fams.append(('mock_responses', mock_stims(seed, tier)))
        fams.append(('negotiation_table', negotiation_stims(seed, tier, mc)))
        fams.append(('client_negotiation', client_negotiation_stims(seed, tier)))
    if prop == 'C02':
        fams.append(('wire_responses', wire_stims(seed, tier)))
        fams.append(('mock_statuses', mock_status_stims(seed, tier)))
        fams.append(('response_table', mock_table_stims(seed, tier, mc)))
        fams.append(('compressed_limits', compressed_limit_stims(seed, tier)))
        fams.append(('long_streams', long_stream_stims(seed, tier)))
    if prop == 'C08':
        fams.append(('mock_metadata', mock_metadata_stims(seed, tier)))
        fams.append(('calls2', simple.gen('call', seed + 77, tier, tag)))
    if prop == 'C06':
        fams = [('call_limits', limit_stims(seed, tier)), ('compressed_limits', compressed_limit_stims(seed, tier))]
    if prop == 'C05':
        # the frame-level clauses of C05 (flag without negotiated encoding => INTERNAL) on the decoder itself,
        # driven by the behaviours of the decoder Mechanism model (includes empty and short flagged frames)
        from . import p_framing
        stims = p_framing.dec_scripts(seed, tier, mc)
        ev, path = p_framing._run_lab('tlc_dec', stims, tag)
        res = core.tlc_trace('Trace_Framing', path, name='C05_tlc_dec')
        core.judge_trace(verdict, res, ev, prop_filter=lambda c: c in ('FlagWithoutEncodingIsInternal', 'AcceptedIffWithinLimit', 'NoSilentFailure', 'OnlyFramedMessages'), label='tlc_dec')
        cov['traces_validated_against_impl'] += res['stats'].get('runs', 0)
        cov.setdefault('trace_stats', {})['tlc_dec'] = res['stats']
    for label, stims in fams:
        ev, path = simple.run_lab('call', stims, tag, label, annotate=decomp.annotate)
        simple.validate(prop, 'Trace_Call', verdict, ev, path, label, cov, clause_filter=clause_filter(prop), harness_clauses=HARNESS)
        cov['samples'].append({'family': label, 'stimulus': simple.sample_of(stims)})
    extra = []
    if prop == 'C05':
        from . import p_web
        p_web.bridge_family(prop, tier, seed, verdict, cov, tag)
        single_feature_family(prop, tier, seed, verdict, cov, mc)
    if prop == 'C08':
        from . import p_meta
        p_meta.add_families(prop, tier, seed, verdict, cov, mc, tag)
    return simple.finish(prop, tier, seed, verdict, cov, mc, t0,
                         ['in-process runs tap both http bodies; h2 runs (one third) observe only the two API views',
                          'flagged payloads are decompressed by CPython zlib / zstd bulk API (trusted base)',
                          'metadata equality is per name, order-preserving; extra headers added by the transport are ignored (superset rule)'],
                         'vh call; tlc Trace_Call.cfg' + ('; tlc MC_Negotiation.cfg' if prop == 'C05' else '; tlc MC_Response.cfg' if prop == 'C02' else ''))


def replay(prop, path):
    core.build_harness()
    rows = core.read_ndjson(path)
    stims = [r['stim'] for r in rows if r.get('e') == 'reset' and not str(r.get('lab', '')).startswith('vhf:')]
    verdict = core.Verdict(prop)
    cov = {'traces_validated_against_impl': 0, 'samples': []}
    if stims:
        ev, p = simple.run_lab('call', stims, f'{prop}_replay', 'replay', annotate=decomp.annotate)
        simple.validate(prop, 'Trace_Call', verdict, ev, p, 'replay', cov, clause_filter=clause_filter(prop), harness_clauses=HARNESS)
    replay_vhf(prop, rows, verdict, cov)
    return verdict.finish()


def run_vhf(enc, stims, wd, name):
    """build harness_feat with the one feature `enc` and run raw-mode stimuli through it; returns (events, trace path)"""
    import subprocess, shutil
    feat = os.path.join(core.VERIF, 'harness_feat')
    lock = os.path.join(feat, 'Cargo.lock')
    if not os.path.exists(lock):
        shutil.copy(os.path.join(core.HARNESS, 'Cargo.lock') if os.path.exists(os.path.join(core.HARNESS, 'Cargo.lock')) else '/repo/Cargo.lock', lock)
    env = dict(os.environ, CARGO_NET_OFFLINE='true', CARGO_TARGET_DIR=os.path.join(feat, 'target', enc))
    p = subprocess.run(['cargo', 'build', '--offline', '-q', '--features', enc], cwd=feat, env=env, capture_output=True, text=True)
    if p.returncode != 0:
        raise ToolError(f'harness_feat --features {enc}: build failed\n' + p.stderr[-3000:])
    os.makedirs(wd, exist_ok=True)
    sp, tp = (os.path.join(wd, f'{name}.{x}.ndjson') for x in ('stim', 'trace'))
    core.write_ndjson(sp, stims)
    p = subprocess.run([os.path.join(feat, 'target', enc, 'debug', 'vhf'), sp, tp], capture_output=True, text=True, timeout=900)
    if p.returncode != 0:
        raise ToolError(f'vhf ({enc}) exited {p.returncode}: ' + p.stderr[-2000:])
    ev = core.read_ndjson(tp)
    decomp.annotate(ev)
    core.write_ndjson(tp, ev)
    return ev, tp


def replay_vhf(prop, rows, verdict, cov):
    """replay of runs recorded by harness_feat (reset rows whose lab is vhf:<enc>)"""
    for enc in ('gzip', 'deflate', 'zstd'):
        stims = [r['stim'] for r in rows if r.get('e') == 'reset' and r.get('lab') == f'vhf:{enc}']
        if stims:
            ev, tp = run_vhf(enc, stims, os.path.join(core.WORK, f'{prop}_replay'), f'only_{enc}')
            simple.validate(prop, 'Trace_Call', verdict, ev, tp, f'only_{enc}', cov, clause_filter=clause_filter(prop), harness_clauses=HARNESS)


def single_feature_family(prop, tier, seed, verdict, cov, mc):
    """The negotiation table again, in builds of tonic that have exactly ONE compression feature (harness_feat, built three times):
    the main harness has every cargo feature on, which masks whatever is conditioned on a single one.  Rows are restricted to
    servers configured with that one encoding; requests may still name or offer the others (unknown to such a build)."""
    rows = negotiation_stims(seed, tier, mc)
    tag = f'{prop}_{tier}'
    wd = os.path.join(core.WORK, tag)
    os.makedirs(wd, exist_ok=True)
    for enc in ('gzip', 'deflate', 'zstd'):
        stims = [dict(s, **{'class': f'only_{enc}_' + s['table']['class']}) for s in rows
                 if set(s['server']['send']) <= {enc} and set(s['server']['accept']) <= {enc} and s['raw']['comp'] in ('', enc)]
        stims = stims[:400 if tier == 'thorough' else 120]
        if len(stims) < 30:
            raise ToolError(f'single-feature family {enc}: only {len(stims)} rows')
        ev, tp = run_vhf(enc, stims, wd, f'only_{enc}')
        simple.validate(prop, 'Trace_Call', verdict, ev, tp, f'only_{enc}', cov, clause_filter=clause_filter(prop), harness_clauses=HARNESS)
    cov['samples'].append({'family': 'single_feature_builds', 'stimulus': 'the negotiation rows whose server is configured with one encoding, in builds with only that cargo feature'})
