"""C04: status <-> header codec, totality of reading headers, HTTP / HTTP2 classification tables.
Specs: Bytes, StatusCodec (Contract), MC_StatusCodec (table enumeration + oracle laws), Trace_Status."""
import time
from . import core, simple
from .core import ToolError


def check(prop, tier, seed):
    t0 = time.time()
    core.build_harness()
    verdict = core.Verdict(prop)
    cov = {'traces_validated_against_impl': 0, 'samples': []}
    mc = []
    tag = f'{prop}_{tier}'
    cfg = 'MC_StatusCodec_3.cfg' if tier == 'thorough' else 'MC_StatusCodec_2.cfg'
    rows, st = core.tlc_export('MC_StatusCodec', cfg, workers=4 if tier == 'thorough' else 1, timeout=1500)
    if not rows or st.get('distinct', 0) != len(rows):
        raise ToolError(f'MC_StatusCodec: exported {len(rows)} rows for {st.get("distinct")} states (oracle law violated?)')
    mc.append(st)
    fams = [('tlc_table', rows), ('seeded', simple.gen('status', seed, tier, tag))]
    for label, stims in fams:
        ev, path = simple.run_lab('status', stims, tag, label)
        simple.validate(prop, 'Trace_Status', verdict, ev, path, label, cov)
        cov['samples'].append({'family': label, 'stimulus': simple.sample_of(stims)})
    # classification through the generated client: canned responses (status in head / trailers / HTTP status only)
    from . import p_call, decomp
    mstims = p_call.mock_stims(seed, tier) + p_call.mock_table_stims(seed, tier, mc)
    mev, mpath = simple.run_lab('call', mstims, tag, 'mock_responses', annotate=decomp.annotate)
    simple.validate(prop, 'Trace_Call', verdict, mev, mpath, 'mock_responses', cov, clause_filter=p_call.clause_filter('C04'), harness_clauses=p_call.HARNESS)
    cov['samples'].append({'family': 'mock_responses', 'stimulus': simple.sample_of(mstims)})
    cov['exhaustive_tables'] = 'HTTP status 100..599 and HTTP/2 reasons 0..20 (+3 unknown) are enumerated completely on every run'
    return simple.finish(prop, tier, seed, verdict, cov, mc, t0,
                         ['the class alphabet stands for all bytes the percent-codec distinguishes; arbitrary Unicode is covered by seeded samples only',
                          'HTTP/2 reasons 5, 6, 13 and unknown ones are accepted as INTERNAL or UNKNOWN (the property does not pin them)',
                          'non-canonical base64 (wrong padding count / non-zero trailing bits) may either be decoded leniently or degrade to an error'],
                         'tlc MC_StatusCodec_*.cfg (oracle laws + table export); vh status; tlc Trace_Status.cfg')


def replay(prop, path):
    core.build_harness()
    stims = [r['stim'] for r in core.read_ndjson(path) if r.get('e') == 'reset']
    verdict = core.Verdict(prop)
    cov = {'traces_validated_against_impl': 0, 'samples': []}
    ev, p = simple.run_lab('status', stims, f'{prop}_replay', 'replay')
    simple.validate(prop, 'Trace_Status', verdict, ev, p, 'replay', cov)
    return verdict.finish()
