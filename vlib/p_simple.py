"""Properties decided by one lab + one Trace_* specification (optionally with TLC-exported stimuli)."""
import time
from . import core, simple

CONF = {
    'C12': dict(lab='intercept', trace='Trace_Intercept', gens=[('intercept', 0)],
                assumptions=['header comparison is per name and order-preserving per name; order across different names is not constrained',
                             'the response of an accepted call is not constrained by the property and not checked'],
                checker='vh intercept; tlc Trace_Intercept.cfg'),
}


def _filter(prop):
    return lambda c: c.startswith(prop + '.') or c in ('NoPanic', 'NoHang')


def check(prop, tier, seed, extra_families=None, mc=None):
    t0 = time.time()
    core.build_harness()
    cf = CONF[prop]
    verdict = core.Verdict(prop)
    cov = {'traces_validated_against_impl': 0, 'samples': []}
    mc = mc or []
    tag = f'{prop}_{tier}'
    fams = [(lab, simple.gen(lab, seed + off, tier, tag)) for lab, off in cf['gens']]
    if extra_families:
        fams += extra_families(prop, tier, seed, mc)
    for label, stims in fams:
        ev, path = simple.run_lab(cf['lab'], stims, tag, label, annotate=cf.get('annotate'))
        simple.validate(prop, cf['trace'], verdict, ev, path, label, cov, clause_filter=_filter(prop))
        cov['samples'].append({'family': label, 'stimulus': simple.sample_of(stims)})
    return simple.finish(prop, tier, seed, verdict, cov, mc, t0, cf['assumptions'], cf['checker'])


def replay(prop, path):
    core.build_harness()
    cf = CONF[prop]
    stims = [r['stim'] for r in core.read_ndjson(path) if r.get('e') == 'reset']
    verdict = core.Verdict(prop)
    cov = {'traces_validated_against_impl': 0, 'samples': []}
    ev, p = simple.run_lab(cf['lab'], stims, f'{prop}_replay', 'replay', annotate=cf.get('annotate'))
    simple.validate(prop, cf['trace'], verdict, ev, p, 'replay', cov, clause_filter=_filter(prop))
    return verdict.finish()
