"""Properties decided by one lab + one Trace_* specification (optionally with TLC-exported stimuli)."""
import time
from . import core, simple

CONF = {
    'C12': dict(lab='intercept', trace='Trace_Intercept', gens=[('intercept', 0)],
                assumptions=['header comparison is per name and order-preserving per name; order across different names is not constrained',
                             'the response of an accepted call is not constrained by the property and not checked'],
                checker='vh intercept; tlc Trace_Intercept.cfg'),
}


def routing_families(prop, tier, seed, mc):
    import random
    rows, st = core.tlc_export('MC_Routing', 'MC_Routing.cfg', workers=1, timeout=900)
    if st.get('distinct', 0) != len(rows):
        raise core.ToolError('MC_Routing: table export incomplete or TableOK violated')
    mc.append(st)
    rnd = random.Random(seed)
    disp = [r for r in rows if r['dispatches']]
    rest = [r for r in rows if not r['dispatches']]
    rnd.shuffle(disp)
    rnd.shuffle(rest)
    if tier != 'thorough':
        disp, rest = disp[:1500], rest[:3500]
    stims = [{'class': 'tlc_table', 'reg': r['reg'], 'path': r['path'], 'via': 'builder' if i % 2 else 'routes'} for i, r in enumerate(disp + rest)]
    # a quarter of the requests carry a gRPC content type with a subtype (application/grpc+proto, +json: what other gRPC stacks send): it is
    # a gRPC request all the same - dispatched or answered UNIMPLEMENTED exactly as with the bare type
    for i, st in enumerate(stims):
        if i % 4 == 1:
            st['ctype'] = ('application/grpc+proto', 'application/grpc+json')[(i // 4) % 2]
    # a fifth of the requests (and a few of those that dispatch) keep their body open after the message: the caller has not half-closed
    for i, st in enumerate(stims):
        if (i >= len(disp) and i % 5 == 3) or (i < len(disp) and i % 100 == 7):
            st['body'] = 'open'
    # the same table through tonic::transport::Server's router: add_service / add_optional_service(Some) for the registered
    # names, add_optional_service(None) for others at random positions, served over a pipe to a bare h2 client
    names = ['a.S', 'a.S2', 'S', 'a.b.S', 'a.s']
    plans = []
    for r in rnd.sample(disp, min(len(disp), 250 if tier != 'thorough' else 1500)) + rnd.sample(rest, min(len(rest), 350 if tier != 'thorough' else 2500)):
        if not r['reg']:
            continue
        plan = [{'name': n, 'how': rnd.choice(['add', 'some'])} for n in r['reg']]
        for n in names:
            if n not in r['reg'] and rnd.random() < 0.5:
                plan.insert(rnd.randint(0, len(plan)), {'name': n, 'how': 'none'})
        if rnd.random() < 0.3:      # the first k registered services arrive as a prepared Routes value through Server::add_routes
            k = rnd.randint(1, len(r['reg']))
            plan = [{'name': '', 'how': 'routes', 'names': r['reg'][:k]}] + [st for st in plan if st['name'] not in r['reg'][:k]]
        plans.append({'class': 'server_plan', 'reg': r['reg'], 'plan': plan, 'path': r['path'], 'via': 'server'})
        if not r['dispatches'] and len(plans) % 4 == 1:
            plans[-1]['body'] = 'open'
        if len(plans) % 3 == 2:
            plans[-1]['ctype'] = 'application/grpc+proto'
    # the long-named service (method paths of 63, 64, 65, 128, 129 and 300 bytes) alone and next to a.S: its own table, all of it
    lrows, lst = core.tlc_export('MC_Routing', 'MC_Routing_long.cfg', workers=1, timeout=900, name='MC_Routing_long')
    if lst.get('distinct', 0) != len(lrows):
        raise core.ToolError('MC_Routing_long: table export incomplete or TableOK violated')
    mc.append(lst)
    longs = []
    for i, r in enumerate(lrows):
        st = {'class': 'long_names', 'reg': r['reg'], 'path': r['path'], 'via': ('builder', 'routes', 'server')[i % 3]}
        if st['via'] == 'server':
            if not r['reg']:
                st['via'] = 'routes'
            else:
                st['plan'] = [{'name': n, 'how': 'add'} for n in r['reg']]
        longs.append(st)
    return [('routing_table', stims), ('server_plans', plans), ('long_names', longs)]


CONF['C10'] = dict(lab='routing', trace='Trace_Routing', gens=[], extra=routing_families,
                   assumptions=['five generated services (a.S, a.S2, S, a.b.S, a.s) x three methods stand for all name shapes: shared prefixes, no package, nested package, case variants',
                                'every subset is registered in up to three orders (ascending, descending, rotated), through Routes::add_service and RoutesBuilder, and (sampled) through Server::add_service / add_optional_service(Some | None) served to a bare h2 client',
                                'paths that http::Uri refuses to parse never reach tonic and are counted, not judged'],
                   checker='tlc MC_Routing.cfg (27 084-point table); vh routing; tlc Trace_Routing.cfg')


CONF['C20'] = dict(lab='richerr', trace='Trace_RichErr', gens=[('richerr', 0)],
                   assumptions=['field values are compared in a canonical projection (strings as bytes, metadata maps sorted by key) that the harness applies identically to the attached and the recovered details',
                                'the embedded google.rpc.Status is read by the specification\'s own protobuf reader (Bytes!ProtoParse)',
                                'for undecodable details the property only demands "an error or an empty result, never a panic"'],
                   checker='vh richerr; tlc Trace_RichErr.cfg')


def _filter(prop):
    return lambda c: c.startswith(prop + '.') or c in ('NoPanic', 'NoHang')


def check(prop, tier, seed, extra_families=None, mc=None):
    t0 = time.time()
    core.build_harness()
    cf = CONF[prop]
    verdict = core.Verdict(prop)
    cov = {'traces_validated_against_impl': 0, 'samples': []}
    mc = mc or []
    tag = f'{prop}_{tier}'
    fams = [(lab, simple.gen(lab, seed + off, tier, tag)) for lab, off in cf['gens']]
    extra_families = extra_families or cf.get('extra')
    if extra_families:
        fams += extra_families(prop, tier, seed, mc)
    for label, stims in fams:
        ev, path = simple.run_lab(cf['lab'], stims, tag, label, annotate=cf.get('annotate'))
        simple.validate(prop, cf['trace'], verdict, ev, path, label, cov, clause_filter=_filter(prop))
        cov['samples'].append({'family': label, 'stimulus': simple.sample_of(stims)})
    return simple.finish(prop, tier, seed, verdict, cov, mc, t0, cf['assumptions'], cf['checker'])


def replay(prop, path):
    core.build_harness()
    cf = CONF[prop]
    stims = [r['stim'] for r in core.read_ndjson(path) if r.get('e') == 'reset']
    verdict = core.Verdict(prop)
    cov = {'traces_validated_against_impl': 0, 'samples': []}
    ev, p = simple.run_lab(cf['lab'], stims, f'{prop}_replay', 'replay', annotate=cf.get('annotate'))
    simple.validate(prop, cf['trace'], verdict, ev, p, 'replay', cov, clause_filter=_filter(prop))
    return verdict.finish()
