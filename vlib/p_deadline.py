"""C09: grpc-timeout codec (Deadline.tla, MC_Deadline table) and shortest-deadline enforcement in virtual
time (DeadlineRace.tla model checked; the full (Tc, Ts, Te, L) grid replayed over real h2 on a paused runtime)."""
import time
from . import core, simple
from .core import ToolError


def grid(tier):
    """caller grpc-timeout x Server::timeout x Endpoint::timeout x handler latency, in ms (None = not set)."""
    out = []
    ts = [None, 1000, 2000, 3000]
    lat = [0, 500, 1000, 1500, 2000, 2500, 3000, 3500]
    for tc in ts:
        for tsrv in ts:
            for te in ([None, 1000, 3000] if tier == 'thorough' else [None, 2000]):
                for L in lat:
                    if te is not None and (tc is not None and tsrv is not None):
                        continue
                    client = {'send': '', 'accept': [], 'max_dec': -1, 'max_enc': -1}
                    server = {'send': [], 'accept': [], 'max_dec': -1, 'max_enc': -1}
                    if tc is not None:
                        client['timeout_ms'] = tc
                    if te is not None:
                        client['endpoint_timeout_ms'] = te
                    if tsrv is not None:
                        server['timeout_ms'] = tsrv
                    out.append({'mode': 'client', 'class': 'deadline', 'transport': 'h2', 'shim': {'cap': 65536, 'rq': 65536, 'wq': 65536, 'pend': 0},
                                'shape': 'unary', 'server': server, 'client': client, 'req': {'meta': [], 'msgs': [[1]]},
                                'script': {'init_meta': [], 'msgs': [[2]], 'end': {'ok': True}, 'fail_before': False, 'no_compress': False, 'latency_ms': L}})
    # the same deadlines for calls whose content type carries a subtype (application/grpc+proto)
    for tc, tsrv, L in ((1000, None, 2500), (None, 1000, 2500), (2000, 1000, 1500), (1000, None, 500), (None, None, 1500)):
        client = {'send': '', 'accept': [], 'max_dec': -1, 'max_enc': -1, 'ctype': 'application/grpc+proto'}
        server = {'send': [], 'accept': [], 'max_dec': -1, 'max_enc': -1}
        if tc is not None:
            client['timeout_ms'] = tc
        if tsrv is not None:
            server['timeout_ms'] = tsrv
        out.append({'mode': 'client', 'class': 'deadline_content_subtype', 'transport': 'h2', 'shim': {'cap': 65536, 'rq': 65536, 'wq': 65536, 'pend': 0},
                    'shape': 'unary', 'server': server, 'client': client, 'req': {'meta': [], 'msgs': [[1]]},
                    'script': {'init_meta': [], 'msgs': [[2]], 'end': {'ok': True}, 'fail_before': False, 'no_compress': False, 'latency_ms': L}})
    # a peer that never answers and knows nothing about grpc-timeout: only the client's own timer (armed from the caller's
    # timeout and / or Endpoint::timeout) can end the call; latency is "infinite" (the contract's L is set beyond every timeout)
    for tc, te in ((1000, None), (None, 2000), (1000, 2000), (3000, 2000)):
        client = {'send': '', 'accept': [], 'max_dec': -1, 'max_enc': -1}
        if tc is not None:
            client['timeout_ms'] = tc
        if te is not None:
            client['endpoint_timeout_ms'] = te
        out.append({'mode': 'client', 'class': 'deadline_blackhole_peer', 'transport': 'h2', 'shim': {'cap': 65536, 'rq': 65536, 'wq': 65536, 'pend': 0},
                    'shape': 'unary', 'server': {'send': [], 'accept': [], 'max_dec': -1, 'max_enc': -1, 'blackhole': True}, 'client': client, 'req': {'meta': [], 'msgs': [[1]]},
                    'script': {'init_meta': [], 'msgs': [[2]], 'end': {'ok': True}, 'fail_before': False, 'no_compress': False, 'latency_ms': 100000}})
    # zero timeouts (a boundary of the grid): with a handler that needs time the call is cut off at once
    for tc, tsrv, te in ((0, None, None), (None, 0, None), (None, None, 0), (0, 1000, None), (2000, 0, None)):
        for L in (500, 1500):
            client = {'send': '', 'accept': [], 'max_dec': -1, 'max_enc': -1}
            server = {'send': [], 'accept': [], 'max_dec': -1, 'max_enc': -1}
            if tc is not None:
                client['timeout_ms'] = tc
            if te is not None:
                client['endpoint_timeout_ms'] = te
            if tsrv is not None:
                server['timeout_ms'] = tsrv
            out.append({'mode': 'client', 'class': 'deadline_zero', 'transport': 'h2', 'shim': {'cap': 65536, 'rq': 65536, 'wq': 65536, 'pend': 0},
                        'shape': 'unary', 'server': server, 'client': client, 'req': {'meta': [], 'msgs': [[1]]},
                        'script': {'init_meta': [], 'msgs': [[2]], 'end': {'ok': True}, 'fail_before': False, 'no_compress': False, 'latency_ms': L}})
    # deadline x call shape: the handler of every shape takes L before it answers (the streaming shapes then stream two messages)
    for shape in ('cstream', 'sstream', 'bidi'):
        for tc, tsrv in ((1000, None), (None, 1000), (2000, 1000), (None, None)):
            for L in ([0, 500, 1500] if tier != 'thorough' else lat):
                client = {'send': '', 'accept': [], 'max_dec': -1, 'max_enc': -1}
                server = {'send': [], 'accept': [], 'max_dec': -1, 'max_enc': -1}
                if tc is not None:
                    client['timeout_ms'] = tc
                if tsrv is not None:
                    server['timeout_ms'] = tsrv
                single = shape == 'cstream'
                out.append({'mode': 'client', 'class': 'deadline_shapes', 'transport': 'h2', 'shim': {'cap': 65536, 'rq': 65536, 'wq': 65536, 'pend': 0},
                            'shape': shape, 'server': server, 'client': client, 'req': {'meta': [], 'msgs': [[1]] if shape == 'sstream' else [[1], [2]]},
                            'script': {'init_meta': [], 'msgs': [[2]] if single else [[2], [3]], 'end': {'ok': True}, 'fail_before': False, 'no_compress': False, 'latency_ms': L}})
    # a malformed grpc-timeout is ignored: the configured timeouts still apply (header bytes injected below the client API)
    for raw in (b'5x', b'123456789n', b'soonS', b'', b'1 S', b'-1S', b'1s', '5\u00b5'.encode(), '\u20ac'.encode()):
        for tsrv in [None, 1000]:
            for te in [None, 2000]:
                for L in ([0, 500, 1500, 2500] if tier != 'thorough' else lat):
                    client = {'send': '', 'accept': [], 'max_dec': -1, 'max_enc': -1, 'raw_timeout': list(raw)}
                    server = {'send': [], 'accept': [], 'max_dec': -1, 'max_enc': -1}
                    if te is not None:
                        client['endpoint_timeout_ms'] = te
                    if tsrv is not None:
                        server['timeout_ms'] = tsrv
                    out.append({'mode': 'client', 'class': 'deadline_malformed_header', 'transport': 'h2', 'shim': {'cap': 65536, 'rq': 65536, 'wq': 65536, 'pend': 0},
                                'shape': 'unary', 'server': server, 'client': client, 'req': {'meta': [], 'msgs': [[1]]},
                                'script': {'init_meta': [], 'msgs': [[2]], 'end': {'ok': True}, 'fail_before': False, 'no_compress': False, 'latency_ms': L}})
    # same tick: latency and timeout differ by less than the runtime's timer granularity (1 ms) - the handler still finishes first
    # (only the server-side timeout: there the handler and the timer are two arms of one future; a client-side timer races with the
    # response's way back through the transport, and with a 1 ms timer wheel the handler's own sleep really ends after a sub-millisecond deadline)
    for lat_us, t_us, where in ((200, 900, 'server'), (1200, 1900, 'server'), (100, 101, 'server'), (2300, 2999, 'server'), (1, 999, 'server'), (5400, 5900, 'server')):
        for shape in ('unary', 'sstream'):
            client = {'send': '', 'accept': [], 'max_dec': -1, 'max_enc': -1}
            server = {'send': [], 'accept': [], 'max_dec': -1, 'max_enc': -1}
            (client if where == 'client' else server)['timeout_us'] = t_us
            out.append({'mode': 'client', 'class': 'deadline_same_tick', 'transport': 'h2', 'shim': {'cap': 65536, 'rq': 65536, 'wq': 65536, 'pend': 0}, 'same_tick': True, 'min_timeout_us': t_us,
                        'shape': shape, 'server': server, 'client': client, 'req': {'meta': [], 'msgs': [[1]]},
                        'script': {'init_meta': [], 'msgs': [[2]], 'end': {'ok': True}, 'fail_before': False, 'no_compress': False, 'latency_us': lat_us}})
    # the order of builder calls must not matter: a tower layer is added to the server builder before / after the timeout is set
    k = 0
    for st in out:
        if not st['server'].get('blackhole'):
            st['server']['layer'] = ('none', 'after_timeout', 'before_timeout')[k % 3]
            st['server']['earlier_conns'] = (0, 0, 1, 0, 2)[k % 5]
            if k % 4 == 3 and not st.get('same_tick'):
                st['client']['idle_ms'] = 5000      # the channel was connected five seconds before its first call      # the connection under test is the server's first, second or third
            k += 1
    return out


def check(prop, tier, seed):
    t0 = time.time()
    core.build_harness()
    verdict = core.Verdict(prop)
    cov = {'traces_validated_against_impl': 0, 'samples': []}
    mc = []
    tag = f'{prop}_{tier}'
    # (A) the timer race
    r = core.tlc_mc('DeadlineRace', 'MC_DeadlineRace.cfg', workers=4)
    if r.get('violated') or r.get('never_taken'):
        raise ToolError(f'DeadlineRace: {r.get("violated")} {r.get("never_taken")}\n' + r.get('output_tail', '')[-2000:])
    mc.append(r)
    mc.append(core.tlc_mc('DeadlineRace', 'MC_DeadlineRace_max.cfg', workers=4, expect_violation='ShortestDeadline'))
    # (B) structure-exhaustive table
    rows, st = core.tlc_export('MC_Deadline', 'MC_Deadline.cfg', workers=1, timeout=600)
    if st.get('distinct', 0) != len(rows):
        raise ToolError('MC_Deadline: export incomplete / oracle law violated')
    mc.append(st)
    table = []
    for r in rows:
        if r['kind'] == 'parse':
            table.append({'kind': 'parse', 'class': 'tlc_structure', 'value': r['value'], 'extra_header': False})
        else:
            d = r['total']
            table.append({'kind': 'encode', 'class': 'tlc_boundary', 'secs': d[:-9] if len(d) > 9 else [0], 'nanos': int(''.join(map(str, d[-9:])))})
    fams = [('deadline', 'tlc_table', table), ('deadline', 'seeded', simple.gen('deadline', seed, tier, tag)), ('call', 'enforcement_grid', grid(tier))]
    for lab, label, stims in fams:
        ev, path = simple.run_lab(lab, stims, tag, label)
        simple.validate(prop, 'Trace_Deadline', verdict, ev, path, label, cov, clause_filter=lambda c: c.startswith('C09.') or c in ('NoPanic', 'NoHang'))
        cov['samples'].append({'family': label, 'stimulus': simple.sample_of(stims)})
    # deadlines of calls that wait for a permit of the server's per-connection concurrency limit (Admission.tla)
    from . import p_admission
    p_admission.add_family(prop, tier, seed, verdict, cov, mc, tag)
    return simple.finish(prop, tier, seed, verdict, cov, mc, t0,
                         ['a single leading "+" in a header value is left unconstrained (grpc-go / grpc-java accept it too)',
                          'at an exact tie (latency = deadline) either outcome is accepted',
                          'virtual time: tokio paused clock on a current-thread runtime; the h2 transport adds no virtual latency'],
                         'tlc MC_DeadlineRace*.cfg, MC_Deadline.cfg; vh deadline / vh call (h2, paused clock); tlc Trace_Deadline.cfg')


def replay(prop, path):
    core.build_harness()
    rows = core.read_ndjson(path)
    stims = [r['stim'] for r in rows if r.get('e') == 'reset']
    lab = rows[0].get('lab', 'deadline')
    verdict = core.Verdict(prop)
    cov = {'traces_validated_against_impl': 0, 'samples': []}
    ev, p = simple.run_lab(lab, stims, f'{prop}_replay', 'replay')
    simple.validate(prop, 'Trace_Admission' if lab == 'admission' else 'Trace_Deadline', verdict, ev, p, 'replay', cov, clause_filter=lambda c: c.startswith('C09.') or c in ('NoPanic', 'NoHang'))
    return verdict.finish()
