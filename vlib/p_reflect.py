"""C19: reflection. Specs: Reflection (symbol table of a descriptor set, computed in TLA+), ReflStream (one stream: worker + capacity-1 channel), Trace_Reflect."""
import random, time
from . import core, simple


def nm(s):
    return {'name': s, 'nb': list(s.encode())}


def gen_enum(rnd, i):
    return dict(nm(f'E{i}'), values=[nm(f'V{i}{j}') for j in range(rnd.randint(0, 2))])


def gen_msg(rnd, depth, i):
    m = dict(nm(rnd.choice(['M', 'Msg', 'm_x', 'N']) + str(i)), fields=[nm(f'f{j}') for j in range(rnd.randint(0, 2))],
             oneofs=[nm('o')] if rnd.random() < 0.3 else [], enums=[gen_enum(rnd, i)] if rnd.random() < 0.4 else [], nested=[])
    # proto3 `optional` fields: each gets a synthetic oneof `_<field>`, listed after the real oneofs (as protoc does)
    if m['fields'] and rnd.random() < 0.35:
        if rnd.random() < 0.5 and not m['oneofs']:
            m['oneofs'] = [nm('kind')]
        for f in m['fields'][:rnd.randint(1, len(m['fields']))]:
            f['opt'] = True
            m['oneofs'].append(nm('_' + f['name']))
    if depth > 0:
        m['nested'] = [gen_msg(rnd, depth - 1, 10 * i + j) for j in range(rnd.randint(0, 2))]
    return m


def names_of(f, siblings=True):
    """all names a file plausibly declares (only used to pick queries; the verdict is the specification's)"""
    out = []
    def j(p, n): return n if not p else p + '.' + n
    def en(p, e):
        q = j(p, e['name']); out.append(q); out.extend(j(q, v['name']) for v in e['values'])
        if siblings:
            out.extend(j(p, v['name']) for v in e['values'])
    def msg(p, m):
        q = j(p, m['name']); out.append(q)
        out.extend(j(q, x['name']) for x in m['fields'] + m['oneofs'])
        for e in m['enums']: en(q, e)
        for n in m['nested']: msg(q, n)
    for m in f['messages']: msg(f['package'], m)
    for e in f['enums']: en(f['package'], e)
    for s in f['services']:
        q = j(f['package'], s['name']); out.append(q); out.extend(j(q, x['name']) for x in s['methods'])
    return out


def gen(seed, tier):
    rnd = random.Random(seed + 19)
    out = []
    n = 600 if tier == 'thorough' else 100
    for k in range(n):
        files = []
        many = k % 40 == 39      # scale: now and then a registry of 25 files in 25 packages
        for fi in range(25 if many else rnd.randint(1, 2)):
            pkg = f'big.p{fi}' if many else rnd.choice(['', 'p', 'p.q', 'other'])
            f = {'name': f'f{fi}_{k}.proto', 'nb': list(f'f{fi}_{k}.proto'.encode()), 'package': pkg, 'pkgb': list(pkg.encode()),
                 'messages': [gen_msg(rnd, 3 if tier == 'thorough' else 2, 10 * fi + i) for i in range(rnd.randint(0, 2))],
                 'enums': [gen_enum(rnd, 90 + fi)] if rnd.random() < 0.4 else [],
                 'services': [dict(nm(f'S{fi}{i}'), methods=[nm(f'Get{j}') for j in range(rnd.randint(0, 2))]) for i in range(rnd.randint(0, 2))]}
            files.append(f)
        cands = []
        for f in files:
            cands += names_of(f)
        qs = []
        for c in cands:
            qs.append(c)
            if rnd.random() < 0.3:
                qs.append(rnd.choice(['.' + c, c + 'x', 'x' + c, c.swapcase(), c + '.', c.rsplit('.', 1)[0] + '.zz', c[:-1]]))
        qs += ['', 'nope', 'p', 'p.q', '.']
        queries = [{'kind': 'symbol', 'arg': q, 'argb': list(q.encode())} for q in qs if q.isascii()]
        for f in files:
            queries.append({'kind': 'file', 'arg': f['name'], 'argb': f['nb']})
            queries.append({'kind': 'file', 'arg': 'x' + f['name'], 'argb': list(('x' + f['name']).encode())})
        # the same string through the other kind of lookup, after the lookup that finds it (a symbol is not a file name and a file
        # name is not a symbol, whatever was asked before), and a few lookups a second time (the second answer is the first answer)
        for c in [c for c in cands if c.isascii()][:12]:
            queries.append({'kind': 'file', 'arg': c, 'argb': list(c.encode())})
        for f in files:
            queries.append({'kind': 'symbol', 'arg': f['name'], 'argb': f['nb']})
        queries += [dict(q) for q in queries[:10]]
        queries.append({'kind': 'list', 'arg': '', 'argb': []})
        svcs = [(f['package'] + '.' if f['package'] else '') + s['name'] for f in files for s in f['services']]
        chosen = rnd.sample(svcs, rnd.randint(1, len(svcs))) if svcs and rnd.random() < 0.3 else []
        if chosen and rnd.random() < 0.5:      # a chosen name need not be declared by any registered file (a service served without its descriptor)
            chosen.insert(rnd.randint(0, len(chosen)), 'ops.v1.Probe')
        nf = len(files)
        mode = rnd.choice(['single', 'single', 'whole_dup', 'partial_dup', 'split'])
        if mode == 'single' or nf == 0:
            sets = [list(range(nf))]
        elif mode == 'whole_dup':
            sets = [list(range(nf)), list(range(nf))]
        elif mode == 'partial_dup':      # a later set repeats an already registered file and then brings a new one
            sets = [[0], list(range(nf))] if nf > 1 else [[0], [0]]
        else:
            sets = [[i] for i in range(nf)]
        out.append({'class': 'descriptor_set', 'files': files, 'sets': sets, 'dup': mode in ('whole_dup', 'partial_dup'), 'encoded': rnd.random() < 0.5, 'include_reflection': rnd.random() < 0.6,
                    'chosen': chosen, 'chosen_b': [list(c.encode()) for c in chosen], 'queries': queries})
    return out


def session_stims(seed, tier, rows):
    """Sessions exported from ReflStream.tla (client scripts over S/R/C/E with H/M query patterns) bound to concrete queries."""
    rnd = random.Random(seed + 1919)
    bases = [b for b in gen(seed + 7, 'quick') if any(names_of(f) for f in b['files'])][:12]
    out = []
    per = 12
    rows = sorted(rows, key=lambda r: (len(r['qs']), r['qs'], r['script']))
    rnd.shuffle(rows)
    for k in range(0, len(rows), per):
        base = dict(bases[(k // per) % len(bases)])
        hits = [{'kind': 'symbol', 'arg': n, 'argb': list(n.encode())} for f in base['files'] for n in names_of(f, siblings=False)[:40]]
        hits += [{'kind': 'file', 'arg': f['name'], 'argb': f['nb']} for f in base['files']] + [{'kind': 'list', 'arg': '', 'argb': []}]
        misses = [{'kind': 'symbol', 'arg': q, 'argb': list(q.encode())} for q in ('nope', 'zz.Unknown', 'M0x')] + [{'kind': 'file', 'arg': 'unknown.proto', 'argb': list(b'unknown.proto')}]
        sessions = []
        for r in rows[k:k + per]:
            qs = [dict(rnd.choice(hits if c == 'H' else misses), want=c) for c in r['qs']]
            script = list(r['script'])
            if rnd.random() < 0.3:      # let the worker run between client steps
                script = [x for st in script for x in ((st, 'Y') if rnd.random() < 0.5 else (st,))]
            sessions.append({'queries': qs, 'script': script, 'pattern': r['qs']})
        base.update({'class': 'stream_session', 'queries': [], 'sessions': sessions})
        out.append(base)
    return out


def check(prop, tier, seed):
    t0 = time.time()
    core.build_harness()
    verdict = core.Verdict(prop)
    cov = {'traces_validated_against_impl': 0, 'samples': []}
    tag = f'{prop}_{tier}'
    stims = gen(seed, tier)
    ev, path = simple.run_lab('reflect', stims, tag, 'descriptor_sets')
    simple.validate(prop, 'Trace_Reflect', verdict, ev, path, 'descriptor_sets', cov, clause_filter=lambda c: c.startswith('C19.') or c in ('NoPanic', 'NoHang'))
    # ---- the stream dimension: ReflStream.tla (worker + capacity-1 channel), model checked, must-violate deviation, scripts replayed
    mc = []
    r = core.tlc_mc('MC_ReflStream', 'MC_ReflStream.cfg', workers=4, timeout=600)
    if r.get('violated') or [a for a in r.get('never_taken', []) if a != 'WorkerGiveUp']:
        raise core.ToolError(f'ReflStream: {r.get("violated")} {r.get("never_taken")}\n' + r.get('output_tail', '')[-2500:])
    mc.append(r)
    mc.append(core.tlc_mc('MC_ReflStream', 'MC_ReflStream_trysend.cfg', workers=4, timeout=600, expect_violation='Contract', check_actions=False))
    # unbounded: TLAPS proof that answers come in the order of the queries and nothing follows an error, for sessions of any length
    pr = core.tlapm_check('ReflStreamProof', ['ReflStream'])
    if not pr['ok']:
        raise core.ToolError('tlapm: the proof that ReflStream.tla keeps answers in order (ReflStreamProof.tla) no longer goes through:\n' + pr.get('output_tail', ''))
    cov['tlaps_proof'] = {'theorem': 'Spec => [](AnswersInOrder /\\ NothingAfterError) for all Sessions', 'obligations_proved': pr['obligations'], 'wall_s': pr['wall_s']}
    if tier == 'thorough':
        neg = core.tlapm_check('ReflStreamProof', ['ReflStream'], name='ReflStreamProof_neg',
                               mutate=lambda t: t.replace('/\\ \\A k \\in 1..P : qs[k] = "M" => (k = P /\\ w.pc \\in {"send", "done"})', '/\\ TRUE'))
        if neg['ok']:
            raise core.ToolError('tlapm proved NothingAfterError without the invariant clause that carries it: the proof is vacuous')
        cov['tlaps_proof']['without_the_error_clause_of_the_invariant'] = 'proof fails (as it must)'
    rows, st = core.tlc_export('Gen_ReflStream', 'Gen_ReflStream_big.cfg' if tier == 'thorough' else 'Gen_ReflStream.cfg', workers=1, timeout=600)
    mc.append(st)
    sst = session_stims(seed, tier, rows)
    ev2, path2 = simple.run_lab('reflect', sst, tag + '_sess', 'stream_sessions')
    simple.validate(prop, 'Trace_Reflect', verdict, ev2, path2, 'stream_sessions', cov, clause_filter=lambda c: c.startswith('C19.') or c in ('NoPanic', 'NoHang'))
    cov['stream_sessions'] = sum(len(x['sessions']) for x in sst)
    cov['samples'].append({'family': 'stream_sessions', 'stimulus': simple.sample_of(sst)})
    cov['queries'] = sum(len(s['queries']) for s in stims)
    cov['samples'].append({'family': 'descriptor_sets', 'stimulus': simple.sample_of(stims)})
    return simple.finish(prop, tier, seed, verdict, cov, mc, t0,
                         ['the enum-value spelling in the enclosing scope (pkg.V instead of pkg.E.V) is excluded from the negative set: protobuf scoping would declare it, the statement does not choose',
                          'names in tonic\'s own grpc.reflection namespace are not constrained',
                          '"decodes to what was registered" is prost equality of the decoded FileDescriptorProto with the registered one (projection)'],
                         'tlc MC_ReflStream.cfg + MC_ReflStream_trysend.cfg (must violate) + Gen_ReflStream.cfg (scripts); tlapm ReflStreamProof.tla; vh reflect; tlc Trace_Reflect.cfg')


def replay(prop, path):
    core.build_harness()
    stims = [r['stim'] for r in core.read_ndjson(path) if r.get('e') == 'reset']
    verdict = core.Verdict(prop)
    cov = {'traces_validated_against_impl': 0, 'samples': []}
    ev, p = simple.run_lab('reflect', stims, f'{prop}_replay', 'replay')
    simple.validate(prop, 'Trace_Reflect', verdict, ev, p, 'replay', cov, clause_filter=lambda c: c.startswith('C19.') or c in ('NoPanic', 'NoHang'))
    return verdict.finish()
