---------------------------- MODULE Trace_Balance ----------------------------
(* Contract-level trace validation of calls on a load-balanced channel (Channel::balance_channel), the part of C14 that reads
   the same for any channel: every call completes with a definite result - a response, or an UNAVAILABLE-class error while
   some configured endpoint cannot be (or could not be) connected - and once every endpoint is reachable again calls succeed.
   What is particular to balancing (which endpoint answers, what a Remove does) is left to the Mechanism model Balance.tla
   (Trace_BalanceMech), whose mismatches are reported as drift, not as violations.
   Monitor state: want (key -> server), up (servers accepting), sus (keys whose endpoint may still hold the error of a dial
   that failed: its server was down when some call was processed, and no call has been answered by it since).            *)
EXTENDS Naturals, Sequences, FiniteSets, TLC, TraceKit
BKeys == {"k1", "k2"}
NoSrv == "-"
Fresh(stim) == [stim |-> stim, want |-> [k \in BKeys |-> NoSrv], up |-> { stim.up0[i] : i \in 1..Len(stim.up0) }, sus |-> {}, ncalls |-> 0]
Keys == {"runs", "calls_ok", "calls_unavailable", "calls_pending", "possibly_stale_failures", "recoveries"}
Init == InitK(Fresh([up0 |-> <<>>]), Keys)
Reset == ResetK(Fresh(E.stim)) /\ Count({"runs"})
Wanted(w) == { w[k] : k \in BKeys } \ {NoSrv}
Env == /\ Live("env") /\ UNCHANGED stats
       /\ JudgeK(<< <<"HarnessOK", E.sent>> >>,
                 CASE E.op = "insert" -> [s EXCEPT !.want[E.key] = E.srv, !.sus = @ \ {E.key}]
                   [] E.op = "remove" -> [s EXCEPT !.want[E.key] = NoSrv, !.sus = @ \ {E.key}]
                   [] E.op = "down" -> [s EXCEPT !.up = @ \ {E.srv}]
                   [] E.op = "up" -> [s EXCEPT !.up = @ \cup {E.srv}]
                   [] OTHER -> s)
Call == /\ Live("call")
        /\ LET live == { k \in BKeys : s.want[k] # NoSrv }
               downNow == { k \in live : s.want[k] \notin s.up }
               \* every endpoint is polled while this call is processed; a plain single-endpoint channel (stim.single) has no other call
               \* a failed dial could be left for: "once the endpoint is reachable again the next call succeeds"
               sus1 == IF "single" \in DOMAIN s.stim /\ s.stim.single THEN downNow ELSE s.sus \cup downNow
               clean == live # {} /\ sus1 = {} IN
           /\ JudgeK(<< <<"C14.EveryCallCompletes", (E.res = "pending") => live = {}>>,
                        \* (real sockets, real time: a call can be dispatched onto an established connection whose server is just going down - it is
                        \* then cut off in flight, with whatever status the transport error maps to; the statement's "UNAVAILABLE-class error while
                        \* no connection can be made" is about attempts to connect, and is silent about a call that dies with its connection)
                        <<"C14.DefiniteResult", E.res \in {"ok", "unavailable", "pending"} \/ (E.res = "other" /\ downNow # {})>>,
                        <<"C14.SucceedsWhenEveryEndpointReachable", clean => E.res = "ok">>,
                        <<"C14.UnavailableOnlyWithAFailedDial", E.res = "unavailable" => sus1 # {}>> >>,
                     [s EXCEPT !.sus = IF E.res = "ok" THEN { k \in sus1 : s.want[k] # E.by } ELSE sus1, !.ncalls = @ + 1])
           /\ Count((IF E.res = "ok" THEN {"calls_ok"} ELSE IF E.res = "unavailable" THEN {"calls_unavailable"} ELSE {"calls_pending"})
                    \cup (IF E.res = "unavailable" /\ downNow = {} THEN {"possibly_stale_failures"} ELSE {})
                    \cup (IF E.res = "ok" /\ s.sus # {} /\ downNow = {} THEN {"recoveries"} ELSE {}))
End == EndK(<< <<"RunComplete", E.outcome = "ok" => s.ncalls = Cardinality({ i \in 1..Len(s.stim.script) : s.stim.script[i].op = "call" })>> >>)
Known == {"reset", "env", "call", "end"}
Next == Reset \/ Env \/ Call \/ End \/ UnknownK(Known) \/ DeadSkipK
Spec == Init /\ [][Next]_kvars
=============================================================================
