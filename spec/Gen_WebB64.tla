----------------------------- MODULE Gen_WebB64 -----------------------------
(* Pattern B export for C16 (request direction): every (text shape, chunking) behaviour of WebB64 with the outcome the
   model predicts; replayed on the real GrpcWebService with "D" -> 'A'. *)
EXTENDS WebB64, Json
VARIABLE chunks
GInit == Init /\ chunks = <<>>
GNext == \/ Decode /\ UNCHANGED chunks
         \/ \E k \in 1..12 : Arrive(k) /\ chunks' = Append(chunks, k)
         \/ Eof /\ UNCHANGED chunks
GSpec == GInit /\ [][GNext]_<<vars, chunks>>
Export == (st \in {"err", "end"}) => PrintT(<<"SCRIPT", ToJson([text |-> text, chunks |-> chunks, st |-> st, out |-> out])>>)
=============================================================================
