SPECIFICATION Spec
CONSTANTS
  SvcU = {"a.S", "a.S2", "S", "a.b.S", "a.s"}
  MethU = {"M", "M2", "m"}
INVARIANTS TableOK Export
CHECK_DEADLOCK FALSE
