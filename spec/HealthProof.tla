---------------------------- MODULE HealthProof ----------------------------
(* TLAPS proof that the Mechanism model of tonic-health (Health.tla) satisfies its two safety clauses for ANY set of
   services and statuses and any bounds on operations and watchers (TLC explores 2 services x 2 statuses x 4 updates):
     THEOREM Safety == Spec => [](OnlySetValues /\ EndsOnlyAfterClear)
   under the assumption that set_service_status sends on an existing channel (SendOnExisting).                  *)
EXTENDS Health, TLAPS

ASSUME ConstAssump == /\ MaxOps \in Nat /\ MaxW \in Nat /\ SendOnExisting = TRUE
                      /\ Svcs # {} /\ Stats # {}

WatcherRec == [svc : Svcs, id : 1..MaxChan, seen : Nat, ended : BOOLEAN, got : Seq(Stats), subVer : Nat]
TypeOK == /\ chan \in [Svcs -> 0..MaxChan]
          /\ val \in [1..MaxChan -> Stats \cup {"none"}]
          /\ ver \in [1..MaxChan -> Nat]
          /\ closed \in [1..MaxChan -> BOOLEAN]
          /\ nchan \in 1..MaxChan
          /\ watchers \in Seq(WatcherRec)
          /\ setlog \in [Svcs -> SUBSET Stats]
          /\ cleared \subseteq 1..MaxChan
          /\ ops \in 0..MaxOps
\* channel ids are handed out once, in increasing order; a registered service owns exactly one of them
ChanOK == /\ \A s \in Svcs : chan[s] <= nchan
          /\ \A s, t \in Svcs : (chan[s] # 0 /\ chan[s] = chan[t]) => s = t
          /\ nchan <= ops + 1
\* the value of a registered service's channel was set for that service
ValOK == \A s \in Svcs : chan[s] # 0 => (ver[chan[s]] > 0 /\ val[chan[s]] \in setlog[s])
\* a watcher's channel belongs to its service: either it still is that service's channel, or it was closed by a clear
WatchOK == \A w \in 1..Len(watchers) :
             /\ watchers[w].id <= nchan
             /\ \A s \in Svcs : chan[s] = watchers[w].id => s = watchers[w].svc
             /\ (ver[watchers[w].id] > 0 /\ val[watchers[w].id] \in setlog[watchers[w].svc])
ClosedOK == \A i \in 1..MaxChan : closed[i] => i \in cleared
IndInv == TypeOK /\ ChanOK /\ ValOK /\ WatchOK /\ ClosedOK /\ OnlySetValues /\ EndsOnlyAfterClear

LEMMA MaxChanNat == MaxChan \in Nat /\ MaxChan = MaxOps + 2
  BY ConstAssump DEF MaxChan

LEMMA InitInv == Init => IndInv
<1> SUFFICES ASSUME Init PROVE IndInv OBVIOUS
<1> USE ConstAssump, MaxChanNat DEF Init
<1>1. TypeOK BY DEF TypeOK, WatcherRec, Default, Serving
<1>2. ChanOK BY DEF ChanOK
<1>3. ValOK BY DEF ValOK, Default, Serving
<1>4. WatchOK /\ OnlySetValues /\ EndsOnlyAfterClear BY DEF WatchOK, OnlySetValues, EndsOnlyAfterClear
<1>5. ClosedOK BY DEF ClosedOK
<1> QED BY <1>1, <1>2, <1>3, <1>4, <1>5 DEF IndInv

LEMMA SetStep == ASSUME IndInv, NEW s \in Svcs, NEW v \in Stats, Set(s, v) PROVE IndInv'
<1> USE ConstAssump, MaxChanNat DEF IndInv, Set, Op
<1>0. setlog' = [setlog EXCEPT ![s] = @ \cup {v}] /\ UNCHANGED <<watchers, cleared, checks>> /\ ops' = ops + 1 /\ ops < MaxOps
  OBVIOUS
<1>1. CASE chan[s] # 0
  <2>1. /\ val' = [val EXCEPT ![chan[s]] = v] /\ ver' = [ver EXCEPT ![chan[s]] = @ + 1] /\ UNCHANGED <<chan, nchan, closed>>
    BY <1>1
  <2>2. TypeOK' BY <1>0, <2>1, <1>1 DEF TypeOK, WatcherRec
  <2>3. ChanOK' BY <1>0, <2>1 DEF ChanOK, TypeOK
  <2>4. ValOK' BY <1>0, <2>1, <1>1 DEF ValOK, TypeOK, ChanOK
  <2>5. WatchOK' BY <1>0, <2>1, <1>1 DEF WatchOK, TypeOK, ChanOK, ValOK, WatcherRec
  <2>6. ClosedOK' BY <1>0, <2>1 DEF ClosedOK
  <2>7. OnlySetValues' BY <1>0, <2>1 DEF OnlySetValues, TypeOK, WatcherRec
  <2>8. EndsOnlyAfterClear' BY <1>0, <2>1 DEF EndsOnlyAfterClear
  <2> QED BY <2>2, <2>3, <2>4, <2>5, <2>6, <2>7, <2>8
<1>2. CASE chan[s] = 0
  <2>1. /\ nchan' = nchan + 1 /\ chan' = [chan EXCEPT ![s] = nchan + 1]
        /\ val' = [val EXCEPT ![nchan + 1] = v] /\ ver' = [ver EXCEPT ![nchan + 1] = 1] /\ closed' = closed
    BY <1>2
  <2>0. nchan + 1 \in 1..MaxChan /\ nchan + 1 <= ops + 2 /\ nchan \in Nat
    BY <1>0 DEF ChanOK, TypeOK
  <2>2. TypeOK' BY <1>0, <2>0, <2>1 DEF TypeOK, WatcherRec
  <2>3. ChanOK' BY <1>0, <2>0, <2>1 DEF ChanOK, TypeOK
  <2>4. ValOK' BY <1>0, <2>0, <2>1, <1>2 DEF ValOK, TypeOK, ChanOK
  <2>5. WatchOK' BY <1>0, <2>0, <2>1, <1>2 DEF WatchOK, TypeOK, ChanOK, ValOK, WatcherRec
  <2>6. ClosedOK' BY <1>0, <2>1 DEF ClosedOK
  <2>7. OnlySetValues' BY <1>0, <2>1 DEF OnlySetValues, TypeOK, WatcherRec
  <2>8. EndsOnlyAfterClear' BY <1>0, <2>1 DEF EndsOnlyAfterClear
  <2> QED BY <2>2, <2>3, <2>4, <2>5, <2>6, <2>7, <2>8
<1> QED BY <1>1, <1>2

LEMMA ClearStep == ASSUME IndInv, NEW s \in Svcs, Clear(s) PROVE IndInv'
<1> USE ConstAssump, MaxChanNat DEF IndInv, Clear, Op
<1>0. chan[s] \in 1..MaxChan BY DEF TypeOK
<1>2. TypeOK' BY <1>0 DEF TypeOK, WatcherRec
<1>3. ChanOK' BY <1>0 DEF ChanOK, TypeOK
<1>4. ValOK' BY <1>0 DEF ValOK, TypeOK, ChanOK
<1>5. WatchOK' BY <1>0 DEF WatchOK, TypeOK, ChanOK, WatcherRec
<1>6. ClosedOK' BY <1>0 DEF ClosedOK, TypeOK
<1>7. OnlySetValues' BY DEF OnlySetValues
<1>8. EndsOnlyAfterClear' BY DEF EndsOnlyAfterClear
<1> QED BY <1>2, <1>3, <1>4, <1>5, <1>6, <1>7, <1>8

LEMMA CheckStep == ASSUME IndInv, NEW s \in Svcs, Check(s) PROVE IndInv'
<1> USE ConstAssump, MaxChanNat DEF IndInv, Check, Op
<1> QED BY DEF TypeOK, ChanOK, ValOK, WatchOK, ClosedOK, OnlySetValues, EndsOnlyAfterClear

LEMMA WatchStep == ASSUME IndInv, NEW s \in Svcs, Watch(s) PROVE IndInv'
<1> USE ConstAssump, MaxChanNat DEF IndInv, Watch
<1> DEFINE nw == [svc |-> s, id |-> chan[s], seen |-> 0, ended |-> FALSE, got |-> <<>>, subVer |-> ver[chan[s]]]
<1>0. /\ chan[s] \in 1..MaxChan /\ nw \in WatcherRec /\ watchers' = Append(watchers, nw) /\ watchers \in Seq(WatcherRec)
      /\ UNCHANGED <<chan, val, ver, closed, nchan, setlog, cleared, ops, checks>>
  BY DEF TypeOK, WatcherRec
<1>1. Len(watchers') = Len(watchers) + 1 /\ Len(watchers) \in Nat /\ \A w \in 1..Len(watchers) : watchers'[w] = watchers[w]
  BY <1>0
<1>b. \A w \in 1..Len(watchers') : w \in 1..Len(watchers) \/ w = Len(watchers) + 1
  BY <1>1
<1>9. watchers'[Len(watchers) + 1] = nw BY <1>0
<1>2. TypeOK' BY <1>0 DEF TypeOK
<1>3. ChanOK' BY <1>0 DEF ChanOK
<1>4. ValOK' BY <1>0 DEF ValOK
<1>5. WatchOK'
  <2> SUFFICES ASSUME NEW w \in 1..Len(watchers') PROVE
        /\ watchers'[w].id <= nchan'
        /\ \A t \in Svcs : chan'[t] = watchers'[w].id => t = watchers'[w].svc
        /\ (ver'[watchers'[w].id] > 0 /\ val'[watchers'[w].id] \in setlog'[watchers'[w].svc])
    BY DEF WatchOK
  <2>1. CASE w \in 1..Len(watchers) BY <2>1, <1>0, <1>1 DEF WatchOK
  <2>2. CASE w = Len(watchers) + 1 BY <2>2, <1>0, <1>9 DEF ChanOK, ValOK, TypeOK
  <2> QED BY <2>1, <2>2, <1>b
<1>6. ClosedOK' BY <1>0 DEF ClosedOK
<1>7. OnlySetValues'
  <2> SUFFICES ASSUME NEW w \in 1..Len(watchers'), NEW i \in 1..Len(watchers'[w].got) PROVE watchers'[w].got[i] \in setlog'[watchers'[w].svc]
    BY DEF OnlySetValues
  <2>1. CASE w \in 1..Len(watchers) BY <2>1, <1>0, <1>1 DEF OnlySetValues
  <2>2. CASE w = Len(watchers) + 1 BY <2>2, <1>9
  <2> QED BY <2>1, <2>2, <1>b
<1>8. EndsOnlyAfterClear'
  <2> SUFFICES ASSUME NEW w \in 1..Len(watchers'), watchers'[w].ended PROVE watchers'[w].id \in cleared'
    BY DEF EndsOnlyAfterClear
  <2>1. CASE w \in 1..Len(watchers) BY <2>1, <1>0, <1>1 DEF EndsOnlyAfterClear
  <2>2. CASE w = Len(watchers) + 1 BY <2>2, <1>9
  <2> QED BY <2>1, <2>2, <1>b
<1> QED BY <1>2, <1>3, <1>4, <1>5, <1>6, <1>7, <1>8

LEMMA NextItemStep == ASSUME IndInv, NEW w \in 1..MaxW, NextItem(w) PROVE IndInv'
<1> USE ConstAssump, MaxChanNat DEF IndInv, NextItem
<1>0. /\ w \in 1..Len(watchers) /\ watchers \in Seq(WatcherRec) /\ watchers[w] \in WatcherRec
      /\ UNCHANGED <<chan, val, ver, closed, nchan, setlog, cleared, ops, checks>>
  BY DEF TypeOK
<1> DEFINE W == watchers[w]
<1>a. W.id \in 1..MaxChan /\ ver[W.id] \in Nat /\ val[W.id] \in setlog[W.svc] /\ setlog[W.svc] \subseteq Stats /\ W.svc \in Svcs
  BY <1>0 DEF WatchOK, TypeOK, WatcherRec
<1>1. CASE W.seen < ver[W.id]
  <2>1. watchers' = [watchers EXCEPT ![w].seen = ver[W.id], ![w].got = Append(@, val[W.id])] BY <1>1
  <2>2. /\ Len(watchers') = Len(watchers)
        /\ \A x \in 1..Len(watchers) : x # w => watchers'[x] = watchers[x]
        /\ watchers'[w] = [W EXCEPT !.seen = ver[W.id], !.got = Append(W.got, val[W.id])]
    BY <2>1, <1>0
  <2>3. watchers'[w] \in WatcherRec BY <2>2, <1>a, <1>0 DEF WatcherRec
  <2>4. TypeOK' BY <2>1, <2>2, <2>3, <1>0 DEF TypeOK
  <2>5. ChanOK' /\ ValOK' /\ ClosedOK' BY <1>0 DEF ChanOK, ValOK, ClosedOK
  <2>6. WatchOK' BY <2>2, <1>0 DEF WatchOK, WatcherRec
  <2>7. OnlySetValues'
    <3> SUFFICES ASSUME NEW x \in 1..Len(watchers'), NEW i \in 1..Len(watchers'[x].got) PROVE watchers'[x].got[i] \in setlog'[watchers'[x].svc]
      BY DEF OnlySetValues
    <3>1. CASE x # w BY <3>1, <2>2, <1>0 DEF OnlySetValues
    <3>2. CASE x = w
      <4>1. watchers'[w].got = Append(W.got, val[W.id]) /\ watchers'[w].svc = W.svc /\ W.got \in Seq(Stats) BY <2>2, <1>0 DEF WatcherRec
      <4>2. CASE i \in 1..Len(W.got) BY <4>1, <4>2, <3>2, <1>0 DEF OnlySetValues
      <4>3. CASE i = Len(W.got) + 1 BY <4>1, <4>3, <3>2, <1>a, <1>0
      <4> QED BY <4>1, <4>2, <4>3, <3>2
    <3> QED BY <3>1, <3>2
  <2>8. EndsOnlyAfterClear' BY <2>2, <1>0 DEF EndsOnlyAfterClear, WatcherRec
  <2> QED BY <2>4, <2>5, <2>6, <2>7, <2>8
<1>2. CASE ~(W.seen < ver[W.id])
  <2>0. closed[W.id] /\ watchers' = [watchers EXCEPT ![w].ended = TRUE] BY <1>2
  <2>2. /\ Len(watchers') = Len(watchers)
        /\ \A x \in 1..Len(watchers) : x # w => watchers'[x] = watchers[x]
        /\ watchers'[w] = [W EXCEPT !.ended = TRUE]
    BY <2>0, <1>0
  <2>3. watchers'[w] \in WatcherRec BY <2>2, <1>0 DEF WatcherRec
  <2>4. TypeOK' BY <2>0, <2>2, <2>3, <1>0 DEF TypeOK
  <2>5. ChanOK' /\ ValOK' /\ ClosedOK' BY <1>0 DEF ChanOK, ValOK, ClosedOK
  <2>6. WatchOK' BY <2>2, <1>0 DEF WatchOK, WatcherRec
  <2>7. OnlySetValues' BY <2>2, <1>0 DEF OnlySetValues, WatcherRec
  <2>8. EndsOnlyAfterClear' BY <2>0, <2>2, <1>0, <1>a DEF EndsOnlyAfterClear, ClosedOK, WatcherRec
  <2> QED BY <2>4, <2>5, <2>6, <2>7, <2>8
<1> QED BY <1>1, <1>2

LEMMA Stutter == IndInv /\ UNCHANGED vars => IndInv'
  BY DEF IndInv, TypeOK, ChanOK, ValOK, WatchOK, ClosedOK, OnlySetValues, EndsOnlyAfterClear, vars

THEOREM Inductive == Spec => []IndInv
<1>1. IndInv /\ [Next]_vars => IndInv' BY SetStep, ClearStep, CheckStep, WatchStep, NextItemStep, Stutter DEF Next
<1> QED BY <1>1, InitInv, PTL DEF Spec

THEOREM Safety == Spec => [](OnlySetValues /\ EndsOnlyAfterClear)
<1>1. IndInv => OnlySetValues /\ EndsOnlyAfterClear BY DEF IndInv
<1> QED BY <1>1, Inductive, PTL
=============================================================================
