SPECIFICATION GSpec
CONSTANTS
  Svcs = {"", "a"}
  Stats = {"1", "2"}
  MaxOps = 4
  MaxW = 2
  SendOnExisting = TRUE
CONSTRAINT GBound
INVARIANT Export
CHECK_DEADLOCK FALSE
