SPECIFICATION Spec
CONSTANTS
  MaxGroups = 3
  SegmentAware = TRUE
INVARIANTS NoSpuriousError CompleteAtEnd
PROPERTY Terminates
CHECK_DEADLOCK FALSE
