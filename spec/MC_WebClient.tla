---------------------------- MODULE MC_WebClient ----------------------------
EXTENDS WebClient
M(n) == Frame(0, [i \in 1..n |-> 7])
MsgSets == {<<>>, M(0), M(1), M(2), M(1) \o M(0), M(2) \o M(1)}
TBs == {<<>>, <<97, 58, 49, 13, 10>>}
Complete == { [msgs |-> m, tb |-> t, cutAt |-> 0] : m \in MsgSets, t \in TBs }
Malformed == { [msgs |-> m \o <<2, 0, 0, 0, 1, 7>>, tb |-> <<>>, cutAt |-> 0] : m \in {<<>>, M(1)} }
BodiesDef == Malformed \cup Complete \cup { x \in { [msgs |-> b.msgs, tb |-> b.tb, cutAt |-> k] : b \in Complete, k \in 1..11 } : x.cutAt < Len(x.msgs) + 5 + Len(x.tb) }
=============================================================================
