SPECIFICATION Spec
CONSTANT MaxLen = 3
INVARIANTS OracleLaws Export
CHECK_DEADLOCK FALSE
