----------------------------- MODULE ReflStream -----------------------------
(* Mechanism model of one ServerReflectionInfo stream (tonic-reflection/src/server/v1.rs, v1alpha.rs), C19:
   the handler spawns a worker that reads the request stream, answers each query and hands the answers to the
   response stream through a channel of capacity 1; an unknown name is answered with an error status, which
   ends the stream.  The client may write several queries before it reads any answer (pipelining).
   Queries are abstracted to "H" (resolves) / "M" (unknown name).
     BlockingSend = TRUE   the worker waits for room in the channel              (the code: resp_tx.send(..).await)
     BlockingSend = FALSE  the worker gives up when the channel is full          (deviation: try_send)          *)
EXTENDS Naturals, Sequences
CONSTANTS Sessions, BlockingSend
VARIABLES qs,      \* the session: sequence of "H"/"M"
          sent,    \* number of queries the client has written
          inq,     \* queries written and not yet taken by the worker (indices)
          closed,  \* the client closed its request stream
          w,       \* worker: [pc |-> "recv"|"send"|"done", item]
          chan,    \* response channel (capacity 1)
          got,     \* items the client has read
          ended    \* the client has seen the end of the response stream
vars == <<qs, sent, inq, closed, w, chan, got, ended>>
None == [k |-> "none", i |-> 0]
Item(i) == [k |-> IF qs[i] = "H" THEN "ans" ELSE "err", i |-> i]

Init == /\ qs \in Sessions /\ sent = 0 /\ inq = <<>> /\ closed = FALSE /\ w = [pc |-> "recv", item |-> None]
        /\ chan = <<>> /\ got = <<>> /\ ended = FALSE
ClientSend  == ~closed /\ sent < Len(qs) /\ sent' = sent + 1 /\ inq' = Append(inq, sent + 1) /\ UNCHANGED <<qs, closed, w, chan, got, ended>>
ClientClose == ~closed /\ closed' = TRUE /\ UNCHANGED <<qs, sent, inq, w, chan, got, ended>>
WorkerTake  == w.pc = "recv" /\ inq # <<>> /\ w' = [pc |-> "send", item |-> Item(Head(inq))] /\ inq' = Tail(inq) /\ UNCHANGED <<qs, sent, closed, chan, got, ended>>
WorkerEof   == w.pc = "recv" /\ inq = <<>> /\ closed /\ w' = [pc |-> "done", item |-> None] /\ UNCHANGED <<qs, sent, inq, closed, chan, got, ended>>
WorkerSend  == /\ w.pc = "send" /\ Len(chan) < 1 /\ chan' = Append(chan, w.item)
               /\ w' = [pc |-> IF w.item.k = "err" THEN "done" ELSE "recv", item |-> None] /\ UNCHANGED <<qs, sent, inq, closed, got, ended>>
WorkerGiveUp == ~BlockingSend /\ w.pc = "send" /\ Len(chan) >= 1 /\ w' = [pc |-> "done", item |-> None] /\ UNCHANGED <<qs, sent, inq, closed, chan, got, ended>>
ClientRecv  == ~ended /\ chan # <<>> /\ got' = Append(got, Head(chan)) /\ chan' = Tail(chan) /\ UNCHANGED <<qs, sent, inq, closed, w, ended>>
ClientSeesEnd == ~ended /\ chan = <<>> /\ w.pc = "done" /\ ended' = TRUE /\ UNCHANGED <<qs, sent, inq, closed, w, chan, got>>
Next == ClientSend \/ ClientClose \/ WorkerTake \/ WorkerEof \/ WorkerSend \/ WorkerGiveUp \/ ClientRecv \/ ClientSeesEnd
Spec == Init /\ [][Next]_vars

----------------------------------------------------------------------------
\* Contract (C19 seen through one stream)
Misses(n) == { i \in 1..n : qs[i] = "M" }
Min(S) == CHOOSE x \in S : \A y \in S : x <= y
\* the answers due for the first n queries: all of them up to and including the first unknown name
Due(n) == IF Misses(n) = {} THEN n ELSE Min(Misses(n))
AnswersInOrder   == \A k \in 1..Len(got) : got[k] = Item(k)
NothingAfterError == \A k \in 1..Len(got) : got[k].k = "err" => k = Len(got)
\* the stream ends only after every query written so far got its answer
EndAfterAllAnswers == ended => Len(got) = Due(sent)
Quiescent == ~ENABLED (WorkerTake \/ WorkerEof \/ WorkerSend \/ WorkerGiveUp \/ ClientRecv \/ ClientSeesEnd)
\* when nothing more can happen without the client writing or closing, every written query has been answered
EveryQueryAnswered == Quiescent => Len(got) = Due(sent)
\* and a closed or failed stream is seen to end
EndIsSeen == (Quiescent /\ (closed \/ Misses(sent) # {})) => ended
TypeOK == /\ sent \in 0..Len(qs) /\ Len(chan) <= 1 /\ w.pc \in {"recv", "send", "done"} /\ Len(got) <= sent
Contract == AnswersInOrder /\ NothingAfterError /\ EndAfterAllAnswers /\ EveryQueryAnswered /\ EndIsSeen
=============================================================================
