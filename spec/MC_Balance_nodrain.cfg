SPECIFICATION Spec
CONSTANTS
  Keys = {"k1", "k2"}
  Srvs = {"a", "b"}
  None = "-"
  MaxSteps = 5
  DrainAll = FALSE
  PromoteAll = TRUE
INVARIANTS TypeOK Contract
CHECK_DEADLOCK FALSE
