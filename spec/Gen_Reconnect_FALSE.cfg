SPECIFICATION Spec
CONSTANTS
  Scripts <- ScriptsDef
  Lazy = FALSE
  MaxCalls = 5
  TakeError = TRUE
  SetConnected = TRUE
INVARIANTS Contract EagerOK Export
CHECK_DEADLOCK FALSE
