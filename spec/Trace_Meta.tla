----------------------------- MODULE Trace_Meta -----------------------------
(* Trace validation for the metadata lab (C08: typed accessors, wire form, padding-indifferent receipt). *)
EXTENDS Metadata, TraceKit
Fresh(stim) == [stim |-> stim, acc |-> <<>>, seen |-> {}]
Keys == {"runs", "padded", "with_binary", "with_rejected", "repeated_names", "opaque_ascii"}
Init == InitK(Fresh([class |-> "none"]), Keys)
Reset == ResetK(Fresh(E.stim)) /\ Count({"runs"} \cup (IF E.stim.pad THEN {"padded"} ELSE {}))
AccOf(entries, flags) == LET idx == SelectSeq([i \in 1..Len(entries) |-> i], LAMBDA i : flags[i]) IN [j \in 1..Len(idx) |-> [entries[idx[j]] EXCEPT !.nb = LowerSeq(@)]]
Built == /\ Live("built")
         /\ LET en == s.stim.entries IN
            JudgeK(<< <<"HarnessOK", Len(E.accepted) = Len(en)>>,
                      <<"C08.ValidEntriesAccepted", \A i \in 1..Len(en) : MustAccept(en[i]) => E.accepted[i]>>,
                      <<"C08.KindFollowsSuffixAtConstruction", \A i \in 1..Len(en) : MustReject(en[i]) => ~E.accepted[i]>>,
                      <<"C08.LenCountsEntries", E.len = Cardinality({ i \in 1..Len(en) : E.accepted[i] })>> >>,
                   [s EXCEPT !.acc = AccOf(en, E.accepted), !.seen = @ \cup {"built"}])
         /\ Count((IF \E i \in 1..Len(E.accepted) : ~E.accepted[i] THEN {"with_rejected"} ELSE {})
                  \cup (IF \E i \in 1..Len(s.stim.entries) : s.stim.entries[i].bin /\ E.accepted[i] THEN {"with_binary"} ELSE {})
                  \cup (IF \E i, j \in 1..Len(s.stim.entries) : i # j /\ s.stim.entries[i].nb = s.stim.entries[j].nb /\ E.accepted[i] /\ E.accepted[j] THEN {"repeated_names"} ELSE {})
                  \cup (IF \E i \in 1..Len(s.stim.entries) : E.accepted[i] /\ ~s.stim.entries[i].bin /\ \E k \in 1..Len(s.stim.entries[i].v) : s.stim.entries[i].v[k] >= 128 THEN {"opaque_ascii"} ELSE {}))
Wire == /\ Live("wire") /\ UNCHANGED stats
        /\ JudgeK(<< <<"C08.WireFormCarriesEveryEntry", WireOK(E.list, s.acc)>>, <<"Order", "built" \in s.seen>> >>, [s EXCEPT !.seen = @ \cup {"wire"}])
Recv == /\ Live("recv") /\ UNCHANGED stats
        /\ JudgeK(<< <<"C08.AllNamesReceived", { E.per[i].nb : i \in 1..Len(E.per) } = NamesOf(s.acc)>>,
                     <<"C08.TypedAccessors", \A i \in 1..Len(E.per) : TypedOK(E.per[i]) /\ E.per[i].contains>>,
                     <<"C08.ValuesPreservedInOrder", \A i \in 1..Len(E.per) : PreservedOK(E.per[i], s.acc)>>,
                     \* asked for in any letter case, a name ending in -bin is never presented through the ASCII accessors, any other never through the binary ones
                     <<"C08.TypedAccessorsInAnyLetterCase", Has(E, "variants") => \A i \in 1..Len(E.variants) :
                          IF EndsWithBin(E.variants[i].nb) THEN (~E.variants[i].get /\ E.variants[i].all = 0) ELSE (~E.variants[i].get_bin /\ E.variants[i].all_bin = 0)>>,
                     <<"C08.IteratorsTagBySuffix", TaggedOK(E.iter) /\ TaggedOK(E.keys) /\ Len(E.iter) = Len(s.acc)>>,
                     <<"C08.ValueIteratorKinds", E.values_bin = Cardinality({ i \in 1..Len(s.acc) : s.acc[i].bin }) /\ E.values_ascii + E.values_bin = Len(s.acc)>>,
                     \* the mutable views, the entry API and removal are typed the same way
                     <<"C08.MutableIteratorsTagBySuffix", E.iter_mut = E.iter /\ E.values_mut_ascii = E.values_ascii /\ E.values_mut_bin = E.values_bin>>,
                     <<"C08.EntryAndRemovalAreTyped", \A i \in 1..Len(E.other) : LET o == E.other[i] b == EndsWithBin(o.nb) IN
                          /\ o.get_mut = ~b /\ o.get_bin_mut = b
                          /\ o.entry = (IF b THEN "invalid" ELSE "occupied") /\ o.entry_bin = (IF b THEN "occupied" ELSE "invalid")
                          /\ o.remove = ~b /\ o.remove_bin = b
                          /\ (IF b THEN (o.left_after_remove = E.len /\ o.left_after_remove_bin = E.len - o.count)
                                   ELSE (o.left_after_remove = E.len - o.count /\ o.left_after_remove_bin = E.len))>>,
                     <<"Order", "wire" \in s.seen>> >>, [s EXCEPT !.seen = @ \cup {"recv"}])
End == EndK(<< <<"RunComplete", E.outcome = "ok" => "recv" \in s.seen>> >>)
Known == {"reset", "built", "wire", "recv", "end"}
Next == Reset \/ Built \/ Wire \/ Recv \/ End \/ UnknownK(Known) \/ DeadSkipK
Spec == Init /\ [][Next]_kvars
=============================================================================
