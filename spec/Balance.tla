------------------------------- MODULE Balance -------------------------------
(* Mechanism model of a load-balanced channel (Channel::balance_channel / balance_list):
     application --Change::Insert(k, endpoint) / Remove(k)--> mpsc --> DynamicServiceStream (tonic/src/transport/channel/service/discover.rs)
        --> tower p2c Balance over lazy Reconnect connections --> tower Buffer worker (tonic/src/transport/channel/mod.rs, Channel::balance)
   The behaviour is outside the twenty listed properties (C14 is anchored in the single-endpoint channel); the model extends the
   specification to this part of the system and its results are reported as model drift, never as a violation of a listed property.

   The environment acts at quiescent points (the lab awaits every call): it sends changes, takes servers down / up, and issues calls.
   Processing one call is the worker's step:
     1. Balance::poll_ready drains the discover stream (every queued change; DrainAll = FALSE models taking only one),
     2. polls every endpoint that is not ready (PromoteAll = TRUE, the code: ReadyCache::poll_pending) - a lazy Reconnect whose dial fails
        stores the error and reports ready - or only the endpoint it is about to use (PromoteAll = FALSE, an idealisation),
     3. picks one ready endpoint (p2c: any) and dispatches: a stored error is handed to this call, otherwise the server answers.   *)
EXTENDS Naturals, Sequences, FiniteSets
CONSTANTS Keys, Srvs, None, MaxSteps, DrainAll, PromoteAll
VARIABLES chq,     \* changes sent and not yet taken by the discover stream
          svcs,    \* the balancer's endpoints: [Keys -> Srvs \cup {None}]
          want,    \* what the application has asked for so far
          up,      \* servers accepting connections
          conn,    \* [Keys -> BOOLEAN] the endpoint holds an established connection
          err,     \* [Keys -> BOOLEAN] the endpoint's Reconnect holds a stored connect error
          hist,    \* completed calls: [res, by, want, up, stale]
          stale,   \* ghost: endpoints that may hold an error from a dial nobody has been told about
          script   \* environment steps taken (exported for replay)
vars == <<chq, svcs, want, up, conn, err, hist, stale, script>>
Ins(k, s) == [op |-> "insert", key |-> k, srv |-> s]
Rem(k) == [op |-> "remove", key |-> k, srv |-> None]
Range(f) == { f[k] : k \in DOMAIN f } \ {None}
Live(f) == { k \in DOMAIN f : f[k] # None }

Init == /\ chq = <<>> /\ svcs = [k \in Keys |-> None] /\ want = [k \in Keys |-> None] /\ up \in SUBSET Srvs
        /\ conn = [k \in Keys |-> FALSE] /\ err = [k \in Keys |-> FALSE] /\ hist = <<>> /\ stale = {}
        /\ script = <<[op |-> "init", key |-> "", srv |-> up]>>          \* the first entry records which servers are up at the start
Budget == Len(script) < MaxSteps
Send(c) == /\ Budget /\ chq' = Append(chq, c) /\ want' = [want EXCEPT ![c.key] = c.srv]
           /\ script' = Append(script, c) /\ UNCHANGED <<svcs, up, conn, err, hist, stale>>
Down(s) == /\ Budget /\ s \in up /\ up' = up \ {s} /\ conn' = [k \in Keys |-> conn[k] /\ svcs[k] # s]
           /\ script' = Append(script, [op |-> "down", key |-> "", srv |-> s]) /\ UNCHANGED <<chq, svcs, want, err, hist, stale>>
Up(s) == /\ Budget /\ s \notin up /\ up' = up \cup {s}
         /\ script' = Append(script, [op |-> "up", key |-> "", srv |-> s]) /\ UNCHANGED <<chq, svcs, want, conn, err, hist, stale>>

\* step 1: the discover stream; an Insert for a key already present replaces that endpoint (fresh lazy connection)
RECURSIVE Drain(_, _)
Drain(st, q) == IF q = <<>> THEN st
                ELSE LET c == Head(q) IN
                     Drain([s |-> [st.s EXCEPT ![c.key] = c.srv], c |-> [st.c EXCEPT ![c.key] = FALSE], e |-> [st.e EXCEPT ![c.key] = FALSE]], Tail(q))
Taken == IF DrainAll \/ chq = <<>> THEN chq ELSE <<Head(chq)>>
Left  == IF DrainAll \/ chq = <<>> THEN <<>> ELSE Tail(chq)
\* step 2 for endpoint k of the drained state d
Dial(d, k) == IF d.c[k] \/ d.e[k] THEN d
              ELSE IF d.s[k] \in up THEN [d EXCEPT !.c[k] = TRUE] ELSE [d EXCEPT !.e[k] = TRUE]
RECURSIVE DialAll(_, _)
DialAll(d, ks) == IF ks = {} THEN d ELSE LET k == CHOOSE x \in ks : TRUE IN DialAll(Dial(d, k), ks \ {k})

Call == /\ Budget
        /\ LET d0 == Drain([s |-> svcs, c |-> conn, e |-> err], Taken) IN
           IF Live(d0.s) = {} THEN
             \* nothing to dispatch to: the call stays in the buffer (the lab sees it pending and drops it)
             /\ svcs' = d0.s /\ conn' = d0.c /\ err' = d0.e /\ chq' = Left
             /\ hist' = Append(hist, [res |-> "pending", by |-> None, want |-> want, up |-> up, stale |-> stale])
             /\ UNCHANGED stale
           ELSE \E k \in Live(d0.s) :
             LET d1 == IF PromoteAll THEN DialAll(d0, Live(d0.s)) ELSE Dial(d0, k)
                 st1 == (stale \cap Live(d0.s)) \cup { j \in Live(d0.s) : d1.e[j] }
             IN /\ svcs' = d1.s /\ chq' = Left
                /\ IF d1.e[k] THEN /\ err' = [d1.e EXCEPT ![k] = FALSE] /\ conn' = d1.c /\ stale' = st1 \ {k}
                                   /\ hist' = Append(hist, [res |-> "unavailable", by |-> None, want |-> want, up |-> up, stale |-> st1])
                   ELSE /\ err' = d1.e /\ conn' = d1.c /\ stale' = st1
                        /\ hist' = Append(hist, [res |-> "ok", by |-> d1.s[k], want |-> want, up |-> up, stale |-> st1])
        /\ script' = Append(script, [op |-> "call", key |-> "", srv |-> None]) /\ UNCHANGED <<want, up>>
Next == (\E k \in Keys, s \in Srvs : Send(Ins(k, s))) \/ (\E k \in Keys : want[k] # None /\ Send(Rem(k))) \/ (\E s \in Srvs : Down(s) \/ Up(s)) \/ Call
Spec == Init /\ [][Next]_vars

----------------------------------------------------------------------------
TypeOK == /\ \A k \in Keys : (conn[k] \/ err[k]) => svcs[k] # None
          /\ \A k \in Keys : conn[k] => svcs[k] \in up
          /\ \A k \in Keys : ~(conn[k] /\ err[k])
\* a call is answered only by a server the application has configured at that moment, and that server is up
Membership == \A i \in 1..Len(hist) : hist[i].res = "ok" => (hist[i].by \in Range(hist[i].want) /\ hist[i].by \in hist[i].up)
\* a call stays pending exactly when no endpoint is configured
PendingIffEmpty == \A i \in 1..Len(hist) : (hist[i].res = "pending") <=> (Range(hist[i].want) = {})
\* an UNAVAILABLE answer needs a configured server that is down now, or an endpoint still holding the error of an earlier dial
ExplainedFailure == \A i \in 1..Len(hist) : hist[i].res = "unavailable" =>
                      ((\E s \in Range(hist[i].want) : s \notin hist[i].up) \/ hist[i].stale # {})
\* the idealised reading ("a failure is reported only to the call whose dial failed"): does NOT hold with PromoteAll = TRUE
FreshFailure == \A i \in 1..Len(hist) : hist[i].res = "unavailable" => \E s \in Range(hist[i].want) : s \notin hist[i].up
\* with every configured server up and no stored error left, the call succeeds
AllUpSucceeds == \A i \in 1..Len(hist) : (Range(hist[i].want) # {} /\ Range(hist[i].want) \subseteq hist[i].up /\ hist[i].stale = {}) => hist[i].res = "ok"
Contract == Membership /\ PendingIffEmpty /\ ExplainedFailure /\ AllUpSucceeds
=============================================================================
