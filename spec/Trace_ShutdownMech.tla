------------------------- MODULE Trace_ShutdownMech -------------------------
(* Mechanism-level trace validation for C13: recorded executions of the real server - the environment steps the
   harness applied and the hook events tonic emits at the linearisation points of serve_internal /
   serve_connection (feature verif-hooks) - are replayed through the *actions of Shutdown.tla*.
   Every event is Is(..) /\ <the Mechanism action it claims to be>; what is not logged (a stream being admitted or
   refused on a draining connection, the harness epilogue's releases and drops) is left to the action's own
   nondeterminism or composed in as bounded silent steps.  A trace the Mechanism model cannot follow is reported as
   DRIFT by the driver (the model no longer describes the code); verdicts on the property itself come from
   Trace_Shutdown (Contract level).  Acceptance = highest event index reached (register 1), workers 1.        *)
EXTENDS MC_Shutdown, Sequences, IOUtils
Rec == ndJsonDeserialize(IOEnv.TRACE)
ASSUME TLCSet(1, 1)
VARIABLES l,       \* next event
          order,   \* connections in the order the accept loop took them (hook sequence number -> connection id)
          free     \* the harness epilogue has begun: every gate is open and clients go away without a step event
tvars == <<vars, l, order, free>>
E == Rec[l]
Is(e) == l <= Len(Rec) /\ E.e = e /\ l' = l + 1
Keep == UNCHANGED <<order, free>>
TInit == Init /\ l = 1 /\ order = <<>> /\ free = FALSE
FailSent(c) == [k \in Calls |-> IF ConnOf[k] = c /\ call[k].ph = "sent" THEN [call[k] EXCEPT !.ph = "failed"] ELSE call[k]]
\* ---- environment steps applied by the harness (a step that finds nothing to act on is a no-op)
StepOffer == Is("step") /\ E.op = "offer" /\ Keep /\ (IF ended THEN UNCHANGED vars ELSE Offer(E.c))
CanSend(k) == call[k].ph = "unsent" /\ conn[ConnOf[k]] \in {"offered", "open", "draining"} /\ ConnOf[k] \notin dropped
CanRelease(k) == call[k].ph = "accepted" /\ conn[ConnOf[k]] # "closed"
CanDrop(c) == conn[c] \in {"offered", "open", "draining"} /\ c \notin dropped
StepSend == Is("step") /\ E.op = "send" /\ Keep /\ (IF CanSend(E.k) THEN Send(E.k) ELSE UNCHANGED vars)
StepFire == Is("step") /\ E.op = "fire" /\ Keep /\ (IF sig = "idle" THEN Fire ELSE UNCHANGED vars)
StepRelease == Is("step") /\ E.op = "release" /\ Keep /\ (IF CanRelease(E.k) THEN Release(E.k) ELSE UNCHANGED vars)
StepDrop == Is("step") /\ E.op = "drop" /\ Keep /\ (IF CanDrop(E.c) THEN ClientDrop(E.c) ELSE UNCHANGED vars)
StepEnd == Is("step") /\ E.op = "end_incoming" /\ Keep /\ (IF ended THEN UNCHANGED vars ELSE EndIncoming)
StepAccErr == Is("step") /\ E.op = "accept_error" /\ Keep /\ UNCHANGED vars     \* the incoming stream yields an error: the loop goes on (no model step)
StepAge == Is("step") /\ E.op = "age" /\ Keep /\ UNCHANGED vars          \* time passes; each timer that fires is a conn_aged hook event
\* ---- hook events at the linearisation points of the accept loop
Taken == Is("taken") /\ order' = Append(order, E.c) /\ UNCHANGED <<vars, free>>
HAccepted == Is("hook") /\ E.ev = "accepted" /\ Keep /\ E.n = Len(order) /\ Accept(order[E.n])
HObserved == Is("hook") /\ E.ev = "signal_observed" /\ Keep /\ Observe
HEnded == Is("hook") /\ E.ev = "incoming_ended" /\ Keep /\ ObserveEnd
HBroadcast == Is("hook") /\ E.ev = "broadcast" /\ Keep /\ Broadcast
HResolved == Is("hook") /\ E.ev = "all_closed" /\ Keep /\ Resolve
\* ---- hook events of the connection tasks
HSawSignal == Is("hook") /\ E.ev = "conn_saw_signal" /\ Keep /\ E.n <= Len(order)
              /\ LET c == order[E.n] IN IF conn[c] = "open" /\ c \notin dropped THEN SeeSignal(c) ELSE (bcast /\ UNCHANGED vars)
HAged == Is("hook") /\ E.ev = "conn_aged" /\ Keep /\ E.n <= Len(order)
         /\ LET c == order[E.n] IN IF conn[c] = "open" /\ c \notin dropped THEN Age(c) ELSE (Aging /\ UNCHANGED vars)
\* the connection future finished: LateStream(k) (refusal) for every request still waiting on it, then Close / DeadClose
HConnClosed == Is("hook") /\ E.ev = "conn_closed" /\ Keep /\ E.n <= Len(order)
               /\ LET c == order[E.n] IN
                  CASE conn[c] = "draining" -> /\ \A k \in InFlight(c) : call[k].ph = "sent"
                                               /\ conn' = [conn EXCEPT ![c] = "closed"] /\ call' = FailSent(c)
                                               /\ UNCHANGED <<sig, bcast, resolved, dropped, ended>>
                    [] conn[c] = "open" -> DeadClose(c)
                    [] conn[c] = "closed" -> UNCHANGED vars
                    [] OTHER -> FALSE
\* ---- what the handlers and clients showed
SrvReq == Is("srv_req") /\ Keep
          /\ \/ ServerAccept(E.k)
             \/ LateStream(E.k) /\ call'[E.k].ph = "accepted"
             \/ ConnOf[E.k] \in dropped /\ UNCHANGED vars               \* the request was still in the pipe when its client went away
\* the outcome the caller saw must be the one the model's call phase explains
CallDone == Is("call_done") /\ Keep
            /\ CASE call[E.k].ph = "sent" /\ conn[ConnOf[E.k]] = "draining" -> ~E.ok /\ LateStream(E.k) /\ call'[E.k].ph = "failed"
                 [] call[E.k].ph = "done" -> E.ok /\ UNCHANGED vars
                 [] call[E.k].ph \in {"failed", "unsent"} -> ~E.ok /\ UNCHANGED vars
                 [] OTHER -> FALSE
\* the client could not even establish its side (the listener is gone): from the server's view that client went away
ConnectErr == Is("client_connect_err") /\ Keep /\ (IF CanDrop(E.c) THEN ClientDrop(E.c) ELSE UNCHANGED vars)
Epilogue == Is("epilogue") /\ free' = TRUE /\ UNCHANGED <<vars, order>>
Other == Is(E.e) /\ E.e \in {"srv_done", "call_aborted", "resolved", "final", "end", "accept_error"} /\ UNCHANGED <<vars, order, free>>
Reset == /\ Is("reset") /\ order' = <<>> /\ free' = FALSE
         /\ sig' = "idle" /\ conn' = [c \in Conns |-> "none"] /\ bcast' = FALSE /\ resolved' = FALSE /\ dropped' = {} /\ ended' = FALSE
         /\ call' = [k \in Calls |-> [ph |-> "unsent", left |-> Items[k], acc |-> FALSE]]
\* ---- silent steps of the epilogue (bounded: Release counts down, ClientDrop happens once per connection)
Silent == /\ l <= Len(Rec) /\ UNCHANGED <<l, order, free>>
          /\ \/ free /\ ((\E k \in Calls : Release(k)) \/ (\E c \in Conns : ClientDrop(c)))
             \/ \E c \in Conns : Abandon(c)                        \* not logged: the dropped incoming stream takes its queue with it
TNext == StepAccErr \/ StepOffer \/ StepSend \/ StepFire \/ StepRelease \/ StepDrop \/ StepEnd \/ StepAge \/ Taken \/ HAccepted \/ HObserved \/ HEnded
         \/ HBroadcast \/ HResolved \/ HSawSignal \/ HAged \/ HConnClosed \/ SrvReq \/ CallDone \/ ConnectErr \/ Epilogue \/ Other \/ Reset \/ Silent
TSpec == TInit /\ [][TNext]_tvars
Progress == TLCSet(1, IF l > TLCGet(1) THEN l ELSE TLCGet(1))
\* the safety part of the Contract is evaluated in every state of every accepted execution as well
MechInv == NoLoss /\ ResolveLate
Accepted == PrintT(<<"MECH_RESULT", ToJson([matched |-> TLCGet(1) - 1, total |-> Len(Rec),
                                            next |-> IF TLCGet(1) <= Len(Rec) THEN Rec[TLCGet(1)] ELSE [e |-> "none"]])>>)
=============================================================================
