SPECIFICATION TSpec
CONSTANTS
  Scripts = {}
  Lazy = TRUE
  MaxCalls = 8
  TakeError = TRUE
  SetConnected = TRUE
CONSTRAINT Progress
INVARIANT MechInv
POSTCONDITION Accepted
CHECK_DEADLOCK FALSE
