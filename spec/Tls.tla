-------------------------------- MODULE Tls --------------------------------
(* Decision table of tonic's TLS wiring (C15): which configurations let a call through.  The cryptography is
   rustls / webpki (trusted); what is specified is which roots, which name, the ALPN requirement, the client-auth
   mode and the plumbing of the verified peer certificates.
     roots       : client trust roots           "right" | "other" | "none"
     name        : expected server name         "match" (domain_name = SAN) | "mismatch" | "uri_match" | "uri_mismatch" (taken from the URI)
     alpn        : what the server negotiates   "h2" | "none" | "http/1.1"
     assume_http2, client_auth ("none" | "required" | "optional"), identity ("none" | "valid" | "other_ca"), tls_cfg *)
EXTENDS Naturals, TLC
Points == [roots : {"right", "other", "none"}, name : {"match", "mismatch", "uri_match", "uri_mismatch"}, alpn : {"h2", "none", "http/1.1"},
           assume_http2 : BOOLEAN, client_auth : {"none", "required", "optional"}, identity : {"none", "valid", "other_ca"}, tls_cfg : BOOLEAN]
ServerAuthenticated(p) == p.roots = "right" /\ p.name \in {"match", "uri_match"}
H2Agreed(p) == p.alpn = "h2" \/ p.assume_http2
\* a server with a client CA serves only clients presenting a certificate issued by it, unless authentication is optional;
\* a certificate from another CA is never acceptable
\* p.client_ca (optional field): "proper" (default) or a PEM that yields no trust anchor ("empty", "key_only"): such a server
\* cannot authenticate anybody, so nobody is served (tonic refuses the configuration)
CaUsable(p) == ("client_ca" \notin DOMAIN p) \/ p.client_ca = "proper"
\* p.origin (optional field): an origin override ("good_before", "good_after", "bad_before", "bad_after": a host that matches / does not
\* match the certificate, set before / after the TLS configuration).  It names the :authority of requests; the name the certificate
\* is checked against stays the configured domain or the URI host, so `origin` occurs in none of the predicates below.
\* p.roots_form / p.client_ca_form (optional fields): the trusted certificate is given alone ("single") or as the first / last of
\* several certificates in one PEM ("bundle_first", "bundle_last"); every certificate of a bundle is a trust anchor, so the form
\* occurs in none of the predicates.
\* identities outside the enumerated table (extra rows): "chain" = a leaf issued by a sub-CA of the server's client CA, presented with the
\* sub-CA's certificate (a valid identity of two certificates); "chain_leaf_only" = that leaf alone (no path to the trusted CA: not valid)
ValidIdentity(p) == p.identity \in {"valid", "chain"}
ClientAccepted(p) == \/ p.client_auth = "none"
                     \/ (CaUsable(p) /\ p.client_auth = "required" /\ ValidIdentity(p))
                     \/ (CaUsable(p) /\ p.client_auth = "optional" /\ (p.identity = "none" \/ ValidIdentity(p)))
\* rustls: a client offering h2 to a server that only speaks http/1.1 aborts the handshake whatever assume_http2 says
AlpnCompatible(p) == p.alpn # "http/1.1"
CallTransmitted(p) == p.tls_cfg /\ ServerAuthenticated(p) /\ H2Agreed(p) /\ AlpnCompatible(p) /\ ClientAccepted(p)
PeerCertsVisible(p) == CallTransmitted(p) /\ p.client_auth # "none" /\ ValidIdentity(p)
\* p.second_alpn (optional field, extra rows): after the connection of the table point, the same Endpoint connects again, to a server
\* that shares the first one's session store (the handshake may be resumed) and negotiates second_alpn.  The h2 requirement applies
\* to every connection on its own: resumption abbreviates the handshake, it does not carry the old connection's ALPN over.
\* p.second_client_auth (optional) = "required": the second server demands a certificate of its client CA - whatever the first did
SecondTransmitted(p) == /\ CallTransmitted(p) /\ (p.second_alpn = "h2" \/ p.assume_http2) /\ p.second_alpn # "http/1.1"
                        /\ (("second_client_auth" \in DOMAIN p /\ p.second_client_auth = "required") => ValidIdentity(p))
\* o2 = [call_ok, handler_runs (of the second connection), first_bytes]
Clauses2(p, o2) ==
  << <<"C15.CallOnlyOverAuthenticatedH2", o2.call_ok => SecondTransmitted(p)>>,
     <<"C15.ValidConfigurationWorks", SecondTransmitted(p) => o2.call_ok>>,
     <<"C15.NoRequestReachesHandlerOtherwise", o2.handler_runs = (IF SecondTransmitted(p) THEN 1 ELSE 0)>>,
     <<"C15.NeverPlaintext", o2.first_bytes \in {"tls_client_hello", "none"}>> >>
\* obs = [call_ok, handler_runs, peer_certs (-1 = none), first_bytes]
Clauses(p, o) ==
  << <<"C15.CallOnlyOverAuthenticatedH2", o.call_ok => CallTransmitted(p)>>,
     <<"C15.ValidConfigurationWorks", CallTransmitted(p) => o.call_ok>>,
     <<"C15.NoRequestReachesHandlerOtherwise", o.handler_runs = (IF CallTransmitted(p) THEN 1 ELSE 0)>>,
     <<"C15.NeverPlaintext", o.first_bytes \in {"tls_client_hello", "none"}>>,
     <<"C15.VerifiedPeerCertsExposed", (o.handler_runs = 1) => ((o.peer_certs >= 1) <=> PeerCertsVisible(p))>>,
     \* the two accessors a handler has (Request::peer_certs() and the TlsConnectInfo extension) say the same, including "none" (-1)
     <<"C15.VerifiedPeerCertsExposed", (o.handler_runs = 1) => o.peer_certs = o.ext_certs>>,
     \* p.presented (optional field): digests of the certificates of the client's identity, in the order presented: what the handler is
     \* shown is that chain, whole and in order
     <<"C15.VerifiedPeerCertsExposed", (o.handler_runs = 1 /\ PeerCertsVisible(p) /\ "presented" \in DOMAIN p) => o.peer_digests = p.presented>> >>
=============================================================================
