----------------------------- MODULE MC_Balance -----------------------------
EXTENDS Balance, Json, TLC
Export == (Len(script) = MaxSteps) => PrintT(<<"SCRIPT", ToJson([script |-> script, hist |-> hist])>>)
\* generator behaviours (simulation): at most two environment steps between calls
EnvStep == (\E k \in Keys, s \in Srvs : Send(Ins(k, s))) \/ (\E k \in Keys : want[k] # None /\ Send(Rem(k))) \/ (\E s \in Srvs : Down(s) \/ Up(s))
IsEnv(i) == i >= 1 /\ script[i].op \notin {"call", "init"}
GNext == Call \/ (~(IsEnv(Len(script)) /\ IsEnv(Len(script) - 1)) /\ EnvStep)
GSpec == Init /\ [][GNext]_vars
=============================================================================
