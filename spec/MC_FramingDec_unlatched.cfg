SPECIFICATION Spec
CONSTANTS
  Inputs <- InputsDef
  Limit = 2
  HasEnc = TRUE
  MaxChunk = 3
  MaxPolls = 6
  Latch = FALSE
INVARIANTS Shape
PROPERTIES ContractHolds Terminates
CHECK_DEADLOCK FALSE
