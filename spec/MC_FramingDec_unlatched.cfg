SPECIFICATION Spec
CONSTANTS
  Inputs <- InputsDef
  Limit = 2
  HasEnc = TRUE
  MaxChunk = 3
  MaxPolls = 6
  MaxEmpty = 1
  EmptyIsData = TRUE
  Latch = FALSE
INVARIANTS Shape
PROPERTIES ContractHolds Terminates
CHECK_DEADLOCK FALSE
