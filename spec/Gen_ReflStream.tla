--------------------------- MODULE Gen_ReflStream ---------------------------
(* Pattern B export for C19 (stream dimension): every order in which a client can write queries, read answers and close
   one ServerReflectionInfo stream, with what the model says it reads.  Replayed on the real v1 and v1alpha services.
   `script` records only the client's own steps: "S" write the next query, "R" read one item, "C" close, "E" read the end. *)
EXTENDS MC_ReflStream, Json, TLC
VARIABLE script
GInit == Init /\ script = <<>>
GNext == \/ ClientSend /\ script' = Append(script, "S")
         \/ ClientClose /\ script' = Append(script, "C")
         \/ ClientRecv /\ script' = Append(script, "R")
         \/ ClientSeesEnd /\ script' = Append(script, "E")
         \/ (WorkerTake \/ WorkerEof \/ WorkerSend) /\ UNCHANGED script
GSpec == GInit /\ [][GNext]_<<vars, script>>
Export == ended => PrintT(<<"SCRIPT", ToJson([qs |-> qs, script |-> script, got |-> got])>>)
=============================================================================
