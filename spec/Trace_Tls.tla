------------------------------ MODULE Trace_Tls ------------------------------
EXTENDS Tls, Integers, Sequences, FiniteSets, TraceKit
Fresh(stim) == [stim |-> stim, handlers |-> 0, first |-> 0, certs |-> -1, ext |-> -1, digests |-> <<>>, client |-> FALSE]
Keys == {"runs", "second_connections", "second_resumed", "chained_identity", "calls_through", "refused", "with_client_cert", "no_tls_config", "alpn_missing"}
Init == InitK(Fresh([roots |-> "none"]), Keys)
Reset == ResetK(Fresh(E.stim)) /\ Count({"runs"} \cup (IF CallTransmitted(E.stim) THEN {"calls_through"} ELSE {"refused"}) \cup (IF E.stim.identity # "none" THEN {"with_client_cert"} ELSE {}) \cup (IF E.stim.identity \in {"chain", "chain_leaf_only"} THEN {"chained_identity"} ELSE {})
                                         \cup (IF ~E.stim.tls_cfg THEN {"no_tls_config"} ELSE {}) \cup (IF E.stim.alpn # "h2" THEN {"alpn_missing"} ELSE {}))
Handler == /\ Live("handler") /\ UNCHANGED stats /\ JudgeK(<<>>, [s EXCEPT !.handlers = @ + 1, !.certs = E.peer_certs, !.ext = E.ext_certs, !.digests = E.peer_digests])
SrvFail == /\ l <= Len(Rec) /\ ~dead /\ E.e \in {"server_handshake_failed", "server_config_rejected"} /\ l' = l + 1 /\ UNCHANGED <<run, stats>> /\ JudgeK(<<>>, s)
Client == /\ Live("client") /\ UNCHANGED stats
          /\ JudgeK(Clauses(s.stim, [call_ok |-> E.call = "ok", handler_runs |-> s.handlers, peer_certs |-> s.certs, ext_certs |-> s.ext, peer_digests |-> s.digests, first_bytes |-> IF "first_bytes" \in DOMAIN E THEN E.first_bytes ELSE "none"])
                    \o << <<"C15.ConnectNeverHangs", E.connect # "hang" /\ E.call # "hang">> >>, [s EXCEPT !.client = TRUE, !.first = s.handlers])
\* the second connection of a two-connection run: s.handlers counts both connections' requests, the first one's share is s.first
Client2 == /\ Live("client2")
           /\ JudgeK(Clauses2(s.stim, [call_ok |-> E.call = "ok", handler_runs |-> s.handlers - s.first, first_bytes |-> E.first_bytes])
                     \o << <<"C15.ConnectNeverHangs", E.connect # "hang" /\ E.call # "hang">>, <<"HarnessOK", s.client /\ "second_alpn" \in DOMAIN s.stim>> >>, s)
           /\ Count({"second_connections"} \cup (IF E.resumed THEN {"second_resumed"} ELSE {}))
\* a load-balanced channel over two https endpoints: A's settings verify its server, B's (stim.b_domain) do or do not; every endpoint is
\* authenticated by its own settings, so requests reach B's handler only if B's settings are valid
BalanceTls == /\ Live("balance_tls") /\ UNCHANGED stats
              /\ JudgeK(<< <<"C15.NoRequestReachesHandlerOtherwise", s.stim.b_domain # "good.test" => E.b_hits = 0>>,
                           <<"C15.ValidConfigurationWorks", E.a_hits >= 1 /\ (s.stim.b_domain = "good.test" => E.ok_calls >= 15)>> >>, [s EXCEPT !.client = TRUE])
End == EndK(<< <<"RunComplete", E.outcome = "ok" => s.client>> >>)
Known == {"reset", "handler", "server_handshake_failed", "server_config_rejected", "client", "client2", "balance_tls", "end"}
Next == Reset \/ Handler \/ SrvFail \/ Client \/ Client2 \/ BalanceTls \/ End \/ UnknownK(Known) \/ DeadSkipK
Spec == Init /\ [][Next]_kvars
=============================================================================
