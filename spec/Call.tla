-------------------------------- MODULE Call --------------------------------
(* Contract of one RPC end to end (C02, C03 head clauses, C05, C08 and the call-level part of C06):
   what the wire must look like and what each side must observe, as functions of the *call*:
     stim.shape, stim.req (metadata, messages), stim.script (the handler's behaviour),
     stim.server / stim.client (compression configuration).
   Written from PROTOCOL-HTTP2.md and the gRPC compression document.  Header lists are sequences
   of [n (string), v (bytes)]; metadata entries are [n, bin, v].                                *)
EXTENDS StatusCodec, FramingContract

S_appgrpc  == <<97, 112, 112, 108, 105, 99, 97, 116, 105, 111, 110, 47, 103, 114, 112, 99>>
S_trailers == <<116, 114, 97, 105, 108, 101, 114, 115>>
S_identity == <<105, 100, 101, 110, 116, 105, 116, 121>>
EncBytes == ("gzip" :> <<103, 122, 105, 112>>) @@ ("deflate" :> <<100, 101, 102, 108, 97, 116, 101>>) @@ ("zstd" :> <<122, 115, 116, 100>>)
EncNames == DOMAIN EncBytes
EncOfBytes(b) == IF \E e \in EncNames : EncBytes[e] = b THEN CHOOSE e \in EncNames : EncBytes[e] = b ELSE "unknown"
PathOf == ("unary" :> <<47, 112, 46, 113, 46, 83, 118, 99, 47, 85, 110, 97, 114, 121>>)
       @@ ("cstream" :> <<47, 112, 46, 113, 46, 83, 118, 99, 47, 67, 83, 116, 114, 101, 97, 109>>)
       @@ ("sstream" :> <<47, 112, 46, 113, 46, 83, 118, 99, 47, 83, 83, 116, 114, 101, 97, 109>>)
       @@ ("bidi" :> <<47, 112, 46, 113, 46, 83, 118, 99, 47, 66, 105, 100, 105>>)
SeqToSet(q) == { q[i] : i \in 1..Len(q) }

(* ---- comma separated token lists (grpc-accept-encoding): split on ',', trim SP / HTAB *)
TrimWs(t) == LET keep == { i \in 1..Len(t) : t[i] # 32 /\ t[i] # 9 } IN
             IF keep = {} THEN <<>> ELSE SubSeq(t, CHOOSE i \in keep : \A j \in keep : i <= j, CHOOSE i \in keep : \A j \in keep : i >= j)
SplitStep(st, c) == IF c = 44 THEN [done |-> Append(st.done, st.cur), cur |-> <<>>] ELSE [st EXCEPT !.cur = Append(@, c)]
Tokens(v) == LET f == FoldLeft(SplitStep, [done |-> <<>>, cur |-> <<>>], v) all == Append(f.done, f.cur)
             IN [i \in 1..Len(all) |-> TrimWs(all[i])]
TokenSet(v) == SeqToSet(Tokens(v))
\* encodings offered by a header list (all values of the header, all tokens), unknown tokens ignored
OfferedEncs(list) == { e \in EncNames : \E i \in 1..Len(list) : list[i].n = "grpc-accept-encoding" /\ EncBytes[e] \in TokenSet(list[i].v) }
AcceptAdvertised(list) == { EncOfBytes(t) : t \in UNION { TokenSet(v) : v \in SeqToSet(Values(list, "grpc-accept-encoding")) } } \ {"unknown"}
AcceptTokensRaw(list) == UNION { TokenSet(v) : v \in SeqToSet(Values(list, "grpc-accept-encoding")) } \ {S_identity}

(* ---- frames of a tapped body, with decompression hints from the projection *)
NoDecomp == [ok |-> FALSE, v |-> <<>>]
HintAt(hints, off) == LET c == { i \in 1..Len(hints) : hints[i].off = off } IN IF c = {} THEN [off |-> -1] ELSE hints[CHOOSE i \in c : TRUE]
DecompBy(h, enc) == IF enc = "gzip" /\ "gzip" \in DOMAIN h THEN h.gzip ELSE IF enc = "deflate" /\ "deflate" \in DOMAIN h THEN h.deflate
                    ELSE IF enc = "zstd" /\ "zstd" \in DOMAIN h THEN h.zstd ELSE NoDecomp
HintsOK(bytes, hints) == LET fr == SelectSeq(ParseFrames(bytes).frames, LAMBDA f : f.complete) IN
                         Len(hints) = Len(fr) /\ \A i \in 1..Len(fr) : hints[i].off = fr[i].off /\ hints[i].flag = fr[i].flag /\ hints[i].len = fr[i].len
\* body (bytes, hints) carries exactly `msgs`; flagged frames must decompress with `enc` ("" = none announced)
BodyCarries(bytes, hints, msgs, enc) ==
  LET p == ParseFrames(bytes) IN
  /\ p.why = "clean" /\ Len(p.frames) = Len(msgs)
  /\ \A i \in 1..Len(p.frames) :
       LET f == p.frames[i] IN
       IF f.flag = 0 THEN f.payload = msgs[i]
       ELSE f.flag = 1 /\ enc # "" /\ DecompBy(HintAt(hints, f.off), enc) = [ok |-> TRUE, v |-> msgs[i]]
\* every frame flagged as compressed holds a complete stream of the announced encoding (an empty payload is not one)
FlaggedDecode(bytes, hints, enc) == \A i \in 1..Len(ParseFrames(bytes).frames) :
                                      LET f == ParseFrames(bytes).frames[i] IN f.flag = 1 => (enc # "" /\ DecompBy(HintAt(hints, f.off), enc).ok)
AllFlagged(bytes) == \A i \in 1..Len(ParseFrames(bytes).frames) : ParseFrames(bytes).frames[i].flag = 1
NoneFlagged(bytes) == \A i \in 1..Len(ParseFrames(bytes).frames) : ParseFrames(bytes).frames[i].flag = 0

(* ---- what the handler does, from the script *)
Single(shape) == shape \in {"unary", "cstream"}
Accepted(meta, rejected) == SelectSeq(meta, LAMBDA m : ~\E j \in 1..Len(rejected) : rejected[j] = m)
\* the client's encoding is not enabled on the server: the call is refused before any handler runs
EncRefused(stim) == stim.client.send # "" /\ stim.client.send \notin SeqToSet(stim.server.accept)
ReturnsResponse(stim) == LET sc == stim.script IN IF Single(stim.shape) THEN sc.end.ok ELSE ~sc.fail_before
SentMsgs(stim) == LET sc == stim.script IN
                  IF Single(stim.shape) THEN (IF sc.end.ok THEN <<sc.msgs[1]>> ELSE <<>>)
                  ELSE IF sc.fail_before THEN <<>> ELSE sc.msgs
FinalCode(stim) == IF stim.script.end.ok THEN 0 ELSE stim.script.end.code
ReqMsgsSeen(stim) == stim.req.msgs

(* ---- message size limits configured on the generated client / server (C06 at call level; identity encoding, or compressed runs that stay far below the limit) *)
FirstOver(msgs, lim) == IF lim < 0 THEN 0 ELSE SelectInSeq(msgs, LAMBDA m : Len(m) > lim)
ReqCut0(stim) == LET a == FirstOver(stim.req.msgs, stim.server.max_dec) b == FirstOver(stim.req.msgs, stim.client.max_enc) IN
                 IF a = 0 THEN b ELSE IF b = 0 THEN a ELSE Min2(a, b)
RespCut0(stim) == LET sent == SentMsgs(stim) a == FirstOver(sent, stim.server.max_enc) b == FirstOver(sent, stim.client.max_dec) IN
                  IF a = 0 THEN b ELSE IF b = 0 THEN a ELSE Min2(a, b)
\* stim.wire_small (optional): compression is negotiated in both directions and every message is a run of one byte, so its
\* on-the-wire payload is far below every configured limit whatever its uncompressed length: no limit is hit
WireSmall(stim) == "wire_small" \in DOMAIN stim /\ stim.wire_small
ReqCut(stim) == IF WireSmall(stim) THEN 0 ELSE ReqCut0(stim)
RespCut(stim) == IF WireSmall(stim) THEN 0 ELSE RespCut0(stim)
LimitHit(stim) == ReqCut(stim) # 0 \/ RespCut(stim) # 0
\* the call ends with OUT_OF_RANGE; every message before the offending one is still delivered, in order
LimitClauses(stim, cli, srvMsgs, srvSeen) ==
  LET rc == ReqCut(stim) pc == RespCut(stim) IN
  << <<"C06.OverLimitEndsTheCall", ~cli.ok>>,
     <<"C06.OverLimitIsOutOfRange", ~cli.ok => cli.st.code = OUT_OF_RANGE>>,
     <<"C06.EarlierRequestMessagesDelivered", (rc # 0 /\ srvSeen) => srvMsgs = SubSeq(stim.req.msgs, 1, rc - 1)>>,
     <<"C06.OversizeRequestNeverReachesHandler", (rc # 0 /\ Single(stim.shape) /\ stim.shape = "unary") => ~srvSeen>>,
     <<"C06.EarlierResponseMessagesDelivered", (rc = 0 /\ pc # 0 /\ ~Single(stim.shape)) => cli.msgs = SubSeq(SentMsgs(stim), 1, pc - 1)>> >>

(* ---- request head (C03, C05 client side, C08) *)
ReqHeadClauses(stim, h, reqMeta) ==
  << <<"C03.PostHttp2", h.method = "POST" /\ h.version = "HTTP/2.0">>,
     \* client.origin_prefix (optional): the client was given an origin with a path prefix; the method path follows the prefix (a slash that
     \* ends the prefix may or may not be kept: the statement speaks of the method's path, not of how a prefix is joined to it)
     <<"C03.Path", IF "origin_prefix" \in DOMAIN stim.client /\ stim.client.origin_prefix # <<>>
                   THEN LET pre == stim.client.origin_prefix
                            cut == IF pre[Len(pre)] = 47 THEN SubSeq(pre, 1, Len(pre) - 1) ELSE pre
                        IN h.path \in {pre \o PathOf[stim.shape], cut \o PathOf[stim.shape]}
                   ELSE h.path = PathOf[stim.shape]>>,
     <<"C03.ContentType", Values(h.list, "content-type") = <<S_appgrpc>> >>,
     <<"C03.TeTrailers", Values(h.list, "te") = <<S_trailers>> >>,
     <<"C05.ClientAnnouncesSendEncoding",
          Values(h.list, "grpc-encoding") = (IF stim.client.send = "" THEN <<>> ELSE <<EncBytes[stim.client.send]>>)>>,
     <<"C05.ClientAdvertisesAcceptSet",
          /\ AcceptAdvertised(h.list) = SeqToSet(stim.client.accept)
          /\ (stim.client.accept = <<>> => Values(h.list, "grpc-accept-encoding") = <<>>)
          /\ AcceptTokensRaw(h.list) \subseteq { EncBytes[e] : e \in EncNames }>>,
     <<"C08.RequestMetadataOnWire", MetadataCarried(h.list, reqMeta)>>,
     <<"C08.NoForgedRequestHeader", \A n \in Reserved : \A i \in 1..Len(reqMeta) : reqMeta[i].n = n => reqMeta[i].v \notin SeqToSet(Values(h.list, n))>> >>

(* ---- response (C03, C05 server side, C08) : head list, body bytes + hints, list of trailers blocks *)
StatusCount(list) == Len(Values(list, "grpc-status"))
RespEncoding(head) == LET g == Values(head, "grpc-encoding") IN IF g = <<>> THEN "" ELSE EncOfBytes(g[1])
ResponseClauses(stim, status, head, bytes, hints, trs, offered) ==
  LET trailersOnly == bytes = <<>> /\ trs = <<>>
      statusList == IF trailersOnly THEN head ELSE IF trs = <<>> THEN <<>> ELSE trs[Len(trs)]
      enc == RespEncoding(head)
      sc == stim.script
  IN << <<"C03.Http200", status = 200>>,
        <<"C03.RespContentType", Values(head, "content-type") = <<S_appgrpc>> >>,
        <<"C03.StatusOnce", IF trailersOnly THEN StatusCount(head) = 1
                            ELSE StatusCount(head) = 0 /\ Len(trs) = 1 /\ StatusCount(trs[1]) = 1>>,
        <<"C02.TrueStatusOnWire", StatusCount(statusList) = 1 => /\ StatusHeaderOK(statusList, FinalCode(stim))
                                                                    /\ (~sc.end.ok => MessageHeaderOK(statusList, sc.end.msg) /\ DetailsHeaderOK(statusList, sc.end.details))>>,
        <<"C03.BodyIsTheMessages", BodyCarries(bytes, hints, SentMsgs(stim), enc)>>,
        <<"C05.CompressedWithAnnouncedEncoding", FlaggedDecode(bytes, hints, enc)>>,
        <<"C05.EncodingOnlyAsNegotiated", enc # "" => (enc \in SeqToSet(stim.server.send) /\ enc \in offered)>>,
        <<"C05.AnnouncedIffChosen", Len(Values(head, "grpc-encoding")) <= 1 /\ (enc = "" => NoneFlagged(bytes))>>,
        <<"C05.OptOutRespected", (sc.no_compress /\ Single(stim.shape) /\ ReturnsResponse(stim)) => NoneFlagged(bytes)>>,
        <<"C08.InitialMetadataOnWire", ReturnsResponse(stim) => MetadataCarried(head, sc.init_meta)>>,
        <<"C08.ErrorMetadataOnWire", (~sc.end.ok /\ StatusCount(statusList) = 1) => MetadataCarried(statusList, sc.end.meta)>>,
        <<"C08.TrailerMetadataOnWire", (sc.end.ok /\ "meta" \in DOMAIN sc.end /\ ~Single(stim.shape) /\ StatusCount(statusList) = 1) => MetadataCarried(statusList, sc.end.meta)>>,
        <<"C08.NoForgedResponseHeader",
             \A n \in Reserved \ {"grpc-status", "grpc-message"} :
               /\ (ReturnsResponse(stim) => \A i \in 1..Len(sc.init_meta) : sc.init_meta[i].n = n => sc.init_meta[i].v \notin SeqToSet(Values(head, n)))
               /\ (~sc.end.ok => \A i \in 1..Len(sc.end.meta) : sc.end.meta[i].n = n => sc.end.meta[i].v \notin SeqToSet(Values(statusList, n)))>> >>

(* ---- what the handler must have seen (C02, second sentence; C08) *)
HandlerClauses(stim, srv, reqMeta) ==
  << <<"C02.HandlerSeesRequestMessages", srv.msgs = ReqMsgsSeen(stim) /\ srv.err = -1>>,
     <<"C08.HandlerSeesRequestMetadata", MetadataReceived(srv.meta, reqMeta)>> >>

(* ---- the generated client against a canned http response (mode "mock"): C05 response side, C04 classification *)
MockEnc(m) == LET g == Values(m.headers, "grpc-encoding") IN IF g = <<>> \/ g[1] = S_identity THEN "" ELSE EncOfBytes(g[1])
MockBody(m) == FlattenSeq(m.body_chunks)
MockFlagged(m) == \E i \in 1..Len(ParseFrames(MockBody(m)).frames) : ParseFrames(MockBody(m)).frames[i].flag = 1
MockFramesOK(m) == ParseFrames(MockBody(m)).why = "clean" /\ \A i \in 1..Len(ParseFrames(MockBody(m)).frames) : ParseFrames(MockBody(m)).frames[i].flag = 0
MockHeadCode(m) == IF HasName(m.headers, "grpc-status") THEN CodeOf(Values(m.headers, "grpc-status")[1]) ELSE -1
MockTrailCode(m) == IF m.has_trailers /\ HasName(m.trailers, "grpc-status") THEN CodeOf(Values(m.trailers, "grpc-status")[1]) ELSE -1
\* responses of a peer that attaches custom metadata to the headers (m.hmeta) and to the trailers (m.tmeta; disjoint names), single and
\* repeated, ASCII and binary: a unary call's Response carries both, a stream's Response the first and its trailers() the second, an
\* error status read from the trailers the second; and an error of any other origin never carries some of an entry's values without the rest
MockMetaClauses(stim, cli, hc, tc) ==
  LET m == stim.mock  all == m.hmeta \o m.tmeta IN
  << <<"C08.InitialMetadataReceived", cli.ok => MetadataReceived(cli.init, m.hmeta)>>,
     <<"C08.TrailerMetadataReceived", cli.ok => MetadataReceived(IF stim.shape = "unary" THEN cli.init ELSE cli.trailers, m.tmeta)>>,
     <<"C08.ErrorMetadataReceived", (~cli.ok /\ hc = -1 /\ tc > 0) => MetadataReceived(cli.st.meta, m.tmeta)>>,
     <<"C08.NoPartialEntry", ~cli.ok => \A n \in MetaNames(all) : MetaVals(cli.st.meta, n) \in {<<>>, MetaVals(all, n)}>> >>
MockClauses(stim, cli) ==
  LET m == stim.mock  enc == MockEnc(m)  accept == SeqToSet(stim.client.accept)
      refusedEnc == enc # "" /\ enc \notin accept
      hc == MockHeadCode(m)  tc == MockTrailCode(m)
  IN << <<"C05.UnsupportedResponseEncodingIsUnimplemented", refusedEnc => (~cli.ok /\ cli.st.code = 12)>>,
        <<"C04.TrailersOnlyErrorIsReported", (~refusedEnc /\ hc > 0) => (~cli.ok /\ cli.st.code = hc)>>,
        <<"C05.FlagWithoutEncodingIsInternal", (~refusedEnc /\ hc = -1 /\ enc = "" /\ m.status = 200 /\ MockFlagged(m) /\ m.first_flagged) => (~cli.ok /\ cli.st.code = 13)>>,
        \* (whatever the HTTP status: the mapping from the HTTP status is for responses in which no grpc-status is available)
        <<"C04.TrailerStatusIsReported", (~refusedEnc /\ hc = -1 /\ MockFramesOK(m) /\ tc > 0) => (~cli.ok /\ cli.st.code = tc)>>,
        <<"C04.HttpStatusIsClassified", (~refusedEnc /\ hc = -1 /\ tc = -1 /\ m.status # 200 /\ MockBody(m) = <<>>) => (~cli.ok /\ cli.st.code = HttpToGrpc(m.status))>>,
        \* (a response with an OK grpc-status in its headers AND a status in trailers contradicts itself: the text is silent, either reading is accepted)
        <<"C02.SuccessNeedsOkStatus", cli.ok => (~refusedEnc /\ hc \in {-1, 0} /\ (hc = -1 => tc \in {-1, 0}))>>,
        <<"C04.NonOkHttpWithoutGrpcStatusIsAnError", (~refusedEnc /\ hc = -1 /\ tc = -1 /\ m.status # 200) => ~cli.ok>>,
        <<"C02.StreamMessagesBeforeStatus", (stim.shape = "sstream" /\ ~refusedEnc /\ hc = -1 /\ m.status = 200 /\ MockFramesOK(m))
                                             => cli.msgs = [i \in 1..Len(ParseFrames(MockBody(m)).frames) |-> ParseFrames(MockBody(m)).frames[i].payload]>>,
        <<"C02.OkTrailersAfterMessagesIsSuccess", (~refusedEnc /\ hc = -1 /\ m.status = 200 /\ tc = 0 /\ MockFramesOK(m)
                                                   /\ (stim.shape = "sstream" \/ Len(ParseFrames(MockBody(m)).frames) = 1)) => cli.ok>> >>
     \o (IF "tmeta" \in DOMAIN m THEN MockMetaClauses(stim, cli, hc, tc) ELSE <<>>)
     \* m.st (optional): the status the peer's headers / trailers spell (code, message, details): what the caller is given is that status
     \o (IF "st" \in DOMAIN m THEN << <<"C02.SameStatus", ~cli.ok /\ cli.st.some /\ cli.st.code = m.st.code /\ cli.st.msg = m.st.msg /\ cli.st.details = m.st.details>> >> ELSE <<>>)

(* ---- what the client API must yield (C02, first sentence; C08) *)
StatusEquals(st, end) == st.some /\ st.code = end.code /\ st.msg = end.msg /\ st.details = end.details
ClientClauses(stim, cli) ==
  LET sc == stim.script IN
  IF Single(stim.shape) THEN
    << <<"C02.SuccessOnlyIfHandlerSucceeded", cli.ok <=> sc.end.ok>>,
       <<"C02.SingleMessage", cli.ok => cli.msgs = <<sc.msgs[1]>> >>,
       <<"C08.InitialMetadataReceived", cli.ok => MetadataReceived(cli.init, sc.init_meta)>>,
       <<"C02.SameStatus", ~sc.end.ok => (~cli.ok => StatusEquals(cli.st, sc.end))>>,
       <<"C08.ErrorMetadataReceived", (~sc.end.ok /\ ~cli.ok) => MetadataReceived(cli.st.meta, sc.end.meta)>> >>
  ELSE
    << <<"C02.SuccessOnlyIfHandlerSucceeded", cli.ok <=> sc.end.ok>>,
       <<"C02.FailBeforeStream", sc.fail_before => (~cli.got_head /\ cli.msgs = <<>>)>>,
       <<"C02.SameMessagesInOrder", ~sc.fail_before => (cli.got_head /\ cli.msgs = sc.msgs)>>,
       <<"C08.InitialMetadataReceived", ~sc.fail_before => MetadataReceived(cli.init, sc.init_meta)>>,
       <<"C02.SameStatus", ~sc.end.ok => (~cli.ok => StatusEquals(cli.st, sc.end))>>,
       <<"C08.ErrorMetadataReceived", (~sc.end.ok /\ ~cli.ok) => MetadataReceived(cli.st.meta, sc.end.meta)>>,
       \* a successful stream that ends with trailing metadata (an OK status carrying entries): the caller finds them in trailers()
       <<"C08.TrailerMetadataReceived", (sc.end.ok /\ "meta" \in DOMAIN sc.end /\ cli.ok) => MetadataReceived(cli.trailers, sc.end.meta)>> >>
=============================================================================
