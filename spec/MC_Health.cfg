SPECIFICATION Spec
CONSTANTS
  Svcs = {"", "a"}
  Stats = {"1", "2"}
  MaxOps = 4
  MaxW = 2
  SendOnExisting = TRUE
INVARIANTS OnlySetValues EndsOnlyAfterClear
PROPERTY CatchUp
CHECK_DEADLOCK FALSE
