------------------------------- MODULE WebB64 -------------------------------
(* Mechanism model of tonic-web's base64 request decoding (C16): GrpcWebCall::poll_decode with Encoding::Base64 -
   the carry buffer `buf`, max_decodable(), decode_chunk(), and the end-of-body rule (tonic-web/src/call.rs).
   A grpc-web-text body is a concatenation of independently padded base64 segments; only the *shape* of the text
   matters here (where the padding symbols are), so symbols are "D" (any alphabet symbol) and "=" and the model counts
   decoded bytes; byte fidelity is checked on real traces by Bytes!B64Decode.
   The body arrives in chunks of any sizes.  poll_decode always decodes what it can before it reads more.
   Named deviation: SegmentAware = FALSE is the code before fix ecf2234f - the slice handed to the decoder runs to the
   last multiple of four even across a padding symbol.                                                            *)
EXTENDS Naturals, Sequences, FiniteSets, TLC
CONSTANTS MaxGroups,       \* texts have at most this many 4-symbol groups
          SegmentAware
Groups == { <<"D", "D", "D", "D">>, <<"D", "D", "D", "=">>, <<"D", "D", "=", "=">> }
GroupBytes(g) == IF g[4] # "=" THEN 3 ELSE IF g[3] # "=" THEN 2 ELSE 1
RECURSIVE Flat(_)
Flat(q) == IF q = <<>> THEN <<>> ELSE Head(q) \o Flat(Tail(q))
GroupSeqs == UNION { [1..n -> Groups] : n \in 0..MaxGroups }
\* well-formed texts and the same texts with 1..3 symbols missing at the end (malformed)
Texts == { Flat(g) : g \in GroupSeqs } \cup { SubSeq(Flat(g), 1, Len(Flat(g)) - k) : g \in GroupSeqs \ {<<>>}, k \in 1..3 }
GroupAt(t, i) == SubSeq(t, 4 * i - 3, 4 * i)
WellFormed(t) == Len(t) % 4 = 0 /\ \A i \in 1..(Len(t) \div 4) : GroupAt(t, i) \in Groups
RECURSIVE SumBytes(_, _)
SumBytes(t, i) == IF i = 0 THEN 0 ELSE GroupBytes(GroupAt(t, i)) + SumBytes(t, i - 1)
Expected(t) == SumBytes(t, Len(t) \div 4)

VARIABLES text, pos,   \* the body and the index of its next undelivered symbol
          buf,         \* GrpcWebCall.buf
          out,         \* bytes handed to the inner service so far
          st           \* "run" | "err" | "end"
vars == <<text, pos, buf, out, st>>
Init == text \in Texts /\ pos = 1 /\ buf = <<>> /\ out = 0 /\ st = "run"

FirstPad(b) == IF \E i \in 1..Len(b) : b[i] = "=" THEN CHOOSE i \in 1..Len(b) : b[i] = "=" /\ \A j \in 1..(i - 1) : b[j] # "=" ELSE 0
MaxDecodable(b) == IF SegmentAware /\ FirstPad(b) # 0
                   THEN LET p0 == FirstPad(b) - 1  end == (p0 \div 4 + 1) * 4 IN IF end <= Len(b) THEN end ELSE (p0 \div 4) * 4
                   ELSE (Len(b) \div 4) * 4
\* what the base64 engine (padding mode Indifferent) accepts: padding only in the last group of the slice
SliceOK(sl) == /\ \A i \in 1..(Len(sl) \div 4 - 1) : GroupAt(sl, i) = <<"D", "D", "D", "D">>
               /\ GroupAt(sl, Len(sl) \div 4) \in Groups
\* decode_chunk
Decode == /\ st = "run" /\ Len(buf) >= 4 /\ MaxDecodable(buf) > 0
          /\ LET n == MaxDecodable(buf)  sl == SubSeq(buf, 1, n) IN
             IF SliceOK(sl) THEN out' = out + Expected(sl) /\ buf' = SubSeq(buf, n + 1, Len(buf)) /\ UNCHANGED st
             ELSE st' = "err" /\ UNCHANGED <<out, buf>>
          /\ UNCHANGED <<text, pos>>
CanDecode == Len(buf) >= 4 /\ MaxDecodable(buf) > 0
\* inner.poll_frame: a data chunk of k symbols
Arrive(k) == /\ st = "run" /\ ~CanDecode /\ pos + k - 1 <= Len(text)
             /\ buf' = buf \o SubSeq(text, pos, pos + k - 1) /\ pos' = pos + k /\ UNCHANGED <<text, out, st>>
\* inner.poll_frame = None
Eof == /\ st = "run" /\ ~CanDecode /\ pos > Len(text)
       /\ st' = (IF buf # <<>> THEN "err" ELSE "end") /\ UNCHANGED <<text, pos, buf, out>>
Next == Decode \/ (\E k \in 1..12 : Arrive(k)) \/ Eof
Spec == Init /\ [][Next]_vars /\ WF_vars(Next)

(* ------------------------------------------------------------------ Contract (C16, request direction) *)
\* a well-formed body reaches the inner service completely whatever the chunking; a malformed one is an error
NoSpuriousError == st = "err" => ~WellFormed(text)
CompleteAtEnd == st = "end" => (WellFormed(text) /\ out = Expected(text))
NeverTooMuch == out <= Expected(SubSeq(text, 1, (Len(text) \div 4) * 4))
Terminates == <>(st \in {"err", "end"})
=============================================================================
