SPECIFICATION TSpec
CONSTANTS
  Svcs = {"", "a", "b", "n", "s0", "s1", "s2", "s3", "s4", "s5", "s6", "s7"}
  Stats = {0, 1, 2}
  MaxOps = 200
  MaxW = 40
  SendOnExisting = TRUE
  Serving <- ServingT
  Default <- DefaultT
CONSTRAINT Progress
INVARIANT MechInv
POSTCONDITION Accepted
CHECK_DEADLOCK FALSE
