------------------------------ MODULE GrpcWeb ------------------------------
(* Contract of the grpc-web translation layers (C16 server layer, C17 client layer), written from the
   grpc-web protocol document (PROTOCOL-WEB.md): a response body is the gRPC length-prefixed messages
   followed by one frame with the most significant flag bit set (0x80) whose payload is the trailers as an
   HTTP/1 header block (name ":" value CRLF ...); in the -text variants the byte stream is base64, possibly
   as several independently padded segments.                                                          *)
EXTENDS Bytes
TrailerFlag == 128
SeqToSet(q) == { q[i] : i \in 1..Len(q) }
\* ---- base64 text made of padded segments: every 4-symbol group decodes on its own
TextDecode(t) == IF Len(t) % 4 # 0 THEN <<FALSE, <<>>>>
                 ELSE LET g == [k \in 1..(Len(t) \div 4) |-> B64Decode(SubSeq(t, 4 * k - 3, 4 * k))] IN
                      IF \E k \in 1..Len(g) : ~g[k][1] THEN <<FALSE, <<>>>> ELSE <<TRUE, FlattenSeq([k \in 1..Len(g) |-> g[k][2]])>>
\* ---- trailer block: lines "name:value" separated by CRLF (optional single space after the colon)
SplitLinesStep(st, c) == IF c = 10 /\ st.cur # <<>> /\ st.cur[Len(st.cur)] = 13
                         THEN [done |-> Append(st.done, SubSeq(st.cur, 1, Len(st.cur) - 1)), cur |-> <<>>]
                         ELSE [st EXCEPT !.cur = Append(@, c)]
Lines(b) == LET f == FoldLeft(SplitLinesStep, [done |-> <<>>, cur |-> <<>>], b) IN [lines |-> f.done, rest |-> f.cur]
ParseLine(ln) == LET c == SelectInSeq(ln, LAMBDA x : x = 58) IN
                 IF c = 0 THEN [ok |-> FALSE, n |-> <<>>, v |-> <<>>]
                 ELSE LET v0 == SubSeq(ln, c + 1, Len(ln)) IN
                      [ok |-> TRUE, n |-> LowerSeq(SubSeq(ln, 1, c - 1)), v |-> IF v0 # <<>> /\ v0[1] = 32 THEN Tail(v0) ELSE v0]
ParseTrailerBlock(b) == LET L == Lines(b) ps == [i \in 1..Len(L.lines) |-> ParseLine(L.lines[i])] IN
                        [ok |-> L.rest = <<>> /\ \A i \in 1..Len(ps) : ps[i].ok, entries |-> ps]
\* multimap equality: expected entries [nb (name bytes), v]; order preserved per name
SameTrailers(entries, want) ==
  /\ { entries[i].n : i \in 1..Len(entries) } = { want[i].nb : i \in 1..Len(want) }
  /\ \A nb \in { want[i].nb : i \in 1..Len(want) } :
       LET e == SelectSeq(entries, LAMBDA x : x.n = nb) w == SelectSeq(want, LAMBDA x : x.nb = nb) IN
       Len(e) = Len(w) /\ \A i \in 1..Len(w) : e[i].v = w[i].v
\* ---- a decoded grpc-web body: messages then exactly one trailers frame, nothing after
\* returns [ok, msgs (bytes of all message frames incl. prefixes), tb (trailer block)]
SplitWebBody(b) ==
  LET p == ParseFrames(b)
      k == SelectInSeq(p.frames, LAMBDA f : f.flag = TrailerFlag) IN
  IF p.why # "clean" \/ k = 0 \/ k # Len(p.frames) \/ \E i \in 1..(Len(p.frames) - 1) : p.frames[i].flag \notin {0, 1}
  THEN [ok |-> FALSE, msgs |-> <<>>, tb |-> <<>>]
  ELSE [ok |-> TRUE, msgs |-> SubSeq(b, 1, p.frames[k].off), tb |-> p.frames[k].payload]
TrailersFrame(tb) == <<TrailerFlag>> \o BE32(Len(tb)) \o tb
=============================================================================
