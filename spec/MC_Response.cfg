SPECIFICATION Spec
INVARIANTS TableOK Export
CHECK_DEADLOCK FALSE
