SPECIFICATION Spec
CONSTANTS
  Scripts <- ScriptsDef
  Lazy = FALSE
  MaxCalls = 5
  TakeError = TRUE
  SetConnected = FALSE
INVARIANTS Contract EagerOK
PROPERTY AlwaysAnswers
CHECK_DEADLOCK FALSE
