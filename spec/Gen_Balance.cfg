SPECIFICATION GSpec
CONSTANTS
  Keys = {"k1", "k2"}
  Srvs = {"a", "b"}
  None = "-"
  MaxSteps = 13
  DrainAll = TRUE
  PromoteAll = TRUE
INVARIANT Export
CHECK_DEADLOCK FALSE
