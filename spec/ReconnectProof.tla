--------------------------- MODULE ReconnectProof ---------------------------
(* TLAPS proof that the Mechanism model of the reconnecting channel (Reconnect.tla) satisfies the C14 Contract for ANY set
   of scripts over {F, S, D} of any length and any number of calls (TLC explores all scripts up to length 5 / 7):
     THEOREM Safety == Spec => []Contract
   under the assumptions that Reconnect::call takes the stored error (TakeError) and that poll_ready records
   has_been_connected (SetConnected).                                                                          *)
EXTENDS Reconnect, SequenceTheorems, TLAPS

ASSUME ConstAssump == /\ Scripts \subseteq Seq({"F", "S", "D"})
                      /\ Lazy \in BOOLEAN /\ MaxCalls \in Nat
                      /\ TakeError = TRUE /\ SetConnected = TRUE

Res == {"F", "S"}
CurRec == [consumed : Seq(Res), aliveAtStart : BOOLEAN, killedBefore : Nat]
CallRec == [res : {"ok", "unavailable", "closed"}, consumed : Seq(Res), aliveAtStart : BOOLEAN, killedBefore : Nat]
TypeOK == /\ script \in Seq({"F", "S", "D"}) /\ pos \in Nat \ {0}
          /\ st \in {"Idle", "Connecting", "Connected"} /\ pending \in {"F", "S", "-"}
          /\ alive \in BOOLEAN /\ err \in BOOLEAN /\ hbc \in BOOLEAN
          /\ pc \in {"connect", "idle", "polling", "ready", "closed", "connect_failed"}
          /\ cur \in CurRec /\ calls \in Seq(CallRec)
\* what the call in progress has established so far
Usable == (cur.consumed = <<>> /\ cur.aliveAtStart) \/ (cur.consumed # <<>> /\ Last(cur.consumed) = "S")
Aux == /\ (pc \in {"idle", "polling", "ready"} /\ ~Lazy) => hbc                  \* an eager channel that got past connect() has been connected
       /\ pc # "closed"
       /\ (pc \in {"idle", "connect"}) => ~err                                  \* a stored error is taken by the call that triggered it
       /\ (st = "Connecting") => (pending \in Res /\ cur.consumed # <<>> /\ Last(cur.consumed) = pending)
       /\ (st # "Connecting") => pending = "-"
       /\ (pc = "polling" /\ st = "Connected" /\ alive) => Usable
       /\ (pc = "ready" /\ ~err) => Usable
       /\ (pc \in {"polling", "ready"} /\ err) => (pc = "ready" /\ cur.consumed # <<>> /\ Last(cur.consumed) = "F")
       /\ (pc = "polling" /\ cur.consumed = <<>>) => cur.aliveAtStart = alive
       /\ (alive => st = "Connected")
       /\ (pc \in {"idle", "ready"}) => st # "Connecting"
       /\ Lazy => pc # "connect"
       /\ (pc = "connect") => (~hbc /\ (st = "Connected" => alive))
IndInv == TypeOK /\ Aux /\ Contract

LEMMA LastAppend == ASSUME NEW S, NEW q \in Seq(S), NEW x \in S PROVE Append(q, x) # <<>> /\ Last(Append(q, x)) = x /\ Append(q, x) \in Seq(S)
  BY DEF Last
LEMMA NoCallOK == NoCall \in CurRec BY DEF NoCall, CurRec

LEMMA InitInv == Init => IndInv
  BY ConstAssump, NoCallOK DEF Init, IndInv, TypeOK, Aux, Contract, Usable, NoCall, CurRec, CallRec, Res

\* appending a call that satisfies CallOK keeps the Contract
Fin(r) == [res |-> r, consumed |-> cur.consumed, aliveAtStart |-> cur.aliveAtStart, killedBefore |-> cur.killedBefore]
LEMMA FinishKeeps == ASSUME TypeOK, Contract, NEW r \in {"ok", "unavailable"}, CallOK(Fin(r)), calls' = Append(calls, Fin(r))
                     PROVE Contract' /\ calls' \in Seq(CallRec)
<1>1. Fin(r) \in CallRec BY DEF TypeOK, CurRec, CallRec, Fin
<1>2. calls \in Seq(CallRec) BY DEF TypeOK
<1>3. Len(calls') = Len(calls) + 1 /\ calls'[Len(calls) + 1] = Fin(r) /\ (\A i \in 1..Len(calls) : calls'[i] = calls[i]) /\ calls' \in Seq(CallRec)
  BY <1>1, <1>2
<1>4. Len(calls) \in Nat BY <1>2
<1>5. ASSUME NEW i \in 1..Len(calls') PROVE CallOK(calls'[i])
  <2>1. CASE i \in 1..Len(calls) BY <2>1, <1>3 DEF Contract
  <2>2. CASE i = Len(calls) + 1 BY <2>2, <1>3
  <2> QED BY <2>1, <2>2, <1>3, <1>4
<1>6. Contract' BY <1>5 DEF Contract
<1> QED BY <1>3, <1>6

LEMMA Step == ASSUME IndInv, Next PROVE IndInv'
<1> USE ConstAssump DEF IndInv
<1>1. CASE Kill
  BY <1>1 DEF Kill, Quiescent, TypeOK, Aux, Contract, Usable, CurRec, CallRec, Res
<1>2. CASE Issue
  BY <1>2 DEF Issue, Quiescent, TypeOK, Aux, Contract, Usable, CurRec, CallRec, Res
<1>3. CASE PR_Err
  BY <1>3 DEF PR_Err, Polling, TypeOK, Aux, Contract, Usable, CurRec, CallRec, Res
<1>4. CASE PR_IdleMake
  <2> DEFINE has == pos <= Len(script) /\ script[pos] \in {"F", "S"}
             r == IF has THEN script[pos] ELSE "F"
  <2>1. r \in Res /\ cur.consumed \in Seq(Res) BY <1>4 DEF PR_IdleMake, TypeOK, CurRec, Res
  <2>2. /\ pending' = r /\ cur' = [cur EXCEPT !.consumed = Append(@, r)] /\ st' = "Connecting" /\ pos' = (IF has THEN pos + 1 ELSE pos)
        /\ UNCHANGED <<script, alive, err, hbc, pc, calls>> /\ Polling /\ ~err /\ st = "Idle"
    BY <1>4 DEF PR_IdleMake
  <2>3. Append(cur.consumed, r) # <<>> /\ Last(Append(cur.consumed, r)) = r /\ Append(cur.consumed, r) \in Seq(Res)
    BY <2>1, LastAppend
  <2>4. cur' \in CurRec /\ cur'.consumed = Append(cur.consumed, r) BY <2>2, <2>3 DEF TypeOK, CurRec
  <2>5. TypeOK' BY <2>1, <2>2, <2>4 DEF TypeOK, Res
  <2>6. Aux' BY <2>1, <2>2, <2>3, <2>4 DEF Aux, TypeOK, Polling, Usable, Res
  <2>7. Contract' BY <2>2 DEF Contract
  <2> QED BY <2>5, <2>6, <2>7
<1>5. CASE PR_ConnOk
  BY <1>5 DEF PR_ConnOk, Polling, TypeOK, Aux, Contract, Usable, CurRec, CallRec, Res
<1>6. CASE PR_ConnFail
  <2>0. Polling /\ ~err /\ st = "Connecting" /\ pending = "F" /\ st' = "Idle" /\ pending' = "-" /\ UNCHANGED <<script, pos, alive, hbc>>
    BY <1>6 DEF PR_ConnFail
  <2>1. CASE ~(hbc \/ Lazy)
    <3>1. pc = "connect" BY <2>0, <2>1 DEF Aux, Polling
    <3>2. pc' = "connect_failed" /\ UNCHANGED <<err, calls, cur>> BY <1>6, <2>1, <3>1 DEF PR_ConnFail
    <3> QED BY <2>0, <3>1, <3>2 DEF TypeOK, Aux, Contract, Usable, CurRec, CallRec, Res
  <2>2. CASE hbc \/ Lazy
    <3>1. err' = TRUE /\ pc' = (IF pc = "connect" THEN "idle" ELSE "ready") /\ UNCHANGED <<calls, cur>> BY <1>6, <2>2 DEF PR_ConnFail
    <3>2. pc # "connect" BY <2>0, <2>2 DEF Aux, Polling, TypeOK
    <3> QED BY <2>0, <3>1, <3>2 DEF TypeOK, Aux, Contract, Usable, Polling, CurRec, CallRec, Res
  <2> QED BY <2>1, <2>2
<1>7. CASE PR_Connected
  BY <1>7 DEF PR_Connected, Polling, TypeOK, Aux, Contract, Usable, CurRec, CallRec, Res
<1>8. CASE CallStep
  <2>0. pc = "ready" /\ pc' = "idle" /\ UNCHANGED <<script, pos, st, pending, alive, hbc>> BY <1>8 DEF CallStep
  <2>1. CASE err
    <3> DEFINE c == Fin("unavailable")
    <3>1. calls' = Append(calls, c) /\ cur' = NoCall /\ err' = FALSE BY <1>8, <2>1 DEF CallStep, Finish, Fin
    <3>2. cur.consumed # <<>> /\ Last(cur.consumed) = "F" /\ cur.consumed \in Seq(Res) BY <2>0, <2>1 DEF Aux, TypeOK, CurRec
    <3>3. \E i \in 1..Len(cur.consumed) : cur.consumed[i] = "F" BY <3>2 DEF Last
    <3>4. CallOK(c) BY <3>2, <3>3 DEF CallOK, Fin
    <3>5. Contract' /\ calls' \in Seq(CallRec) BY <3>1, <3>4, FinishKeeps
    <3> QED BY <2>0, <3>1, <3>5, NoCallOK DEF TypeOK, Aux, Usable, NoCall
  <2>2. CASE ~err
    <3> DEFINE c == Fin("ok")
    <3>1. calls' = Append(calls, c) /\ cur' = NoCall /\ UNCHANGED err BY <1>8, <2>2 DEF CallStep, Finish, Fin
    <3>2. Usable BY <2>0, <2>2 DEF Aux
    <3>4. CallOK(c) BY <3>2 DEF CallOK, Usable, Fin
    <3>5. Contract' /\ calls' \in Seq(CallRec) BY <3>1, <3>4, FinishKeeps
    <3> QED BY <2>0, <2>2, <3>1, <3>5, NoCallOK DEF TypeOK, Aux, Usable, NoCall
  <2> QED BY <2>1, <2>2
<1>9. CASE ClosedCall
  BY <1>9 DEF ClosedCall, Aux
<1> QED BY <1>1, <1>2, <1>3, <1>4, <1>5, <1>6, <1>7, <1>8, <1>9 DEF Next, Worker

LEMMA Stutter == IndInv /\ UNCHANGED vars => IndInv'
  BY DEF IndInv, TypeOK, Aux, Contract, Usable, vars

THEOREM Inductive == Spec => []IndInv
<1>1. IndInv /\ [Next]_vars => IndInv' BY Step, Stutter
<1> QED BY <1>1, InitInv, PTL DEF Spec

THEOREM Safety == Spec => []Contract
<1>1. IndInv => Contract BY DEF IndInv
<1> QED BY <1>1, Inductive, PTL
=============================================================================
