---------------------------- MODULE Trace_Deadline ----------------------------
(* Trace validation for C09: the deadline lab (encode / parse records) and call-lab runs with timeouts
   in virtual time (class "deadline": events srv_req, srv_done, cli, timing). *)
EXTENDS Deadline, TraceKit
Fresh(stim) == [stim |-> stim, cli |-> [none |-> TRUE], timing |-> -1, parsed |-> FALSE, enc |-> <<>>]
Keys == {"runs", "encode", "parse", "enforce", "unit_H", "unit_M", "unit_S", "unit_m", "unit_u", "unit_n", "conformant_inputs", "malformed_inputs",
         "cut_off", "finished", "ties"}
Init == InitK(Fresh([kind |-> "none"]), Keys)
KindOf(stim) == IF "kind" \in DOMAIN stim THEN stim.kind ELSE "enforce"
Reset == ResetK(Fresh(E.stim)) /\ Count({"runs", IF KindOf(E.stim) \in {"encode", "parse", "absent"} THEN (IF KindOf(E.stim) = "encode" THEN "encode" ELSE "parse") ELSE "enforce"})
UnitKey(v) == IF v = <<>> THEN {} ELSE LET u == v[Len(v)] IN
              IF u = 72 THEN {"unit_H"} ELSE IF u = 77 THEN {"unit_M"} ELSE IF u = 83 THEN {"unit_S"} ELSE IF u = 109 THEN {"unit_m"}
              ELSE IF u = 117 THEN {"unit_u"} ELSE IF u = 110 THEN {"unit_n"} ELSE {}
Enc == /\ Live("enc")
       /\ JudgeK(EncodeClauses(TotalNanos(s.stim.secs, s.stim.nanos), E.value) \o << <<"C09.SingleHeader", E.count = 1>> >>, [s EXCEPT !.enc = E.value])
       /\ Count(UnitKey(E.value))
Parsed == /\ Live("parsed")
          /\ LET v == IF KindOf(s.stim) = "encode" THEN s.enc ELSE IF KindOf(s.stim) = "absent" THEN <<>> ELSE s.stim.value IN
             /\ JudgeK(IF KindOf(s.stim) = "absent" THEN << <<"C09.AbsentMeansNoDeadline", E.k = "none">> >> ELSE ParseClauses(v, E), [s EXCEPT !.parsed = TRUE])
             /\ Count(IF KindOf(s.stim) = "parse" THEN (IF ValueOK(v) THEN {"conformant_inputs"} ELSE {"malformed_inputs"}) ELSE {})
\* ---- enforcement runs (call lab)
Present(stim) == { t \in { (IF "timeout_ms" \in DOMAIN stim.client THEN stim.client.timeout_ms ELSE -1),
                           (IF "endpoint_timeout_ms" \in DOMAIN stim.client THEN stim.client.endpoint_timeout_ms ELSE -1),
                           (IF "timeout_ms" \in DOMAIN stim.server THEN stim.server.timeout_ms ELSE -1) } : t >= 0 }
SameTick(stim) == "same_tick" \in DOMAIN stim /\ stim.same_tick
Ignore == /\ l <= Len(Rec) /\ ~dead /\ E.e \in {"cli_built", "srv_req", "srv_done", "bodies", "req_head", "resp_head", "frame"} /\ l' = l + 1
          /\ UNCHANGED <<run, dead, bad, s, stats>>
Cli == /\ Live("cli") /\ UNCHANGED stats /\ JudgeK(<<>>, [s EXCEPT !.cli = E])
S_timeout == <<84, 105, 109, 101, 111, 117, 116, 32, 101, 120, 112, 105, 114, 101, 100>>
Timing == /\ Live("timing")
          /\ LET T == IF SameTick(s.stim) THEN {} ELSE Present(s.stim) L == IF SameTick(s.stim) THEN 0 ELSE s.stim.script.latency_ms
                 out == [ok |-> s.cli.ok, code |-> IF s.cli.ok THEN 0 ELSE s.cli.st.code, elapsed |-> E.elapsed_ms] IN
             /\ JudgeK(<< <<"HarnessOK", "none" \notin DOMAIN s.cli>>,
                          \* stim.same_tick: sub-millisecond latency and timeout (script.latency_us < timeout_us, both within one tick of the runtime's
                          \* 1 ms timer wheel): the handler finishes before the deadline, so the call is unaffected - however the two wake-ups are ordered
                          <<"C09.ShortestDeadlineEnforced", IF SameTick(s.stim) THEN (s.stim.script.latency_us < s.stim.min_timeout_us => out.ok) ELSE EnforceOK(T, L, out)>>,
                          <<"C09.TimeoutExpiredMessage", (~out.ok /\ T # {} /\ L >= MinOf(T)) => s.cli.st.msg = S_timeout>> >>,
                       [s EXCEPT !.timing = E.elapsed_ms])
             /\ Count((IF ~s.cli.ok THEN {"cut_off"} ELSE {"finished"}) \cup (IF T # {} /\ L = MinOf(T) THEN {"ties"} ELSE {}))
End == EndK(<< <<"RunComplete", E.outcome = "ok" => (IF KindOf(s.stim) = "enforce" THEN s.timing >= 0 ELSE s.parsed)>> >>)
Known == {"reset", "enc", "parsed", "cli", "timing", "end", "cli_built", "srv_req", "srv_done", "bodies", "req_head", "resp_head", "frame"}
Next == Reset \/ Enc \/ Parsed \/ Ignore \/ Cli \/ Timing \/ End \/ UnknownK(Known) \/ DeadSkipK
Spec == Init /\ [][Next]_kvars
=============================================================================
