SPECIFICATION GSpec
CONSTANTS
  Calls = {1, 2, 3, 4, 5}
  Conns = {1, 2}
  Limit = 2
  Tmos = {0, 2, 3}
  SrvTmos = {0, 2}
  MaxTime = 5
  TimerFromAdmission = FALSE
INVARIANT Export
CHECK_DEADLOCK FALSE
