---------------------------- MODULE MC_Response ----------------------------
(* Pattern B decision table for the client's reading of a response (C02 outcome, C04 classification): every combination of
     HTTP status x grpc-status in the response headers (absent / OK / error codes incl. a bare UNKNOWN / malformed)
     x grpc-message present x number of message frames in the body
     x trailers (no trailers frame / trailers without grpc-status / OK / error codes / malformed) x call shape
   TLC enumerates the table (distinct states = its size), computes the outcome class the Contract expects for each point
   (so the table is checked for totality) and prints each point; the driver turns it into a canned HTTP response that
   is served to the real generated client (call lab, mode "mock"); Call!MockClauses judges what the client reported. *)
EXTENDS Naturals, Sequences, TLC, Json
Https == {200, 400, 401, 403, 404, 429, 500, 502, 503, 504, 418}
StatusVals == {"none", "0", "2", "5", "16", "bad"}       \* "2" = a bare UNKNOWN; "bad" = bytes that are not a code
TrailerVals == {"absent", "nostatus", "0", "2", "5", "14", "bad"}
VARIABLE pt
Init == pt \in [http : Https, hs : StatusVals, hmsg : BOOLEAN, nmsg : 0..2, ts : TrailerVals, tmsg : BOOLEAN, shape : {"unary", "sstream"}]
Next == UNCHANGED pt
Spec == Init /\ [][Next]_pt
CodeOfVal(v) == CASE v = "0" -> 0 [] v = "2" -> 2 [] v = "5" -> 5 [] v = "14" -> 14 [] v = "16" -> 16 [] v = "bad" -> 2 [] OTHER -> 0 - 1
\* what the property text determines; "unspecified" = the text is silent (e.g. OK in the headers followed by a body)
Class == IF pt.hs \notin {"none", "0"} THEN "error_from_headers"
         ELSE IF pt.hs = "0" THEN "unspecified"
         ELSE IF pt.ts \in {"2", "5", "14", "bad"} THEN "error_from_trailers"     \* whatever the HTTP status: a grpc-status is available
         ELSE IF pt.ts \in {"absent", "nostatus"} /\ pt.http # 200 THEN "error_from_http_status"
         ELSE IF pt.ts = "0" /\ pt.http = 200 THEN "ok_if_shape_allows"
         ELSE "unspecified"
TableOK == Class \in {"error_from_headers", "error_from_trailers", "error_from_http_status", "ok_if_shape_allows", "unspecified"}
Export == PrintT(<<"SCRIPT", ToJson([http |-> pt.http, hs |-> pt.hs, hmsg |-> pt.hmsg, nmsg |-> pt.nmsg, ts |-> pt.ts, tmsg |-> pt.tmsg,
                                     shape |-> pt.shape, class |-> Class])>>)
=============================================================================
