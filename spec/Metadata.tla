------------------------------ MODULE Metadata ------------------------------
(* Contract of tonic's MetadataMap as a typed view of http headers (C08): names ending in "-bin" are
   binary (base64 on the wire, any padding accepted on receipt), all others ASCII; the typed accessors
   and iterators never show an entry under the other kind; values keep their order per name.
   Entries: [nb (name bytes), bin, v].                                                            *)
EXTENDS Bytes
S_bin == <<45, 98, 105, 110>>     \* "-bin"
EndsWithBin(nb) == Len(nb) >= 4 /\ SubSeq(nb, Len(nb) - 3, Len(nb)) = S_bin
\* RFC 9110 token characters, lower case only (HTTP/2 forbids upper case; `http` normalises / rejects)
TokenChar(c) == (c >= 97 /\ c <= 122) \/ IsDigit(c) \/ c \in {33, 35, 36, 37, 38, 39, 42, 43, 45, 46, 94, 95, 96, 124, 126}
ValidName(nb) == Len(nb) > 0 /\ \A i \in 1..Len(nb) : TokenChar(nb[i])
HasUpper(nb) == \E i \in 1..Len(nb) : IsUpper(nb[i])
\* may an entry be constructed?  must: valid lower-case name whose suffix matches the kind and a legal value
MustAccept(e) == ValidName(e.nb) /\ (e.bin <=> EndsWithBin(e.nb)) /\ (e.bin \/ HeaderValueLegal(e.v))
\* upper-case names are left open: they may be refused or normalised to lower case (the property speaks of valid names only)
MustReject(e) == (e.bin # EndsWithBin(LowerSeq(e.nb))) \/ e.nb = <<>> \/ (~e.bin /\ ~HeaderValueLegal(e.v))
ValsOf(entries, nb) == LET sel == SelectSeq(entries, LAMBDA e : e.nb = nb) IN [i \in 1..Len(sel) |-> sel[i].v]
NamesOf(entries) == { entries[i].nb : i \in 1..Len(entries) }
\* wire form of the accepted entries: same names, order per name; binary values are base64 of the bytes
WireOK(list, acc) == /\ { list[i].nb : i \in 1..Len(list) } = NamesOf(acc)
                     /\ \A nb \in NamesOf(acc) :
                          LET want == ValsOf(acc, nb) got == ValsOf(list, nb) IN
                          /\ Len(got) = Len(want)
                          /\ \A i \in 1..Len(want) : IF EndsWithBin(nb) THEN B64Decode(got[i]) = <<TRUE, want[i]>> /\ HeaderValueLegal(got[i])
                                                     ELSE got[i] = want[i]
\* receiving side, per name record p = [nb, get, get_bin, all, all_bin]
TypedOK(p) == IF EndsWithBin(p.nb) THEN ~p.get /\ p.get_bin /\ p.all = <<>> ELSE p.get /\ ~p.get_bin /\ p.all_bin = <<>>
PreservedOK(p, acc) == LET want == ValsOf(acc, p.nb) IN
                       IF EndsWithBin(p.nb) THEN /\ Len(p.all_bin) = Len(want)
                                                 /\ \A i \in 1..Len(want) : p.all_bin[i].ok /\ p.all_bin[i].v = want[i]
                       ELSE p.all = want
TaggedOK(tags) == \A i \in 1..Len(tags) : tags[i].bin = EndsWithBin(tags[i].nb)
=============================================================================
