SPECIFICATION Spec
CONSTANTS
  MaxGroups = 3
  SegmentAware = FALSE
INVARIANTS NoSpuriousError CompleteAtEnd
PROPERTY Terminates
CHECK_DEADLOCK FALSE
