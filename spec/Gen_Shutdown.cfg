SPECIFICATION GSpec
CONSTANTS
  Conns = {1, 2}
  Calls = {1, 2, 3}
  ConnOf <- ConnOfDef
  Items <- ItemsDef
  WaitForConns = TRUE
  Aging = TRUE
  DrainGracefully = TRUE
  MaxSteps = 9
INVARIANT Export
CHECK_DEADLOCK FALSE
