----------------------------- MODULE WebClient -----------------------------
(* Mechanism model of the grpc-web client decode loop (GrpcWebCall::poll_frame, client / Decode direction,
   binary encoding; tonic-web/src/call.rs): bytes arrive in arbitrary chunks into `decoded`; complete message
   frames at its front are handed out as data, a trailers frame (flag 0x80) only once it has arrived
   completely, and the end of the inner body with bytes left over is an error.

   Named deviations (FALSE = the code before the "fix:" commit, in the respects that mattered):
     WholeTrailers : wait for the complete trailers frame before decoding it (before: whatever had arrived
                     with the chunk that contained its header was decoded, the rest mis-read as a new frame)
     ErrOnLeftover : end of body with a partial frame buffered is an error (before: clean end)        *)
EXTENDS GrpcWeb
CONSTANTS Bodies,        \* set of [msgs (framed message bytes), tb (trailer block bytes), cutAt (0 = complete, k = truncated after k bytes)]
          MaxChunk, WholeTrailers, ErrOnLeftover
VARIABLES body, wire, decoded, dir, out
vars == <<body, wire, decoded, dir, out>>
Full(b) == b.msgs \o TrailersFrame(b.tb)
Sent(b) == IF b.cutAt = 0 THEN Full(b) ELSE Take(Full(b), b.cutAt)
Init == body \in Bodies /\ wire = Sent(body) /\ decoded = <<>> /\ dir = "decode" /\ out = <<>>
Emit(x) == out' = Append(out, x)
\* number of bytes of complete message frames at the front of b, and what follows
Scan(b) == LET p == ParseFrames(b)
               good == SelectInSeq(p.frames, LAMBDA f : ~(f.complete /\ f.flag \in {0, 1}))
               n == IF good = 0 THEN Len(p.frames) ELSE good - 1
               upto == IF n = 0 THEN 0 ELSE p.frames[n].off + 5 + p.frames[n].len
           IN [len |-> upto,
               next |-> IF n < Len(p.frames) THEN (IF p.frames[n + 1].flag = TrailerFlag THEN (IF p.frames[n + 1].complete THEN "trailers" ELSE "trailers_partial")
                                                  ELSE IF p.frames[n + 1].flag \in {0, 1} THEN "partial" ELSE "badflag")
                        ELSE IF upto < Len(b) THEN "short" ELSE "none"]
BufferedData == /\ dir = "decode" /\ Scan(decoded).len > 0
                /\ Emit([k |-> "data", bytes |-> Take(decoded, Scan(decoded).len)]) /\ decoded' = Drop(decoded, Scan(decoded).len)
                /\ UNCHANGED <<body, wire, dir>>
BufferedTrailers == /\ dir = "decode" /\ Scan(decoded).len = 0
                    /\ \/ /\ Scan(decoded).next = "trailers"
                          /\ LET f == ParseFrames(decoded).frames[1] IN Emit([k |-> "trailers", tb |-> f.payload])
                          /\ dir' = "empty" /\ decoded' = <<>>
                       \/ /\ ~WholeTrailers /\ Scan(decoded).next = "trailers_partial" /\ Len(decoded) >= 5
                          /\ Emit([k |-> "trailers", tb |-> Drop(decoded, 5)]) /\ dir' = "empty" /\ decoded' = <<>>
                    /\ UNCHANGED <<body, wire>>
BadFlag == /\ dir = "decode" /\ Scan(decoded).len = 0 /\ Scan(decoded).next = "badflag"
           /\ Emit([k |-> "err"]) /\ dir' = "empty" /\ UNCHANGED <<body, wire, decoded>>
NeedMore == dir = "decode" /\ Scan(decoded).len = 0 /\ Scan(decoded).next \in {"none", "short", "partial", "trailers_partial"}
            /\ (WholeTrailers \/ ~(Scan(decoded).next = "trailers_partial" /\ Len(decoded) >= 5))
Deliver(n) == /\ NeedMore /\ wire # <<>> /\ n \in 1..Min2(MaxChunk, Len(wire))
              /\ decoded' = decoded \o Take(wire, n) /\ wire' = Drop(wire, n) /\ UNCHANGED <<body, dir, out>>
DeliverAny == \E n \in 1..MaxChunk : Deliver(n)
BodyEnd == /\ NeedMore /\ wire = <<>>
           /\ dir' = "empty"
           /\ IF decoded # <<>> /\ ErrOnLeftover THEN Emit([k |-> "err"]) ELSE Emit([k |-> "end"])
           /\ UNCHANGED <<body, wire, decoded>>
EmptyPoll == /\ dir = "empty" /\ Len(out) < 8 /\ out[Len(out)].k # "end" /\ Emit([k |-> "end"]) /\ UNCHANGED <<body, wire, decoded, dir>>
Next == BufferedData \/ BufferedTrailers \/ BadFlag \/ DeliverAny \/ BodyEnd \/ EmptyPoll
Spec == Init /\ [][Next]_vars /\ WF_vars(Next)
(* ---- Contract (C17) on the output history *)
DataOf(o) == FlattenSeq([i \in 1..Len(o) |-> IF o[i].k = "data" THEN o[i].bytes ELSE <<>>])
Kinds(o) == [i \in 1..Len(o) |-> o[i].k]
Finished == out # <<>> /\ out[Len(out)].k = "end"
AtBoundary(b) == b.cutAt # 0 /\ \E i \in 1..Len(ParseFrames(b.msgs).frames) : b.cutAt = ParseFrames(b.msgs).frames[i].off \/ b.cutAt = Len(b.msgs)
IsMalformed(b) == \E i \in 1..Len(ParseFrames(b.msgs).frames) : ParseFrames(b.msgs).frames[i].flag \notin {0, 1}
Contract ==
  /\ IsPrefix(DataOf(out), body.msgs)
  /\ \A i \in 1..Len(out) : out[i].k = "trailers" => (body.cutAt = 0 /\ out[i].tb = body.tb /\ DataOf(SubSeq(out, 1, i)) = body.msgs)
  /\ \A i \in 1..Len(out) : out[i].k \in {"trailers", "err", "end"} => \A j \in (i + 1)..Len(out) : out[j].k = "end"
  /\ Finished => IF IsMalformed(body) THEN \E i \in 1..Len(out) : out[i].k = "err"
                 ELSE IF body.cutAt = 0 THEN \E i \in 1..Len(out) : out[i].k = "trailers"
                 ELSE (AtBoundary(body) \/ \E i \in 1..Len(out) : out[i].k = "err")
Terminates == <>Finished
=============================================================================
