----------------------------- MODULE FramingDec -----------------------------
(* Mechanism model of tonic's message decoder: Streaming::poll_next, StreamingInner::decode_chunk,
   poll_frame and response() (tonic/src/codec/decode.rs), fed by a transport that cuts the body
   into DATA frames at arbitrary positions, may return Pending between frames, and ends with
   nothing / trailers / a body error.

   One action per critical section.  A call of poll_next is a loop; every action below is one
   iteration, and the call "returns" in exactly those actions that append to `res`.

   Named deviations (kept as switches so that TLC demonstrates what each repair buys):
     Latch = FALSE : the decoder as it was before the "fix:" commit - errors returned through `?`
                     are not latched (decode_chunk errors, unexpected EOF), a body error is both
                     returned and stashed (so it is reported twice), and a clean end is not latched
                     either (TLC: one stray byte + OK trailers => End, then Err("Unexpected EOF")).
   The Contract (FramingContract!DecClauses) is checked as the action property ContractHolds. *)
EXTENDS FramingContract

CONSTANTS Inputs,     \* set of [wire, tail] records offered as bodies; tail as in FramingContract
          Limit,      \* max_decoding_message_size
          HasEnc,     \* TRUE iff a grpc-encoding was negotiated
          MaxChunk,   \* largest DATA frame the transport delivers
          MaxPolls,   \* bound on the length of the result history
          Latch,      \* TRUE = repaired decoder
          MaxEmpty,   \* how many empty DATA frames the transport may deliver
          EmptyIsData \* TRUE = an empty DATA frame is just (no) data, as in the code; FALSE = deviation: it is taken for the end of the body

VARIABLES input,  \* the chosen [wire, tail]
          wire,   \* bytes not yet delivered by the body
          dl,     \* number of bytes delivered so far
          tailDone, \* the body's final item (trailers / error / end) has been delivered
          buf,    \* StreamingInner.buf
          st,     \* [k |-> "hdr"] | [k |-> "body", len, comp] | [k |-> "errSome", code] | [k |-> "errNone"]
          trailers, \* "none" | "ok" | "err"   (cached trailers)
          res,    \* history of poll_next results
          bodyPollsAfterEnd,
          empties  \* empty DATA frames delivered so far

vars == <<input, wire, dl, tailDone, buf, st, trailers, res, bodyPollsAfterEnd, empties>>

Hdr == [k |-> "hdr", len |-> 0, comp |-> 0, code |-> 0]
ErrNone == [k |-> "errNone", len |-> 0, comp |-> 0, code |-> 0]
ErrSome(c) == [k |-> "errSome", len |-> 0, comp |-> 0, code |-> c]

\* abstract compression: a compressed payload is <<9>> \o plain ; anything else does not decompress
Decomp(p) == IF p # <<>> /\ p[1] = 9 THEN [ok |-> TRUE, v |-> Tail(p)] ELSE [ok |-> FALSE, v |-> <<>>]

Init == /\ input \in Inputs /\ wire = input.wire /\ dl = 0 /\ tailDone = FALSE /\ buf = <<>> /\ st = Hdr
        /\ trailers = "none" /\ res = <<>> /\ bodyPollsAfterEnd = 0 /\ empties = 0

Emit(r) == Len(res) < MaxPolls /\ res' = Append(res, r)
Quiet == UNCHANGED res
Fail(r) == Emit(r) /\ st' = IF Latch THEN ErrNone ELSE st
EndNow == Emit([r |-> "end"]) /\ st' = IF Latch THEN ErrNone ELSE st

\* ---- State::Error arm at the top of the loop
ErrArm == \/ /\ st.k = "errSome" /\ Emit([r |-> "err", code |-> st.code]) /\ st' = ErrNone
             /\ UNCHANGED <<input, wire, dl, tailDone, buf, trailers, bodyPollsAfterEnd, empties>>
          \/ /\ st.k = "errNone" /\ Emit([r |-> "end"])
             /\ UNCHANGED <<input, wire, dl, tailDone, buf, st, trailers, bodyPollsAfterEnd, empties>>

\* ---- decode_chunk, ReadHeader with >= 5 bytes buffered
Header ==
  /\ st.k = "hdr" /\ Len(buf) >= 5
  /\ LET f == buf[1] len == UnBE32(SubSeq(buf, 2, 5)) IN
     IF f > 1 \/ (f = 1 /\ ~HasEnc) THEN      \* get_u8 consumed the flag, the error leaves the rest in buf
        /\ buf' = Tail(buf) /\ Fail([r |-> "err", code |-> INTERNAL])
     ELSE IF len > Limit THEN
        /\ buf' = Drop(buf, 5) /\ Fail([r |-> "err", code |-> OUT_OF_RANGE])
     ELSE /\ buf' = Drop(buf, 5) /\ st' = [k |-> "body", len |-> len, comp |-> f, code |-> 0] /\ Quiet
  /\ UNCHANGED <<input, wire, dl, tailDone, trailers, bodyPollsAfterEnd, empties>>

\* ---- decode_chunk, ReadBody with the whole payload buffered
Body ==
  /\ st.k = "body" /\ Len(buf) >= st.len
  /\ LET p == Take(buf, st.len) d == IF st.comp = 1 THEN Decomp(p) ELSE [ok |-> TRUE, v |-> p] IN
     /\ buf' = Drop(buf, st.len)
     /\ IF d.ok THEN Emit([r |-> "msg", ser |-> d.v]) /\ st' = Hdr
        ELSE Fail([r |-> "err", code |-> INTERNAL])     \* decompress error; state stays ReadBody when not latched
  /\ UNCHANGED <<input, wire, dl, tailDone, trailers, bodyPollsAfterEnd, empties>>

NeedMore == \/ (st.k = "hdr" /\ Len(buf) < 5) \/ (st.k = "body" /\ Len(buf) < st.len)

\* ---- poll_frame: the body yields a DATA frame of n bytes
Deliver(n) ==
  /\ NeedMore /\ wire # <<>> /\ n \in 1..Min2(MaxChunk, Len(wire))
  /\ buf' = buf \o Take(wire, n) /\ wire' = Drop(wire, n) /\ dl' = dl + n
  /\ UNCHANGED <<input, tailDone, st, trailers, res, bodyPollsAfterEnd, empties>>

\* ---- poll_frame: the body fails (placed anywhere: the remaining bytes are simply never delivered)
BodyErr ==
  /\ NeedMore /\ input.tail = "body_err" /\ ~tailDone
  /\ tailDone' = TRUE /\ wire' = <<>>
  /\ IF Latch THEN Emit([r |-> "err", code |-> 14]) /\ st' = ErrNone
     ELSE Emit([r |-> "err", code |-> 14]) /\ st' = ErrSome(14)      \* returned *and* stashed
  /\ UNCHANGED <<input, dl, buf, trailers, bodyPollsAfterEnd, empties>>

\* ---- poll_frame: trailers frame, then response()
Trailers ==
  /\ NeedMore /\ wire = <<>> /\ input.tail \in {"trailers_ok", "trailers_err"} /\ ~tailDone
  /\ tailDone' = TRUE
  /\ IF input.tail = "trailers_err"
     THEN trailers' = "none" /\ st' = ErrSome(9) /\ Quiet     \* response(): Err(Some(e)) -> State::Error(Some), trailers taken
     ELSE trailers' = "ok" /\ EndNow
  /\ UNCHANGED <<input, wire, dl, buf, bodyPollsAfterEnd, empties>>

\* ---- poll_frame: the body is at its end (None); also every later poll of an ended body
BodyEnd ==
  /\ NeedMore /\ wire = <<>> /\ (tailDone \/ input.tail \in {"none_req", "none_resp"})
  /\ bodyPollsAfterEnd' = IF tailDone THEN bodyPollsAfterEnd + 1 ELSE bodyPollsAfterEnd
  /\ tailDone' = TRUE
  /\ IF buf # <<>> THEN Fail([r |-> "err", code |-> INTERNAL])      \* "Unexpected EOF decoding stream."
     ELSE EndNow                                                    \* response(): 200 without trailers ends cleanly
  /\ UNCHANGED <<input, wire, dl, buf, trailers, empties>>

\* ---- poll_frame: the body yields an EMPTY data frame (legal at any point before its end)
Empty ==
  /\ NeedMore /\ ~tailDone /\ empties < MaxEmpty /\ empties' = empties + 1
  /\ IF EmptyIsData THEN UNCHANGED <<st, res>>
     ELSE IF buf # <<>> THEN Fail([r |-> "err", code |-> INTERNAL]) ELSE EndNow
  /\ UNCHANGED <<input, wire, dl, tailDone, buf, trailers, bodyPollsAfterEnd>>

DeliverAny == \E n \in 1..MaxChunk : Deliver(n)
Next == ErrArm \/ Header \/ Body \/ DeliverAny \/ Empty \/ BodyErr \/ Trailers \/ BodyEnd
Spec == Init /\ [][Next]_vars /\ WF_vars(Next)

(* ------------------------------------------------------------------ Contract binding *)
\* view of the model's input, classified with the model's abstract decompressor
MClassify(f) ==
  IF f.flag > 1 THEN [kind |-> "bad_flag", ser |-> <<>>]
  ELSE IF f.flag = 1 /\ ~HasEnc THEN [kind |-> "flag_noenc", ser |-> <<>>]
  ELSE IF f.len > Limit THEN [kind |-> "too_large", ser |-> <<>>]
  ELSE IF ~f.complete THEN [kind |-> "trunc_body", ser |-> <<>>]
  ELSE LET d == IF f.flag = 0 THEN [ok |-> TRUE, v |-> f.payload] ELSE Decomp(f.payload) IN
       IF d.ok THEN [kind |-> "ok", ser |-> d.v] ELSE [kind |-> "undecodable", ser |-> <<>>]
MView(w, tail) ==
  LET p == ParseFrames(w)
      cls == [i \in 1..Len(p.frames) |-> MClassify(p.frames[i])]
      fb == SelectInSeq(cls, LAMBDA c : c.kind # "ok")
      v == IF fb # 0 THEN SubSeq(cls, 1, fb)
           ELSE IF p.why = "trunc_hdr" THEN Append(cls, [kind |-> "trunc_hdr", ser |-> <<>>]) ELSE cls
  IN IF tail = "body_err" /\ Bad(v) \in Trunc THEN SubSeq(v, 1, Len(v) - 1) ELSE v
\* with a body error anywhere, the decoder sees only a prefix of the wire: the view is that of the delivered prefix
Delivered == Take(input.wire, dl)
ViewNow == IF input.tail = "body_err" THEN MView(Delivered, input.tail) ELSE MView(input.wire, input.tail)

Monitor(h) == FoldLeft(LAMBDA s, r : DecStep(s, r), DecInit, h)
ContractStep == \/ UNCHANGED res
                \/ /\ Len(res') = Len(res) + 1 /\ SubSeq(res', 1, Len(res)) = res
                   /\ Failed(DecClauses(ViewNow', input.tail, Monitor(res), res'[Len(res')])) = {}
ContractHolds == [][ContractStep]_vars

\* state-invariant form of the C07 monitor (Msg* Err? End*) - redundant with ContractHolds, cheap to read
Shape == \A i \in 1..Len(res) : res[i].r \in {"err", "end"} => \A j \in (i+1)..Len(res) : res[j].r = "end"
\* the inner body is not polled again after it ended (observed as DRIFT on traces, not demanded by C07)
NoPollAfterEnd == bodyPollsAfterEnd = 0
\* liveness: every stream reaches a terminal result (C01 termination / C07 "a drain always terminates")
Terminates == <>(\E i \in 1..Len(res) : res[i].r \in {"end", "err"})
\* export hook: terminal states print their schedule
=============================================================================
