----------------------------- MODULE Trace_Health -----------------------------
(* Trace validation for the health lab (C18), Contract level.
   Per service the monitor keeps the log of statuses set in the current registration *epoch* (a clear ends
   the epoch; a later set starts a new one that earlier watch streams never see).  Because updates may be
   coalesced and equal values may be set repeatedly, a watch stream's position in the log is tracked as the
   *set* of indices consistent with what it reported so far (subset construction - deterministic).        *)
EXTENDS Naturals, Sequences, FiniteSets, TLC, TraceKit
NotFound == 5
Fresh(stim) == [stim |-> stim,
                reg |-> [n \in {""} |-> [epoch |-> 1, log |-> <<1>>, open |-> TRUE]],      \* "" is SERVING by default
                hist |-> [x \in {} |-> <<>>],       \* logs of ended epochs, by <<name, epoch>>
                w |-> [x \in {} |-> 0]]
Keys == {"runs", "checks", "watches", "items", "coalesced", "ends", "pendings", "not_found", "clears", "sets"}
Init == InitK(Fresh([ops |-> <<>>]), Keys)
Reset == ResetK(Fresh(E.stim)) /\ Count({"runs"})
Registered(n) == n \in DOMAIN s.reg /\ s.reg[n].open
RegOf(n) == s.reg[n]
Put(f, k, v) == [x \in DOMAIN f \cup {k} |-> IF x = k THEN v ELSE f[x]]
OpEv == /\ Live("op")
        /\ LET n == E.sn r == E.res IN
           CASE E.op = "set" ->
                  /\ JudgeK(<<>>, [s EXCEPT !.reg = IF Registered(n) THEN Put(s.reg, n, [RegOf(n) EXCEPT !.log = Append(@, E.v)])
                                                     ELSE Put(s.reg, n, [epoch |-> (IF n \in DOMAIN s.reg THEN s.reg[n].epoch + 1 ELSE 1), log |-> <<E.v>>, open |-> TRUE]),
                                             !.hist = IF ~Registered(n) /\ n \in DOMAIN s.reg THEN Put(s.hist, <<n, s.reg[n].epoch>>, s.reg[n].log) ELSE s.hist])
                  /\ Count({"sets"})
             [] E.op = "clear" ->
                  /\ JudgeK(<<>>, [s EXCEPT !.reg = IF Registered(n) THEN Put(s.reg, n, [RegOf(n) EXCEPT !.open = FALSE]) ELSE s.reg])
                  /\ Count({"clears"})
             [] E.op = "check" ->
                  /\ JudgeK(<< <<"C18.CheckReturnsLatestStatus", Registered(n) => (r.code = 0 /\ r.status = RegOf(n).log[Len(RegOf(n).log)])>>,
                               <<"C18.UnregisteredIsNotFound", ~Registered(n) => r.code = NotFound>> >>, s)
                  /\ Count({"checks"} \cup (IF ~Registered(n) THEN {"not_found"} ELSE {}))
             [] E.op = "watch" ->
                  /\ JudgeK(<< <<"C18.WatchOfUnregisteredIsNotFound", ~Registered(n) => r.code = NotFound>>,
                               <<"C18.WatchOfRegisteredSubscribes", Registered(n) => r.code = 0>> >>,
                            IF Registered(n) /\ r.code = 0
                            THEN [s EXCEPT !.w = Put(s.w, E.w, [n |-> n, epoch |-> RegOf(n).epoch, pos |-> {Len(RegOf(n).log) - 1}, ended |-> FALSE, first |-> TRUE])]
                            ELSE s)
                  /\ Count({"watches"})
             [] E.op = "park" -> JudgeK(<<>>, s) /\ UNCHANGED stats
             [] E.op = "next" ->
                  IF E.w \notin DOMAIN s.w THEN JudgeK(<< <<"HarnessOK", r.r = "nostream">> >>, s) /\ UNCHANGED stats
                  ELSE LET W == s.w[E.w]
                           R == s.reg[W.n]
                           sameEpoch == R.epoch = W.epoch
                           log == IF sameEpoch THEN R.log ELSE s.hist[<<W.n, W.epoch>>]
                           live == sameEpoch /\ R.open
                           \* indices the reported value may stand for: strictly newer than some consistent position
                           cand == { j \in 1..Len(log) : log[j] = r.status /\ \E p \in W.pos : j > p }
                           \* nothing new to tell: under some consistent reading the last reported status is the latest one
                           \* (an implementation may or may not repeat a status that was set again to the same value)
                           upToDate == \E p \in W.pos : p >= 1 /\ log[p] = log[Len(log)]
                       IN CASE r.r = "item" ->
                                 /\ JudgeK(<< <<"C18.ReportsOnlyStatusesSetSinceLastReport", ~W.ended /\ cand # {}>>,
                                              <<"C18.NothingAfterEnd", ~W.ended>> >>,
                                           [s EXCEPT !.w = Put(s.w, E.w, [W EXCEPT !.pos = cand, !.first = FALSE])])
                                 /\ Count({"items"} \cup (IF cand # {} /\ \A j \in cand : \A p \in W.pos : j > p + 1 THEN {"coalesced"} ELSE {}))
                            [] r.r = "pending" ->
                                 /\ JudgeK(<< <<"C18.FirstReportNeedsNoUpdate", ~W.first>>,
                                              <<"C18.ReportsLatestOnceUpdatesStop", live => upToDate>>,
                                              <<"C18.ClearEndsTheStream", live>> >>, s)
                                 /\ Count({"pendings"})
                            [] r.r = "end" ->
                                 /\ JudgeK(<< <<"C18.EndsOnlyAfterClear", W.ended \/ ~live>>,
                                              <<"C18.UnreportedStatusBeforeEnd", W.ended \/ upToDate>> >>,
                                           [s EXCEPT !.w = Put(s.w, E.w, [W EXCEPT !.ended = TRUE])])
                                 /\ Count({"ends"})
                            [] OTHER -> JudgeK(<< <<"C18.WatchStreamNeverErrors", FALSE>> >>, s) /\ UNCHANGED stats
             [] OTHER -> JudgeK(<< <<"HarnessOK", FALSE>> >>, s) /\ UNCHANGED stats
End == EndK(<<>>)
Known == {"reset", "op", "end"}
Next == Reset \/ OpEv \/ End \/ UnknownK(Known) \/ DeadSkipK
Spec == Init /\ [][Next]_kvars
=============================================================================
