------------------------------ MODULE Trace_Web ------------------------------
(* Trace validation for the grpc-web lab: C16 (server layer: srv_resp, srv_req, table) and C17 (client layer:
   cli_resp, cli_req).  A run records what the inner service received (inner_req, inner_body), the response
   head (resp) and every frame of the translated body (out); all clauses are evaluated when the run ends. *)
EXTENDS GrpcWeb, StatusCodec, TraceKit
CT_grpc == <<97, 112, 112, 108, 105, 99, 97, 116, 105, 111, 110, 47, 103, 114, 112, 99>>
CT_web == CT_grpc \o <<45, 119, 101, 98>>
CT_web_proto == CT_web \o <<43, 112, 114, 111, 116, 111>>
CT_text_proto == CT_web \o <<45, 116, 101, 120, 116, 43, 112, 114, 111, 116, 111>>
S_trailers == <<116, 114, 97, 105, 108, 101, 114, 115>>
WebTypes == {"application/grpc-web", "application/grpc-web+proto", "application/grpc-web-text", "application/grpc-web-text+proto"}
TextTypes == {"application/grpc-web-text", "application/grpc-web-text+proto"}
None == [none |-> TRUE]
Is(x) == "none" \notin DOMAIN x
Fresh(stim) == [stim |-> stim, innerReq |-> None, innerBody |-> None, resp |-> None, data |-> <<>>, reqData |-> <<>>, trailers |-> <<>>, errs |-> 0,
                ends |-> 0, spin |-> FALSE, afterTerminal |-> FALSE, innerAfterEnd |-> 0]
Keys == {"runs", "srv_resp", "srv_req", "table", "cli_resp", "cli_req", "text", "binary", "truncated", "cut_in_header", "cut_in_trailers", "multi_trailers", "passes_through", "rejected_405", "rejected_400"}
Init == InitK(Fresh([kind |-> "none"]), Keys)
Reset == ResetK(Fresh(E.stim)) /\ Count({"runs", E.stim.kind} \cup (IF "text" \in DOMAIN E.stim THEN (IF E.stim.text THEN {"text"} ELSE {"binary"}) ELSE {})
                                         \cup (IF "class" \in DOMAIN E.stim /\ E.stim.class \in Keys THEN {E.stim.class} ELSE {}))
InnerReq == /\ Live("inner_req") /\ UNCHANGED stats /\ JudgeK(<< <<"InnerCalledOnce", ~Is(s.innerReq)>> >>, [s EXCEPT !.innerReq = E])
InnerBody == /\ Live("inner_body") /\ UNCHANGED stats /\ JudgeK(<<>>, [s EXCEPT !.innerBody = E])
Resp == /\ Live("resp") /\ UNCHANGED stats /\ JudgeK(<<>>, [s EXCEPT !.resp = E])
\* a Pending poll of the translated body must have arranged a wake-up (the scripted inner bodies are always ready)
Out == /\ Live("out") /\ UNCHANGED stats
       /\ IF E.k = "pending" THEN JudgeK(<< <<"PendingArrangesWakeup", E.woken>> >>, s)
          ELSE IF E.side = "req" THEN JudgeK(<<>>, IF E.k = "data" THEN [s EXCEPT !.reqData = @ \o E.bytes] ELSE s)
          ELSE JudgeK(<< <<"NothingAfterTheEnd", ~(s.ends > 0 /\ E.k \in {"data", "trailers"})>> >>,
                      CASE E.k = "data" -> [s EXCEPT !.data = @ \o E.bytes]
                        [] E.k = "trailers" -> [s EXCEPT !.trailers = Append(@, E.list)]
                        [] E.k = "err" -> [s EXCEPT !.errs = @ + 1]
                        [] E.k = "end" -> [s EXCEPT !.ends = @ + 1]
                        [] OTHER -> [s EXCEPT !.spin = TRUE])
After == /\ Live("inner_polls_after_end") /\ UNCHANGED stats /\ JudgeK(<<>>, [s EXCEPT !.innerAfterEnd = E.n])

Lifted(list) == [i \in 1..Len(list) |-> [n |-> list[i].nb, v |-> list[i].v]]
WantTrailers(stim) == stim.trailers
\* trailers delivered as an http trailers frame: header list [n (string), nb?]; compare through name bytes given by the projection
ListAsEntries(list) == [i \in 1..Len(list) |-> [n |-> IF "nb" \in DOMAIN list[i] THEN list[i].nb ELSE <<>>, v |-> list[i].v]]

SrvRespClauses ==
  LET st == s.stim
      text == st.text
      dec == IF text THEN TextDecode(s.data) ELSE <<TRUE, s.data>>
      sp == IF dec[1] THEN SplitWebBody(dec[2]) ELSE [ok |-> FALSE, msgs |-> <<>>, tb |-> <<>>]
      tp == ParseTrailerBlock(sp.tb)
  IN << <<"C16.Http200", Is(s.resp) /\ s.resp.status = 200>>,
        <<"C16.ResponseContentTypeFollowsAccept", Is(s.resp) /\ Values(s.resp.list, "content-type") = << (IF text THEN CT_text_proto ELSE CT_web_proto) >> >>,
        <<"C16.BodyDecodes", dec[1] /\ sp.ok>>,
        <<"C16.MessageBytesIdentical", sp.ok => sp.msgs = st.frames_bytes>>,
        <<"C16.ExactlyOneTrailersFrameListingEveryTrailer", sp.ok => (tp.ok /\ SameTrailers(tp.entries, st.trailers))>>,
        <<"C16.NoHttpTrailersLeftOver", s.trailers = <<>> /\ s.errs = 0 /\ ~s.spin>> >>
SrvReqClauses ==
  LET st == s.stim IN
  << <<"C16.InnerServiceReached", Is(s.innerReq) /\ Is(s.innerBody)>>,
     <<"C16.InnerSeesGrpcContentType", Is(s.innerReq) => (Values(s.innerReq.list, "content-type") = <<CT_grpc>> /\ Values(s.innerReq.list, "te") = <<S_trailers>>)>>,
     <<"C16.RequestBytesIdentical", (Is(s.innerBody) /\ st.wellformed) => (s.innerBody.bytes = st.payload /\ s.innerBody.err = "")>>,
     <<"C16.MalformedTextIsAnError", (Is(s.innerBody) /\ ~st.wellformed) => s.innerBody.err # "">>,
     \* st.gae (optional): the grpc-accept-encoding the web caller sent (a byte string) or "none".  The bridge hands the caller's own offer
     \* to the gRPC service - it neither invents one nor replaces it - so that the service compresses only with what the caller accepts
     <<"C05.BridgeKeepsTheCallersOffer", ("gae" \in DOMAIN st /\ Is(s.innerReq)) =>
            Values(s.innerReq.list, "grpc-accept-encoding") = (IF st.gae = "none" THEN <<>> ELSE <<st.gae_bytes>>)>> >>
TableClauses ==
  LET st == s.stim
      web == st.ctype \in WebTypes
      called == Is(s.innerReq) IN
  << <<"C16.NonPostGrpcWebIs405", (web /\ st.method # "POST") => (s.resp.status = 405 /\ ~called)>>,
     <<"C16.GrpcWebPostIsServed", (web /\ st.method = "POST") => (s.resp.status = 200 /\ called)>>,
     <<"C16.OtherHttp2PassesThroughUntouched", (~web /\ st.version = "HTTP/2.0") =>
            (called /\ s.resp.status = 200 /\ HasName(s.resp.list, "x-inner") /\ s.innerReq.method = st.method
             /\ (st.ctype # "none" => Values(s.innerReq.list, "content-type") = << st.ctype_bytes >>) /\ s.data = st.frames_bytes /\ Len(s.trailers) = 1)>>,
     <<"C16.OtherHttp1Is400", (~web /\ st.version # "HTTP/2.0") => (s.resp.status = 400 /\ ~called)>> >>
CliRespClauses ==
  LET st == s.stim IN
  IF st.complete THEN
     << <<"C17.MessageBytesRecovered", s.data = st.frames_bytes>>,
        <<"C17.FullTrailersRecovered", Len(s.trailers) = 1 /\ SameTrailers(ListAsEntries(s.trailers[1]), st.trailers)>>,
        <<"C17.NoSpuriousError", s.errs = 0>>,
        <<"C17.StreamEnds", s.ends > 0 /\ ~s.spin>> >>
  ELSE
     << <<"C17.CutOffBodyIsAnError", ~st.at_boundary => s.errs > 0>>,
        <<"C17.ErrorOrEndNotBoth", s.errs <= 1>>,
        <<"C17.NoBusyLoopOrHang", ~s.spin>>,
        <<"C17.OnlyRealMessageBytes", IsPrefix(s.data, st.frames_bytes)>>,
        <<"C17.NoFabricatedTrailers", s.trailers = <<>> \/ st.has_full_trailers>> >>
CliReqClauses ==
  << <<"C17.RequestReachesTransport", Is(s.innerReq)>>,
     <<"C17.RequestMarkedGrpcWeb", Is(s.innerReq) => (Values(s.innerReq.list, "content-type") = <<CT_web>> /\ (s.stim.version = "HTTP/2.0" => s.innerReq.version = "HTTP/1.1"))>>,
     <<"C17.RequestBodyUnchanged", s.reqData = s.stim.payload>> >>
End == /\ Live("end") /\ UNCHANGED stats
       /\ JudgeK(<< <<"NoPanic", E.outcome # "panic">>, <<"NoHang", E.outcome # "hang">> >>
                 \o (IF E.outcome # "ok" THEN <<>>
                     ELSE CASE s.stim.kind = "srv_resp" -> SrvRespClauses [] s.stim.kind = "srv_req" -> SrvReqClauses [] s.stim.kind = "table" -> TableClauses
                            [] s.stim.kind = "cli_resp" -> CliRespClauses [] s.stim.kind = "cli_req" -> CliReqClauses [] OTHER -> <<>>), s)
Known == {"reset", "inner_req", "inner_body", "resp", "out", "inner_polls_after_end", "end"}
Next == Reset \/ InnerReq \/ InnerBody \/ Resp \/ Out \/ After \/ End \/ UnknownK(Known) \/ DeadSkipK
Spec == Init /\ [][Next]_kvars
=============================================================================
