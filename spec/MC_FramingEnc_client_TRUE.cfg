SPECIFICATION Spec
CONSTANTS
  Scripts <- ScriptsDef
  Role = "client"
  Limit = 5
  Yield = 12
  MaxPolls = 12
  KeepBatch = TRUE
  StopAfterStatus = TRUE
PROPERTIES ContractHolds Ends
CHECK_DEADLOCK FALSE
