SPECIFICATION Spec
CONSTANTS
  Inputs <- InputsDef
  Limit = 2
  HasEnc = TRUE
  MaxChunk = 3
  MaxPolls = 6
  MaxEmpty = 1
  EmptyIsData = FALSE
  Latch = TRUE
INVARIANTS Shape NoPollAfterEnd
PROPERTIES ContractHolds Terminates
CHECK_DEADLOCK FALSE
