---------------------------- MODULE Trace_Routing ----------------------------
(* Trace validation for the routing lab (C10). *)
EXTENDS Routing, StatusCodec, TraceKit
Fresh(stim) == [stim |-> stim, handled |-> <<>>, sent |-> FALSE, resp |-> FALSE]
Keys == {"runs", "open_body", "open_unanswered", "dispatching", "unimplemented", "empty_registry", "uri_rejected"}
Init == InitK(Fresh([class |-> "none"]), Keys)
RegOf(stim) == { stim.reg[i] : i \in 1..Len(stim.reg) }
Reset == ResetK(Fresh(E.stim)) /\ Count({"runs"} \cup (IF E.stim.reg = <<>> THEN {"empty_registry"} ELSE {}) \cup (IF "body" \in DOMAIN E.stim THEN {"open_body"} ELSE {}))
Sent == /\ Live("sent")
        /\ JudgeK(<< <<"HarnessOK", E.uri_ok => E.path_seen = PathComponent(s.stim.path)>> >>, [s EXCEPT !.sent = TRUE, !.resp = ~E.uri_ok])
        /\ Count(IF E.uri_ok THEN {} ELSE {"uri_rejected"})
Handled == /\ Live("handled") /\ UNCHANGED stats
           /\ JudgeK(<< <<"C10.OnlyTheNamedMethodRuns", DispatchOK(s.stim.path, RegOf(s.stim), Append(s.handled, [svc |-> E.svc, method |-> E.method]))>>,
                        <<"C10.RequestDeliveredIntact", E.msg = <<7>> >> >>,
                     [s EXCEPT !.handled = Append(@, [svc |-> E.svc, method |-> E.method])])
\* the response's grpc-status, from the head (trailers-only) or the trailers
CodeIn(list) == IF HasName(list, "grpc-status") THEN CodeOf(Values(list, "grpc-status")[1]) ELSE -1
Resp == /\ Live("resp")
        /\ LET code == IF CodeIn(E.list) # -1 THEN CodeIn(E.list) ELSE CodeIn(E.trailers)
               disp == Target(s.stim.path, RegOf(s.stim)) # {} IN
           /\ JudgeK(<< <<"C10.ExactPathDispatches", DispatchOK(s.stim.path, RegOf(s.stim), s.handled)>>,
                        <<"C10.DispatchedCallSucceeds", disp => (code = 0 /\ E.status = 200)>>,
                        <<"C10.OtherPathsAreUnimplemented", ~disp => (code = 12 /\ E.status = 200 /\ E.body = <<>>)>> >>,
                     [s EXCEPT !.resp = TRUE])
           /\ Count(IF disp THEN {"dispatching"} ELSE {"unimplemented"})
\* a request whose body stays open (stim.body = "open") got no response: legitimate only where a handler is waiting for the rest of it
NoAnswer == /\ Live("no_answer")
            /\ JudgeK(<< <<"C10.OtherPathsAreUnimplemented", Target(s.stim.path, RegOf(s.stim)) # {}>>,
                         <<"HarnessOK", "body" \in DOMAIN s.stim /\ s.stim.body = "open">> >>, [s EXCEPT !.resp = TRUE])
            /\ Count({"open_unanswered"})
End == EndK(<< <<"RunComplete", E.outcome = "ok" => (s.sent /\ s.resp)>> >>)
Known == {"reset", "sent", "handled", "resp", "no_answer", "end"}
Next == Reset \/ Sent \/ Handled \/ Resp \/ NoAnswer \/ End \/ UnknownK(Known) \/ DeadSkipK
Spec == Init /\ [][Next]_kvars
=============================================================================
