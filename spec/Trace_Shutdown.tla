---------------------------- MODULE Trace_Shutdown ----------------------------
(* Trace validation for the shutdown lab (C13) at Contract level.  The harness executes environment steps
   (offer / send / fire / release / drop) one at a time with a quiescence barrier (1 ms of virtual time)
   after each, so everything the server can do in response has happened before the next step. *)
EXTENDS Naturals, Sequences, FiniteSets, TLC, TraceKit
Fresh(stim) == [stim |-> stim, sentEarly |-> {}, sentWaiting |-> {}, aged |-> FALSE, fired |-> FALSE, offeredAfterFire |-> {}, offered |-> {}, taken |-> {}, accepted |-> {}, handlerDone |-> {},
                done |-> {}, dropped |-> {}, resolved |-> FALSE, epilogue |-> FALSE, final |-> FALSE, incomingEnded |-> FALSE,
                hopen |-> {}, hseen |-> 0, observed |-> FALSE, settled |-> FALSE]
Keys == {"runs", "same_tick_steps", "aged_runs", "incoming_ended_runs", "fired_runs", "signal_with_calls_in_flight", "late_offers", "streaming_calls", "client_drops", "resolved_runs", "calls_completed"}
Init == InitK(Fresh([calls |-> <<>>]), Keys)
CallRec(stim, k) == stim.calls[CHOOSE i \in 1..Len(stim.calls) : stim.calls[i].k = k]
Expected(stim, k) == LET c == CallRec(stim, k) IN IF c.items = 0 THEN << <<k, 100>> >> ELSE [i \in 1..c.items |-> <<k, i - 1>>]
Reset == ResetK(Fresh(E.stim)) /\ Count({"runs"} \cup (IF \E i \in 1..Len(E.stim.calls) : E.stim.calls[i].items > 0 THEN {"streaming_calls"} ELSE {}))
\* A step flagged nb is followed by the next one in the same scheduler tick (the server has not run in between), so a
\* connection offered in the tick of the signal is not "after the signal": `settled` = the signal fired and the server has
\* since had a full quiescent period to observe it.
Settle(t) == [t EXCEPT !.settled = @ \/ ((t.fired \/ t.incomingEnded) /\ ~(Has(E, "nb") /\ E.nb))]
Step == /\ Live("step")
        /\ JudgeK(<<>>, Settle(CASE E.op = "fire" -> [s EXCEPT !.fired = TRUE]
                                 [] E.op = "end_incoming" -> [s EXCEPT !.incomingEnded = TRUE]
                                 \* a held offer creates only the client's half; "admit" is what puts the server's half before the accept loop
                                 [] E.op = "offer" /\ Has(E, "hold") /\ E.hold -> s
                                 [] E.op \in {"offer", "admit"} -> [s EXCEPT !.offered = @ \cup {E.c}, !.offeredAfterFire = IF s.settled THEN @ \cup {E.c} ELSE @]
                                 \* a request written (the step ends with a barrier) before the signal, on a connection whose server half has not
                                 \* reached the accept loop yet: it is waiting in the pipe when the server accepts the connection
                                 [] E.op = "send" /\ ~(Has(E, "nb") /\ E.nb) /\ ~s.fired /\ ~s.incomingEnded /\ CallRec(s.stim, E.k).c \notin s.offered -> [s EXCEPT !.sentEarly = @ \cup {E.k}]
                                 \* (servers with a per-connection concurrency limit) a request written, with a barrier, before the signal on a connection
                                 \* the server has accepted and not aged out: it has reached the server, whether or not it has been given a permit yet
                                 [] E.op = "send" /\ ~(Has(E, "nb") /\ E.nb) /\ ~s.fired /\ ~s.incomingEnded /\ ~s.aged /\ Has(s.stim, "limit") /\ CallRec(s.stim, E.k).c \in s.taken
                                      -> [s EXCEPT !.sentWaiting = @ \cup {E.k}]
                                 [] E.op = "age" -> [s EXCEPT !.aged = TRUE]
                                 [] E.op = "drop" -> [s EXCEPT !.dropped = @ \cup {E.c}]
                                 [] OTHER -> s))
        /\ Count((IF E.op = "fire" THEN {"fired_runs"} ELSE {}) \cup (IF E.op = "fire" /\ (s.accepted \ s.handlerDone) # {} THEN {"signal_with_calls_in_flight"} ELSE {})
                 \cup (IF E.op = "offer" /\ s.settled THEN {"late_offers"} ELSE {}) \cup (IF Has(E, "nb") /\ E.nb THEN {"same_tick_steps"} ELSE {}) \cup (IF E.op = "drop" THEN {"client_drops"} ELSE {})
                 \cup (IF E.op = "age" THEN {"aged_runs"} ELSE {}) \cup (IF E.op = "end_incoming" THEN {"incoming_ended_runs"} ELSE {}))
Taken == /\ Live("taken") /\ UNCHANGED stats
         /\ JudgeK(<< <<"C13.NoConnectionAcceptedAfterSignal", E.c \notin s.offeredAfterFire>>, <<"HarnessOK", E.c \in s.offered>> >>, [s EXCEPT !.taken = @ \cup {E.c}])
SrvReq == /\ Live("srv_req") /\ UNCHANGED stats
          /\ JudgeK(<< <<"C13.HandlersOnlyOnAcceptedConnections", CallRec(s.stim, E.k).c \in s.taken>> >>, [s EXCEPT !.accepted = @ \cup {E.k}])
SrvDone == /\ Live("srv_done") /\ UNCHANGED stats /\ JudgeK(<<>>, [s EXCEPT !.handlerDone = @ \cup {E.k}])
CallDone == /\ Live("call_done")
            /\ LET conn == CallRec(s.stim, E.k).c IN
               JudgeK(<< <<"C13.AcceptedCallGetsFullTrueOutcome", (E.k \in s.accepted /\ conn \notin s.dropped) => (E.ok /\ E.msgs = Expected(s.stim, E.k))>>,
                         <<"C13.OutcomeIsTrue", E.ok => (E.k \in s.accepted /\ E.msgs = Expected(s.stim, E.k))>>,
                         \* a request that was already waiting on a connection the server went on to accept before the signal is served too
                         <<"C13.RequestWaitingOnAcceptedConnectionIsServed", (E.k \in s.sentEarly /\ conn \in s.taken /\ conn \notin s.dropped) => E.ok>>,
                         \* ... and so is a request that was waiting for a permit of the connection's concurrency limit when the signal fired
                         <<"C13.RequestWaitingForAPermitIsServed", (E.k \in s.sentWaiting /\ conn \notin s.dropped /\ ~Has(s.stim, "timeout_ms")) => (E.ok /\ E.msgs = Expected(s.stim, E.k))>> >>,
                      [s EXCEPT !.done = @ \cup {E.k}])
            /\ Count(IF E.ok THEN {"calls_completed"} ELSE {})
Aborted == /\ Live("call_aborted") /\ UNCHANGED stats
           /\ JudgeK(<< <<"C13.AcceptedCallNeverLeftHanging", ~(s.epilogue /\ E.k \in s.accepted /\ CallRec(s.stim, E.k).c \notin s.dropped)>> >>, [s EXCEPT !.done = @ \cup {E.k}])
Resolved == /\ Live("resolved")
            /\ JudgeK(<< <<"C13.ResolvesOnlyOnSignal", s.fired \/ s.incomingEnded>>,
                         <<"C13.ResolvesOnlyAfterConnectionsDrained",
                               \A k \in s.accepted : k \in s.handlerDone \/ CallRec(s.stim, k).c \in s.dropped>>,
                         <<"C13.ResolvesOnlyAfterAllConnectionsClosed", s.hopen = {}>>,
                         <<"C13.ServeResolvesCleanly", E.ok>> >>, [s EXCEPT !.resolved = TRUE])
            /\ Count({"resolved_runs"})
\* hook events (feature verif-hooks): the server side of each connection, which no client can observe.
\*   hopen = connection tasks started and not finished; the serve future may resolve only when it is empty.
Hook == /\ Live("hook") /\ UNCHANGED stats
        /\ CASE E.ev = "accepted" -> JudgeK(<< <<"C13.NoConnectionAcceptedAfterSignal", ~s.observed>>, <<"HarnessOK", E.n = s.hseen + 1>> >>,
                                           [s EXCEPT !.hopen = @ \cup {E.n}, !.hseen = E.n])
             [] E.ev = "conn_closed" -> JudgeK(<< <<"HarnessOK", E.n \in s.hopen>> >>, [s EXCEPT !.hopen = @ \ {E.n}])
             [] E.ev \in {"signal_observed", "incoming_ended"} ->
                    JudgeK(<< <<"C13.ResolvesOnlyOnSignal", IF E.ev = "signal_observed" THEN s.fired ELSE s.incomingEnded>> >>, [s EXCEPT !.observed = TRUE])
             [] E.ev = "all_closed" -> JudgeK(<< <<"C13.ResolvesOnlyAfterAllConnectionsClosed", s.hopen = {}>> >>, s)
             [] OTHER -> JudgeK(<<>>, s)
Epilogue == /\ Live("epilogue") /\ UNCHANGED stats /\ JudgeK(<<>>, [s EXCEPT !.epilogue = TRUE])
Final == /\ Live("final") /\ UNCHANGED stats
         /\ JudgeK(<< <<"C13.ResolvesOnceConnectionsClosed", (s.fired \/ s.incomingEnded) => (E.resolved /\ s.resolved)>>,
                      <<"C13.NoResolveWithoutSignal", ~(s.fired \/ s.incomingEnded) => ~E.resolved>>,
                      <<"C13.EveryAcceptedCallAnswered", \A k \in s.accepted : k \in s.done>> >>, [s EXCEPT !.final = TRUE])
Ignore == /\ l <= Len(Rec) /\ ~dead /\ E.e \in {"client_connect_err", "accept_error"} /\ l' = l + 1 /\ UNCHANGED <<run, dead, bad, s, stats>>
End == EndK(<< <<"RunComplete", E.outcome = "ok" => s.final>> >>)
Known == {"reset", "accept_error", "step", "taken", "srv_req", "srv_done", "call_done", "call_aborted", "resolved", "epilogue", "final", "client_connect_err", "hook", "end"}
Next == Reset \/ Step \/ Taken \/ SrvReq \/ SrvDone \/ CallDone \/ Aborted \/ Resolved \/ Hook \/ Epilogue \/ Final \/ Ignore \/ End \/ UnknownK(Known) \/ DeadSkipK
Spec == Init /\ [][Next]_kvars
=============================================================================
