--------------------------- MODULE Gen_FramingEnc ---------------------------
(* Pattern B export for the encoder: one script per source script of the model with the frame
   history the Mechanism model predicts (the encoder is deterministic given its source). *)
EXTENDS MC_FramingEnc, Json
Done == Cardinality({ k \in 1..Len(out) : out[k].r = "none" }) = 2
GBound == Cardinality({ k \in 1..Len(out) : out[k].r = "none" }) <= 2
Export == Done => PrintT(<<"SCRIPT", ToJson([items |-> items, role |-> Role, limit |-> Limit, yield |-> Yield, expect |-> out])>>)
=============================================================================
