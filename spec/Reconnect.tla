----------------------------- MODULE Reconnect -----------------------------
(* Mechanism model of a tonic Channel seen from the application (C14):
     tower Buffer worker  ->  Reconnect::poll_ready / Reconnect::call  ->  scripted connector
   (tonic/src/transport/channel/service/reconnect.rs, connection.rs, channel/mod.rs).
   One action per arm of Reconnect::poll_ready's loop, one for Reconnect::call, plus the environment:
   the connector hands out the script's F (fail) / S (succeed) entries in order, one per invocation;
   a D entry makes the peer drop the established connection, at a quiescent point between calls.

   Named deviations (switches, TRUE = as in the code):
     TakeError    : Reconnect::call takes the stored connect error (error.take()); FALSE keeps it.
     SetConnected : poll_ready sets has_been_connected when it sees State::Connected; FALSE never does.   *)
EXTENDS Naturals, Sequences, TLC
CONSTANTS Scripts,     \* set of sequences over {"F", "S", "D"}
          Lazy,        \* connect_lazy (TRUE) or connect (FALSE)
          MaxCalls,
          TakeError, SetConnected

VARIABLES script, pos,   \* the connector / fault script and the position of its next entry
          st,            \* Reconnect.state: "Idle" | "Connecting" | "Connected"
          pending,       \* result the in-flight connect future will produce ("F" | "S" | "-")
          alive,         \* the established connection is usable
          err,           \* Reconnect.error is Some
          hbc,           \* Reconnect.has_been_connected
          pc,            \* "connect" (eager ready_oneshot) | "idle" | "polling" | "ready" | "closed" (worker failed) | "connect_failed"
          cur,           \* bookkeeping for the call in progress: [consumed, aliveAtStart, killedBefore]
          calls          \* history of finished calls: [res, consumed, aliveAtStart, killedBefore]
vars == <<script, pos, st, pending, alive, err, hbc, pc, cur, calls>>

NoCall == [consumed |-> <<>>, aliveAtStart |-> FALSE, killedBefore |-> 0]
Init == /\ script \in Scripts /\ pos = 1 /\ st = "Idle" /\ pending = "-" /\ alive = FALSE /\ err = FALSE /\ hbc = FALSE
        /\ pc = (IF Lazy THEN "idle" ELSE "connect") /\ cur = NoCall /\ calls = <<>>

Quiescent == pc = "idle"
\* ---- environment
Kill == /\ Quiescent /\ pos <= Len(script) /\ script[pos] = "D"
        /\ pos' = pos + 1 /\ alive' = FALSE
        /\ cur' = [cur EXCEPT !.killedBefore = @ + (IF alive THEN 1 ELSE 0)]
        /\ UNCHANGED <<script, st, pending, err, hbc, pc, calls>>
Issue == /\ Quiescent /\ Len(calls) < MaxCalls /\ ~(pos <= Len(script) /\ script[pos] = "D")
         /\ pc' = "polling" /\ cur' = [cur EXCEPT !.consumed = <<>>, !.aliveAtStart = alive]
         /\ UNCHANGED <<script, pos, st, pending, alive, err, hbc, calls>>

Polling == pc \in {"polling", "connect"}
Finish(res) == /\ calls' = Append(calls, [res |-> res, consumed |-> cur.consumed, aliveAtStart |-> cur.aliveAtStart, killedBefore |-> cur.killedBefore])
               /\ cur' = NoCall
\* ---- Reconnect::poll_ready
PR_Err == /\ Polling /\ err                                  \* early Ready when an error is stored
          /\ pc' = IF pc = "connect" THEN "idle" ELSE "ready"
          /\ UNCHANGED <<script, pos, st, pending, alive, err, hbc, cur, calls>>
PR_IdleMake == /\ Polling /\ ~err /\ st = "Idle"               \* make_service: one connector invocation
               /\ LET has == pos <= Len(script) /\ script[pos] \in {"F", "S"}
                      r == IF has THEN script[pos] ELSE "F" IN
                  /\ pending' = r /\ pos' = IF has THEN pos + 1 ELSE pos
                  /\ cur' = [cur EXCEPT !.consumed = Append(@, r)]
               /\ st' = "Connecting"
               /\ UNCHANGED <<script, alive, err, hbc, pc, calls>>
PR_ConnOk == /\ Polling /\ ~err /\ st = "Connecting" /\ pending = "S"
             /\ st' = "Connected" /\ alive' = TRUE /\ pending' = "-"
             /\ UNCHANGED <<script, pos, err, hbc, pc, cur, calls>>
PR_ConnFail == /\ Polling /\ ~err /\ st = "Connecting" /\ pending = "F"
               /\ st' = "Idle" /\ pending' = "-"
               /\ IF ~(hbc \/ Lazy)
                  THEN \* the error is returned from poll_ready: connect() fails / the buffer worker dies
                       IF pc = "connect" THEN pc' = "connect_failed" /\ UNCHANGED <<err, calls, cur>>
                       ELSE pc' = "closed" /\ Finish("closed") /\ UNCHANGED err
                  ELSE err' = TRUE /\ pc' = (IF pc = "connect" THEN "idle" ELSE "ready") /\ UNCHANGED <<calls, cur>>
               /\ UNCHANGED <<script, pos, alive, hbc>>
PR_Connected == /\ Polling /\ ~err /\ st = "Connected"
                /\ hbc' = (IF SetConnected THEN TRUE ELSE hbc)
                /\ IF alive THEN pc' = (IF pc = "connect" THEN "idle" ELSE "ready") /\ UNCHANGED st
                   ELSE st' = "Idle" /\ UNCHANGED pc           \* inner.poll_ready() = Err: drop the service, loop
                /\ UNCHANGED <<script, pos, pending, alive, err, cur, calls>>
\* ---- Reconnect::call (through the buffer worker)
CallStep == /\ pc = "ready"
            /\ IF err THEN Finish("unavailable") /\ err' = (IF TakeError THEN FALSE ELSE TRUE)
               ELSE Finish("ok") /\ UNCHANGED err
            /\ pc' = "idle"
            /\ UNCHANGED <<script, pos, st, pending, alive, hbc>>
\* ---- a call on a dead worker is answered with the worker's error
ClosedCall == /\ pc = "closed" /\ Len(calls) < MaxCalls
              /\ calls' = Append(calls, [res |-> "closed", consumed |-> <<>>, aliveAtStart |-> FALSE, killedBefore |-> 0])
              /\ UNCHANGED <<script, pos, st, pending, alive, err, hbc, pc, cur>>

Worker == PR_Err \/ PR_IdleMake \/ PR_ConnOk \/ PR_ConnFail \/ PR_Connected \/ CallStep
Next == Kill \/ Issue \/ Worker \/ ClosedCall
Spec == Init /\ [][Next]_vars /\ WF_vars(Worker)

(* ------------------------------------------------------------------ Contract (C14) *)
Last(q) == q[Len(q)]
CallOK(c) == /\ c.res \in {"ok", "unavailable"}                                            \* NeverClosed: a definite, retryable answer
             /\ (c.res = "ok") <=> ((c.consumed = <<>> /\ c.aliveAtStart) \/ (c.consumed # <<>> /\ Last(c.consumed) = "S"))
             /\ (c.res # "ok") => \E i \in 1..Len(c.consumed) : c.consumed[i] = "F"         \* FailuresCharged: only to the triggering call
Contract == \A i \in 1..Len(calls) : CallOK(calls[i])
\* an eagerly connected channel reports an initial failure immediately: connect() fails iff the first connector result is not S
FirstConn == LET k == { i \in 1..Len(script) : script[i] \in {"F", "S"} } IN
             IF k = {} THEN "F" ELSE LET i == CHOOSE i \in k : \A j \in k : i <= j IN
                                     IF \A j \in 1..(i - 1) : script[j] = "D" THEN script[i] ELSE "F"
EagerOK == (~Lazy /\ pc # "connect") => ((pc = "connect_failed") <=> (script = <<>> \/ script[1] # "S"))
\* every issued call completes
AlwaysAnswers == (pc \in {"polling", "ready"}) ~> (pc \in {"idle", "closed"})
=============================================================================
