---------------------------- MODULE Trace_HealthLin ----------------------------
(* C18 under real concurrency: histories recorded from several tasks (call / ret events, globally numbered) are checked
   for LINEARIZABILITY against the channel state of Health.tla and the *Contract-level* reading of a watch stream.
   A pending operation takes effect at one internal step Lin(t) between its call and its ret event and stores the result
   the model produces; the ret event must carry that result.  Set / Clear / Check / Watch are the actions of Health.tla.
   What a watch stream may report is the property's wording, not tonic's mechanism: the stream walks forward through the
   statuses set on its channel since (and including) the one current at subscription - it may skip intermediate ones
   (coalescing) or not, may or may not repeat a status equal to the one it reported last (dedupe) - but it may only be
   silent when nothing it has not reported differs from its last report, and it ends only when its channel was closed by
   a clear, after reporting what it had not reported.  (The exact mechanism - tokio watch versions - is bound by
   Trace_HealthMech.)
   The response stream of a Watch call is a pull-based pipeline (WatchStream -> EncodeBody, which batches every item that is
   ready into one chunk -> the client's decoder buffer): while a `next` call is in progress the pipeline may poll the
   channel several times (Poll steps) and queue the results in `buf`; `next` returns the head of that queue.
   TLC searches over the orders of the Lin / Poll steps (depth first).  A history with no such order is not an interleaving
   of the atomic operations the property speaks about: clause C18.HistoryIsAnInterleavingOfAtomicOperations.
   Acceptance = highest event index reached (register 1), workers 1.                                            *)
EXTENDS Health, Integers, Json, IOUtils
Rec == ndJsonDeserialize(IOEnv.TRACE)
ASSUME TLCSet(1, 1)
ServingT == 1
DefaultT == ""
Threads == 0..8
EndMark == -1          \* queued in buf when the pipeline saw the end of the watch channel
None == [op |-> "none", sn |-> "", v |-> 0, w |-> 0, done |-> FALSE, r |-> "", st |-> -1]
VARIABLES l,
          pend,    \* per thread: the operation in progress, and once linearised its model result
          wmap,    \* harness watcher number -> index in `watchers`
          buf,     \* per watcher: items (or EndMark) the pipeline has pulled from the channel and not yet handed to `next`
          hist,    \* per channel id: every status set on it, in order (hist[id][ver] is the value of version ver)
          wst      \* per watcher: [pos: version reported last (subscription version - 1 at first), last: status reported last, ended]
tvars == <<vars, l, pend, wmap, buf, hist, wst>>
E == Rec[l]
Is(e) == l <= Len(Rec) /\ E.e = e /\ l' = l + 1
Id(m) == watchers[m].id
\* statuses the watcher has not walked past yet
Ahead(m) == (wst[m].pos + 1)..ver[Id(m)]
NothingNew(m) == \A j \in Ahead(m) : hist[Id(m)][j] = wst[m].last
HistInit == [i \in 1..MaxChan |-> IF i = 1 THEN <<Serving>> ELSE <<>>]
TInit == Init /\ l = 1 /\ pend = [t \in Threads |-> None] /\ wmap = <<>> /\ buf = <<>> /\ hist = HistInit /\ wst = <<>>
Reset == /\ Is("reset") /\ pend' = [t \in Threads |-> None] /\ wmap' = <<>> /\ buf' = <<>> /\ hist' = HistInit /\ wst' = <<>>
         /\ chan' = [s \in Svcs |-> IF s = Default THEN 1 ELSE 0] /\ val' = [i \in 1..MaxChan |-> IF i = 1 THEN Serving ELSE "none"]
         /\ ver' = [i \in 1..MaxChan |-> IF i = 1 THEN 1 ELSE 0] /\ closed' = [i \in 1..MaxChan |-> FALSE] /\ nchan' = 1
         /\ watchers' = <<>> /\ setlog' = [s \in Svcs |-> IF s = Default THEN {Serving} ELSE {}] /\ cleared' = {} /\ ops' = 0 /\ checks' = <<>>
Call == /\ Is("call") /\ pend[E.t].op = "none"
        /\ pend' = [pend EXCEPT ![E.t] = [op |-> E.op, sn |-> E.sn, v |-> E.v, w |-> E.w, done |-> FALSE, r |-> "", st |-> -1]]
        /\ UNCHANGED <<vars, wmap, buf, hist, wst>>
Done(t, r, st) == pend' = [pend EXCEPT ![t].done = TRUE, ![t].r = r, ![t].st = st]
\* the linearisation point of the operation thread t has in progress
Lin(t) == /\ l <= Len(Rec) /\ pend[t].op # "none" /\ ~pend[t].done /\ UNCHANGED l
          /\ LET p == pend[t] IN
             CASE p.op = "set" -> /\ Set(p.sn, p.v) /\ Done(t, "done", -1) /\ UNCHANGED <<wmap, buf, wst>>
                                  /\ hist' = [hist EXCEPT ![chan'[p.sn]] = IF chan'[p.sn] = chan[p.sn] THEN Append(@, p.v) ELSE <<p.v>>]
               [] p.op = "clear" -> (IF chan[p.sn] # 0 THEN Clear(p.sn) ELSE UNCHANGED vars) /\ Done(t, "done", -1) /\ UNCHANGED <<wmap, buf, hist, wst>>
               [] p.op = "check" -> /\ UNCHANGED <<vars, wmap, buf, hist, wst>>
                                    /\ IF chan[p.sn] = 0 THEN Done(t, "err", 5) ELSE Done(t, "status", val[chan[p.sn]])
               [] p.op = "watch" -> IF chan[p.sn] = 0 THEN Done(t, "err", 5) /\ UNCHANGED <<vars, wmap, buf, hist, wst>>
                                    ELSE /\ Watch(p.sn) /\ wmap' = (p.w :> (Len(watchers) + 1)) @@ wmap /\ buf' = Append(buf, <<>>)
                                         /\ wst' = Append(wst, [pos |-> ver[chan[p.sn]] - 1, last |-> -1, ended |-> FALSE])
                                         /\ Done(t, "subscribed", -1) /\ UNCHANGED hist
               [] p.op = "next" -> /\ UNCHANGED <<vars, wmap, hist, wst>>
                                   /\ IF p.w \notin DOMAIN wmap THEN Done(t, "nostream", -1) /\ UNCHANGED buf
                                      ELSE LET m == wmap[p.w] IN
                                           IF buf[m] # <<>> THEN /\ buf' = [buf EXCEPT ![m] = Tail(@)]
                                                                 /\ IF Head(buf[m]) = EndMark THEN Done(t, "end", -1) ELSE Done(t, "item", Head(buf[m]))
                                           ELSE IF wst[m].ended THEN Done(t, "end", -1) /\ UNCHANGED buf
                                           ELSE ~closed[Id(m)] /\ NothingNew(m) /\ Done(t, "pending", -1) /\ UNCHANGED buf
               [] OTHER -> FALSE
\* the pipeline of the watcher whose `next` is in progress pulls one more item (or the end) from its channel
Poll(t) == /\ l <= Len(Rec) /\ pend[t].op = "next" /\ ~pend[t].done /\ pend[t].w \in DOMAIN wmap /\ UNCHANGED <<vars, l, pend, wmap, hist>>
           /\ LET m == wmap[pend[t].w] IN
              /\ ~wst[m].ended
              /\ \/ \E j \in Ahead(m) : /\ wst' = [wst EXCEPT ![m].pos = j, ![m].last = hist[Id(m)][j]]
                                          /\ buf' = [buf EXCEPT ![m] = Append(@, hist[Id(m)][j])]
                 \/ /\ closed[Id(m)] /\ NothingNew(m)
                    /\ wst' = [wst EXCEPT ![m].ended = TRUE] /\ buf' = [buf EXCEPT ![m] = Append(@, EndMark)]
Ret == /\ Is("ret") /\ pend[E.t].done
       /\ pend[E.t].r = E.res.r /\ pend[E.t].st = E.res.status
       /\ pend' = [pend EXCEPT ![E.t] = None] /\ UNCHANGED <<vars, wmap, buf, hist, wst>>
Skip == l <= Len(Rec) /\ E.e \in {"joined", "end"} /\ l' = l + 1 /\ UNCHANGED <<vars, pend, wmap, buf, hist, wst>>
TNext == Reset \/ Call \/ (\E t \in Threads : Lin(t) \/ Poll(t)) \/ Ret \/ Skip
TSpec == TInit /\ [][TNext]_tvars
Progress == TLCSet(1, IF l > TLCGet(1) THEN l ELSE TLCGet(1))
MechInv == TRUE
Accepted == PrintT(<<"MECH_RESULT", ToJson([matched |-> TLCGet(1) - 1, total |-> Len(Rec),
                                            next |-> IF TLCGet(1) <= Len(Rec) THEN Rec[TLCGet(1)] ELSE [e |-> "none"]])>>)
=============================================================================
