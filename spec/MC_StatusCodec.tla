--------------------------- MODULE MC_StatusCodec ---------------------------
(* Pattern A/B for C04: TLC enumerates status messages over a *class alphabet* (one representative
   per byte class the percent-codec distinguishes: plain, space, '%', each character of the set
   that is escaped on the wire, '~', ':', CR, LF, TAB, DEL, NUL, 2-, 3- and 4-byte UTF-8 scalars,
   a literal "%41") up to MaxLen scalars, and details of every length 0..7 (all residues mod 3).
   For each point it checks the specification's own codec laws (the oracle is self-consistent:
   decode(encode(x)) = x, encodings are legal header values) and prints it as a stimulus for the
   real Status::add_header / from_header_map.  Distinct states = size of the table.              *)
EXTENDS StatusCodec, Json
CONSTANT MaxLen
Scalars == { <<97>>, <<32>>, <<37>>, <<34>>, <<35>>, <<60>>, <<62>>, <<96>>, <<63>>, <<123>>, <<125>>, <<126>>, <<58>>,
             <<13>>, <<10>>, <<9>>, <<127>>, <<0>>, <<195, 169>>, <<226, 130, 172>>, <<240, 159, 152, 128>>, <<37, 52, 49>> }
RECURSIVE Strings(_)
Strings(n) == IF n = 0 THEN {<<>>} ELSE LET p == Strings(n - 1) IN p \cup { a \o b : a \in { x \in p : TRUE }, b \in Scalars }
Msgs == Strings(MaxLen)
DetailBytes == {0, 255, 77}
Details == UNION { [1..n -> DetailBytes] : n \in 0..3 } \cup { [i \in 1..n |-> (i * 37) % 256] : n \in 4..7 }
\* reference encoder: escape everything outside %x20-7E and '%' itself
HexDigit(v) == IF v < 10 THEN 48 + v ELSE 55 + v
PctEncodeMin(m) == FlattenSeq([i \in 1..Len(m) |-> IF m[i] < 32 \/ m[i] > 126 \/ m[i] = 37 THEN <<37, HexDigit(m[i] \div 16), HexDigit(m[i] % 16)>> ELSE <<m[i]>>])
DetOf(m) == [i \in 1..(SumSeq(m) % 8) |-> (m[((i - 1) % Len(m)) + 1] + i) % 256]
Stims == { [msg |-> m, code |-> SumSeq(m) % 17, details |-> IF m = <<>> THEN <<>> ELSE DetOf(m)] : m \in Msgs }
         \cup { [msg |-> <<97>>, code |-> c, details |-> d] : c \in 0..16, d \in { x \in Details : Len(x) \in {0, 1, 2, 3, 7} } }
         \cup { [msg |-> <<>>, code |-> 3, details |-> d] : d \in Details }
VARIABLE pick
Init == pick \in Stims
Next == UNCHANGED pick
Spec == Init /\ [][Next]_pick
OracleLaws == /\ Utf8OK(pick.msg)
              /\ LET w == PctEncodeMin(pick.msg) IN PctWireOK(w) /\ PctStrictEscapes(w) /\ PctDecode(w) = pick.msg /\ HeaderValueLegal(w)
              /\ B64Decode(B64EncodeNoPad(pick.details)) = <<TRUE, pick.details>>
              /\ B64Decode(B64EncodePad(pick.details)) = <<TRUE, pick.details>>
              /\ CodeOf(DecDigits(pick.code)) = pick.code
              /\ BytesSelfTest /\ StatusCodecSelfTest
Export == PrintT(<<"SCRIPT", ToJson([kind |-> "rt", class |-> "tlc_table", code |-> pick.code, msg |-> pick.msg, details |-> pick.details, meta |-> <<>>])>>)
=============================================================================
