SPECIFICATION GSpec
CONSTANTS
  MaxGroups = 2
  SegmentAware = TRUE
INVARIANT Export
CHECK_DEADLOCK FALSE
