SPECIFICATION Spec
CONSTANTS
  Calls = {1, 2, 3, 4}
  Conns = {1, 2}
  Limit = 1
  Tmos = {0, 2}
  SrvTmos = {0}
  MaxTime = 3
  TimerFromAdmission = TRUE
INVARIANTS TypeOK AtMostLimit WorkConserving QueueIsTheWaiting Fifo CutOnTime Independent ServerTimerFromAdmission
PROPERTY EveryCallEnds
CHECK_DEADLOCK FALSE
