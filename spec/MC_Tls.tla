------------------------------- MODULE MC_Tls -------------------------------
EXTENDS Tls, Json
VARIABLE p
Init == p \in Points
Next == UNCHANGED p
Spec == Init /\ [][Next]_p
TableOK == (PeerCertsVisible(p) => CallTransmitted(p)) /\ (CallTransmitted(p) => (p.tls_cfg /\ p.roots = "right"))
Export == PrintT(<<"SCRIPT", ToJson(p)>>)
=============================================================================
