SPECIFICATION Spec
CONSTANTS
  Bodies <- BodiesDef
  MaxChunk = 4
  WholeTrailers = TRUE
  ErrOnLeftover = TRUE
INVARIANT Contract
PROPERTY Terminates
CHECK_DEADLOCK FALSE
