SPECIFICATION Spec
CONSTANTS
  Calls = {1, 2, 3}
  Conns = {1, 2}
  Limit = 1
  Tmos = {0, 2}
  SrvTmos = {0, 2}
  MaxTime = 3
  TimerFromAdmission = FALSE
INVARIANTS TypeOK AtMostLimit WorkConserving QueueIsTheWaiting Fifo CutOnTime Independent ServerTimerFromAdmission
PROPERTY EveryCallEnds
CHECK_DEADLOCK FALSE
