---- MODULE MC_Balance_TTrace_1791091902 ----
EXTENDS Sequences, TLCExt, MC_Balance, Toolbox, Naturals, TLC

_expression ==
    LET MC_Balance_TEExpression == INSTANCE MC_Balance_TEExpression
    IN MC_Balance_TEExpression!expression
----

_trace ==
    LET MC_Balance_TETrace == INSTANCE MC_Balance_TETrace
    IN MC_Balance_TETrace!trace
----

_inv ==
    ~(
        TLCGet("level") = Len(_TETrace)
        /\
        conn = ([k1 |-> TRUE, k2 |-> FALSE])
        /\
        hist = (<<[up |-> {}, want |-> [k1 |-> "a", k2 |-> "a"], stale |-> {"k1", "k2"}, res |-> "unavailable", by |-> "-"], [up |-> {"a"}, want |-> [k1 |-> "a", k2 |-> "a"], stale |-> {"k2"}, res |-> "unavailable", by |-> "-"]>>)
        /\
        stale = ({})
        /\
        err = ([k1 |-> FALSE, k2 |-> FALSE])
        /\
        svcs = ([k1 |-> "a", k2 |-> "a"])
        /\
        want = ([k1 |-> "a", k2 |-> "a"])
        /\
        up = ({"a"})
        /\
        chq = (<<>>)
        /\
        script = (<<[op |-> "insert", key |-> "k1", srv |-> "a"], [op |-> "insert", key |-> "k2", srv |-> "a"], [op |-> "call", key |-> "", srv |-> "-"], [op |-> "up", key |-> "", srv |-> "a"], [op |-> "call", key |-> "", srv |-> "-"]>>)
    )
----

_init ==
    /\ chq = _TETrace[1].chq
    /\ conn = _TETrace[1].conn
    /\ script = _TETrace[1].script
    /\ svcs = _TETrace[1].svcs
    /\ hist = _TETrace[1].hist
    /\ stale = _TETrace[1].stale
    /\ up = _TETrace[1].up
    /\ want = _TETrace[1].want
    /\ err = _TETrace[1].err
----

_next ==
    /\ \E i,j \in DOMAIN _TETrace:
        /\ \/ /\ j = i + 1
              /\ i = TLCGet("level")
        /\ chq  = _TETrace[i].chq
        /\ chq' = _TETrace[j].chq
        /\ conn  = _TETrace[i].conn
        /\ conn' = _TETrace[j].conn
        /\ script  = _TETrace[i].script
        /\ script' = _TETrace[j].script
        /\ svcs  = _TETrace[i].svcs
        /\ svcs' = _TETrace[j].svcs
        /\ hist  = _TETrace[i].hist
        /\ hist' = _TETrace[j].hist
        /\ stale  = _TETrace[i].stale
        /\ stale' = _TETrace[j].stale
        /\ up  = _TETrace[i].up
        /\ up' = _TETrace[j].up
        /\ want  = _TETrace[i].want
        /\ want' = _TETrace[j].want
        /\ err  = _TETrace[i].err
        /\ err' = _TETrace[j].err

\* Uncomment the ASSUME below to write the states of the error trace
\* to the given file in Json format. Note that you can pass any tuple
\* to `JsonSerialize`. For example, a sub-sequence of _TETrace.
    \* ASSUME
    \*     LET J == INSTANCE Json
    \*         IN J!JsonSerialize("MC_Balance_TTrace_1791091902.json", _TETrace)

=============================================================================

 Note that you can extract this module `MC_Balance_TEExpression`
  to a dedicated file to reuse `expression` (the module in the 
  dedicated `MC_Balance_TEExpression.tla` file takes precedence 
  over the module `MC_Balance_TEExpression` below).

---- MODULE MC_Balance_TEExpression ----
EXTENDS Sequences, TLCExt, MC_Balance, Toolbox, Naturals, TLC

expression == 
    [
        \* To hide variables of the `MC_Balance` spec from the error trace,
        \* remove the variables below.  The trace will be written in the order
        \* of the fields of this record.
        chq |-> chq
        ,conn |-> conn
        ,script |-> script
        ,svcs |-> svcs
        ,hist |-> hist
        ,stale |-> stale
        ,up |-> up
        ,want |-> want
        ,err |-> err
        
        \* Put additional constant-, state-, and action-level expressions here:
        \* ,_stateNumber |-> _TEPosition
        \* ,_chqUnchanged |-> chq = chq'
        
        \* Format the `chq` variable as Json value.
        \* ,_chqJson |->
        \*     LET J == INSTANCE Json
        \*     IN J!ToJson(chq)
        
        \* Lastly, you may build expressions over arbitrary sets of states by
        \* leveraging the _TETrace operator.  For example, this is how to
        \* count the number of times a spec variable changed up to the current
        \* state in the trace.
        \* ,_chqModCount |->
        \*     LET F[s \in DOMAIN _TETrace] ==
        \*         IF s = 1 THEN 0
        \*         ELSE IF _TETrace[s].chq # _TETrace[s-1].chq
        \*             THEN 1 + F[s-1] ELSE F[s-1]
        \*     IN F[_TEPosition - 1]
    ]

=============================================================================



Parsing and semantic processing can take forever if the trace below is long.
 In this case, it is advised to uncomment the module below to deserialize the
 trace from a generated binary file.

\*
\*---- MODULE MC_Balance_TETrace ----
\*EXTENDS IOUtils, MC_Balance, TLC
\*
\*trace == IODeserialize("MC_Balance_TTrace_1791091902.bin", TRUE)
\*
\*=============================================================================
\*

---- MODULE MC_Balance_TETrace ----
EXTENDS MC_Balance, TLC

trace == 
    <<
    ([conn |-> [k1 |-> FALSE, k2 |-> FALSE],hist |-> <<>>,stale |-> {},err |-> [k1 |-> FALSE, k2 |-> FALSE],svcs |-> [k1 |-> "-", k2 |-> "-"],want |-> [k1 |-> "-", k2 |-> "-"],up |-> {},chq |-> <<>>,script |-> <<>>]),
    ([conn |-> [k1 |-> FALSE, k2 |-> FALSE],hist |-> <<>>,stale |-> {},err |-> [k1 |-> FALSE, k2 |-> FALSE],svcs |-> [k1 |-> "-", k2 |-> "-"],want |-> [k1 |-> "a", k2 |-> "-"],up |-> {},chq |-> <<[op |-> "insert", key |-> "k1", srv |-> "a"]>>,script |-> <<[op |-> "insert", key |-> "k1", srv |-> "a"]>>]),
    ([conn |-> [k1 |-> FALSE, k2 |-> FALSE],hist |-> <<>>,stale |-> {},err |-> [k1 |-> FALSE, k2 |-> FALSE],svcs |-> [k1 |-> "-", k2 |-> "-"],want |-> [k1 |-> "a", k2 |-> "a"],up |-> {},chq |-> <<[op |-> "insert", key |-> "k1", srv |-> "a"], [op |-> "insert", key |-> "k2", srv |-> "a"]>>,script |-> <<[op |-> "insert", key |-> "k1", srv |-> "a"], [op |-> "insert", key |-> "k2", srv |-> "a"]>>]),
    ([conn |-> [k1 |-> FALSE, k2 |-> FALSE],hist |-> <<[up |-> {}, want |-> [k1 |-> "a", k2 |-> "a"], stale |-> {"k1", "k2"}, res |-> "unavailable", by |-> "-"]>>,stale |-> {"k2"},err |-> [k1 |-> FALSE, k2 |-> TRUE],svcs |-> [k1 |-> "a", k2 |-> "a"],want |-> [k1 |-> "a", k2 |-> "a"],up |-> {},chq |-> <<>>,script |-> <<[op |-> "insert", key |-> "k1", srv |-> "a"], [op |-> "insert", key |-> "k2", srv |-> "a"], [op |-> "call", key |-> "", srv |-> "-"]>>]),
    ([conn |-> [k1 |-> FALSE, k2 |-> FALSE],hist |-> <<[up |-> {}, want |-> [k1 |-> "a", k2 |-> "a"], stale |-> {"k1", "k2"}, res |-> "unavailable", by |-> "-"]>>,stale |-> {"k2"},err |-> [k1 |-> FALSE, k2 |-> TRUE],svcs |-> [k1 |-> "a", k2 |-> "a"],want |-> [k1 |-> "a", k2 |-> "a"],up |-> {"a"},chq |-> <<>>,script |-> <<[op |-> "insert", key |-> "k1", srv |-> "a"], [op |-> "insert", key |-> "k2", srv |-> "a"], [op |-> "call", key |-> "", srv |-> "-"], [op |-> "up", key |-> "", srv |-> "a"]>>]),
    ([conn |-> [k1 |-> TRUE, k2 |-> FALSE],hist |-> <<[up |-> {}, want |-> [k1 |-> "a", k2 |-> "a"], stale |-> {"k1", "k2"}, res |-> "unavailable", by |-> "-"], [up |-> {"a"}, want |-> [k1 |-> "a", k2 |-> "a"], stale |-> {"k2"}, res |-> "unavailable", by |-> "-"]>>,stale |-> {},err |-> [k1 |-> FALSE, k2 |-> FALSE],svcs |-> [k1 |-> "a", k2 |-> "a"],want |-> [k1 |-> "a", k2 |-> "a"],up |-> {"a"},chq |-> <<>>,script |-> <<[op |-> "insert", key |-> "k1", srv |-> "a"], [op |-> "insert", key |-> "k2", srv |-> "a"], [op |-> "call", key |-> "", srv |-> "-"], [op |-> "up", key |-> "", srv |-> "a"], [op |-> "call", key |-> "", srv |-> "-"]>>])
    >>
----


=============================================================================

---- CONFIG MC_Balance_TTrace_1791091902 ----
CONSTANTS
    Keys = { "k1" , "k2" }
    Srvs = { "a" , "b" }
    None = "-"
    MaxSteps = 6
    DrainAll = TRUE
    PromoteAll = TRUE

INVARIANT
    _inv

CHECK_DEADLOCK
    \* CHECK_DEADLOCK off because of PROPERTY or INVARIANT above.
    FALSE

INIT
    _init

NEXT
    _next

CONSTANT
    _TETrace <- _trace

ALIAS
    _expression
=============================================================================
\* Generated on Sun Oct 04 05:31:44 UTC 2026