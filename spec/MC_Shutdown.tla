---------------------------- MODULE MC_Shutdown ----------------------------
EXTENDS Shutdown, Json
\* two connections; calls 1 (unary) and 2 (streaming, two items) on connection 1, call 3 on connection 2
ConnOfDef == [k \in Calls |-> IF k = 3 THEN 2 ELSE 1]
ItemsDef == [k \in Calls |-> IF k = 2 THEN 2 ELSE 0]
ConnOfBig == [k \in Calls |-> IF k \in {1, 2} THEN 1 ELSE IF k = 3 THEN 2 ELSE 3]
ConnOfHuge == [k \in Calls |-> IF k \in {1, 2} THEN 1 ELSE IF k \in {3, 4} THEN 2 ELSE 3]
ItemsHuge == [k \in Calls |-> IF k = 2 THEN 2 ELSE IF k = 4 THEN 1 ELSE 0]
ItemsBig == [k \in Calls |-> IF k = 2 THEN 2 ELSE IF k = 4 THEN 1 ELSE 0]
=============================================================================
