SPECIFICATION Spec
CONSTANTS
  Scripts <- ScriptsDef
  Lazy = TRUE
  MaxCalls = 5
  TakeError = TRUE
  SetConnected = TRUE
INVARIANTS Contract EagerOK Export
CHECK_DEADLOCK FALSE
