SPECIFICATION GSpec
CONSTANTS
  MaxGroups = 4
  SegmentAware = TRUE
INVARIANT Export
CHECK_DEADLOCK FALSE
