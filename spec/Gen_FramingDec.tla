--------------------------- MODULE Gen_FramingDec ---------------------------
(* Pattern B export for the decoder: every behaviour of the Mechanism model up to its first
   terminal result, printed as one stimulus script (input bytes, tail, the transport's chunk
   sizes) together with the result history the model predicts.  The harness replays each script
   on the real Streaming; Trace_Framing judges the recording against the Contract and the driver
   compares it with `expect` (a difference is DRIFT of the Mechanism model, not a violation). *)
EXTENDS MC_FramingDec, Json
VARIABLE sched
GInit == Init /\ sched = <<>>
GNext == Next /\ sched' = IF dl' # dl THEN Append(sched, dl' - dl) ELSE IF empties' # empties THEN Append(sched, 0) ELSE sched
GSpec == GInit /\ [][GNext]_<<vars, sched>>
Terminals == Cardinality({ i \in 1..Len(res) : res[i].r \in {"end", "err"} })
\* stop exploring a behaviour after its second terminal result
GBound == Terminals <= 2
Export == (Terminals = 2) =>
            PrintT(<<"SCRIPT", ToJson([wire |-> input.wire, tail |-> input.tail, cuts |-> sched, expect |-> res])>>)
=============================================================================
