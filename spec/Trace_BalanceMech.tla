-------------------------- MODULE Trace_BalanceMech --------------------------
(* Mechanism-level trace validation of the load-balanced channel: every step the lab applied to a real Channel::balance_channel
   over TCP endpoints - Change::Insert / Remove sent, server taken down / brought up, call issued and awaited - with the result the
   call returned, must be the corresponding action of Balance.tla with that result (which endpoint p2c picked is not recorded:
   TLC searches for a choice that explains the result).  A trace the model cannot follow is reported as model drift; the
   model's Contract is checked as an invariant along the way.                                                              *)
EXTENDS Balance, Json, IOUtils, TLC
Rec == ndJsonDeserialize(IOEnv.TRACE)
ASSUME TLCSet(1, 1)
VARIABLE l
tvars == <<vars, l>>
E == Rec[l]
At(e) == l <= Len(Rec) /\ E.e = e /\ l' = l + 1
TInit == Init /\ up = {} /\ l = 1
Reset == /\ At("reset")
         /\ chq' = <<>> /\ svcs' = [k \in Keys |-> None] /\ want' = [k \in Keys |-> None] /\ up' = { E.stim.up0[i] : i \in 1..Len(E.stim.up0) }
         /\ conn' = [k \in Keys |-> FALSE] /\ err' = [k \in Keys |-> FALSE] /\ hist' = <<>> /\ stale' = {} /\ script' = <<>>
EvEnv == /\ At("env")
         /\ CASE E.op = "insert" -> Send(Ins(E.key, E.srv))
              [] E.op = "remove" -> Send(Rem(E.key))
              [] E.op = "down" -> Down(E.srv)
              [] E.op = "up" -> Up(E.srv)
              [] OTHER -> FALSE
EvCall == /\ At("call") /\ Call
          /\ LET h == hist'[Len(hist')] IN h.res = E.res /\ (E.res = "ok" => h.by = E.by)
EvEnd == At("end") /\ UNCHANGED vars
TNext == Reset \/ EvEnv \/ EvCall \/ EvEnd
TSpec == TInit /\ [][TNext]_tvars
Progress == TLCSet(1, IF l > TLCGet(1) THEN l ELSE TLCGet(1))
MechInv == TypeOK /\ Contract
Accepted == PrintT(<<"MECH_RESULT", ToJson([matched |-> TLCGet(1) - 1, total |-> Len(Rec),
                                            next |-> IF TLCGet(1) <= Len(Rec) THEN Rec[TLCGet(1)] ELSE [e |-> "none"]])>>)
=============================================================================
