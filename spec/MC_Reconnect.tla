---------------------------- MODULE MC_Reconnect ----------------------------
EXTENDS Reconnect, Json
RECURSIVE SeqsUpTo(_)
SeqsUpTo(n) == IF n = 0 THEN {<<>>} ELSE LET prev == SeqsUpTo(n - 1) IN prev \cup { Append(s, x) : s \in { t \in prev : Len(t) = n - 1 }, x \in {"F", "S", "D"} }
ScriptsDef == SeqsUpTo(5)
ScriptsBig == SeqsUpTo(7)
\* export: when all calls are done, print the script with the predicted results
Done == (Len(calls) = MaxCalls /\ pc \in {"idle", "closed"}) \/ pc = "connect_failed"
Export == Done => PrintT(<<"SCRIPT", ToJson([script |-> script, lazy |-> Lazy, connect |-> IF pc = "connect_failed" THEN "err" ELSE "ok",
                                             expect |-> [i \in 1..Len(calls) |-> calls[i].res]])>>)
=============================================================================
