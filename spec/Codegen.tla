------------------------------ MODULE Codegen ------------------------------
(* Contract of service code generation (C11): for a service descriptor d and builder options, the generated client
   sends every call to "/" Qual "/" Method with the streaming shape and message types the generated server dispatches
   on, and the server advertises Qual as its name.  Strings are TLA+ strings (TLC concatenates them with \o). *)
EXTENDS Naturals, Sequences, FiniteSets, TLC
Qual(d) == IF d.package = "" \/ ~d.opts.emit_package THEN d.service.proto ELSE d.package \o "." \o d.service.proto
Path(d, m) == "/" \o Qual(d) \o "/" \o m.proto
Kind(m) == IF m.cs THEN (IF m.ss THEN "streaming" ELSE "client_streaming") ELSE (IF m.ss THEN "server_streaming" ELSE "unary")
Trait(m) == IF m.cs THEN (IF m.ss THEN "StreamingService" ELSE "ClientStreamingService") ELSE (IF m.ss THEN "ServerStreamingService" ELSE "UnaryService")
ClientOK(d, f) ==
  /\ Len(f.client) = Len(d.methods)
  /\ \A i \in 1..Len(d.methods) :
       LET m == d.methods[i] c == f.client[i] IN
       /\ c.fn = m.name /\ c.paths = <<Path(d, m)>> /\ c.gm = << <<Qual(d), m.proto>> >> /\ c.kinds = <<Kind(m)>>
       /\ c.arg_streaming = m.cs /\ c.ret_streaming = m.ss
       /\ ("codec" \in DOMAIN m /\ "codec" \in DOMAIN c) => c.codec = <<m.codec>>      \* manual builder: each method is generated with its own codec
ServerOK(d, f) ==
  /\ Len(f.server) = Len(d.methods)
  /\ \A i \in 1..Len(d.methods) :
       LET m == d.methods[i] a == f.server[i] IN
       /\ a.path = Path(d, m) /\ a.grpc_calls = <<Kind(m)>> /\ a.trait_calls = <<m.name>>
       /\ Len(a.impls) = 1 /\ a.impls[1].trait = Trait(m) /\ Len(a.resp) = 1
       /\ ("codec" \in DOMAIN m /\ "codec" \in DOMAIN a) => a.codec = <<m.codec>>
       \* a streaming response names its item type once more when the stream is boxed (default stubs): it is the response type
       /\ ("resp_stream_items" \in DOMAIN a) => (/\ Len(a.resp_stream_items) = (IF m.ss THEN 1 ELSE 0)
                                                 /\ \A k \in 1..Len(a.resp_stream_items) : a.resp_stream_items[k] \in {"", a.resp[1]}
                                                 /\ (m.ss /\ d.opts.default_stubs) => a.resp_stream_items = <<a.resp[1]>>)
  /\ f.service_name = <<Qual(d)>> /\ f.named \in {<<"SERVICE_NAME">>, <<"\"" \o Qual(d) \o "\"">>}
  /\ f.trait_fns = [i \in 1..Len(d.methods) |-> d.methods[i].name]
AgreeOK(d, f) == \A i \in 1..Len(d.methods) :
                   /\ f.client[i].paths = <<f.server[i].path>> /\ f.client[i].kinds = f.server[i].grpc_calls
                   /\ f.client[i].req_ty = f.server[i].impls[1].args /\ f.client[i].resp_ty = f.server[i].resp[1]
Clauses(d, f) ==
  << <<"C11.GeneratedCodeParses", f.parses>>,
     <<"C11.ClientSendsToMethodPath", (f.parses /\ d.opts.client) => ClientOK(d, f)>>,
     <<"C11.ServerDispatchesOnMethodPath", (f.parses /\ d.opts.server) => ServerOK(d, f)>>,
     <<"C11.ClientAndServerAgree", (f.parses /\ d.opts.client /\ d.opts.server /\ ClientOK(d, f) /\ ServerOK(d, f)) => AgreeOK(d, f)>>,
     <<"C11.NothingGeneratedWhenDisabled", f.parses => ((~d.opts.client => f.client = <<>>) /\ (~d.opts.server => f.server = <<>>))>> >>
=============================================================================
