----------------------------- MODULE Trace_Call -----------------------------
(* Trace validation of recorded RPCs (call lab) against the Call contract: C02, C03 (head and body
   clauses), C05, C08.  Client-mode runs go through the generated client and server, in-process with
   both bodies tapped, or over real h2 through the fragmenting shim (then only the two API views are
   recorded).  Raw-mode runs feed a hand-built http request to the server stack (C05 request side). *)
EXTENDS Call, TraceKit

None == [none |-> TRUE]
Fresh(stim) == [stim |-> stim, rejected |-> <<>>, built |-> FALSE, reqHead |-> None, srv |-> None, respHead |-> None, cli |-> None,
                reqTr |-> 0, reqData |-> <<>>, respData |-> <<>>, respTrs |-> <<>>, respEnd |-> FALSE, rawSent |-> None, bodies |-> FALSE]
Is(x) == "none" \notin DOMAIN x
Keys == {"mock", "wire", "wire_recovered", "limit_hits", "runs", "inproc", "h2", "raw", "unary", "cstream", "sstream", "bidi", "handler_errors", "fail_before", "compressed_resp",
         "compressed_req", "with_req_meta", "with_err_meta", "trailers_only", "refused"}
Init == InitK(Fresh([mode |-> "none"]), Keys)

ReqMeta == Accepted(s.stim.req.meta, s.rejected)
ClientMode == s.stim.mode = "client"
MockMode == s.stim.mode = "mock"
Tapped == s.stim.mode \in {"raw", "wire"} \/ s.stim.transport = "inproc"
WireMode == s.stim.mode = "wire"

Reset == ResetK(Fresh(E.stim))
         /\ Count({"runs", IF E.stim.mode = "raw" THEN "raw" ELSE IF E.stim.mode = "mock" THEN "mock" ELSE IF E.stim.mode = "wire" THEN "wire" ELSE E.stim.transport}
                  \cup (IF E.stim.mode = "client" THEN {E.stim.shape} ELSE {})
                  \cup (IF E.stim.mode = "client" /\ ~E.stim.script.end.ok THEN {"handler_errors"} ELSE {})
                  \cup (IF E.stim.mode = "client" /\ E.stim.script.fail_before THEN {"fail_before"} ELSE {})
                  \cup (IF E.stim.mode = "client" /\ E.stim.req.meta # <<>> THEN {"with_req_meta"} ELSE {})
                  \cup (IF E.stim.mode = "client" /\ ~E.stim.script.end.ok /\ E.stim.script.end.meta # <<>> THEN {"with_err_meta"} ELSE {})
                  \cup (IF E.stim.mode = "client" /\ EncRefused(E.stim) THEN {"refused"} ELSE {})
                  \cup (IF E.stim.mode = "client" /\ LimitHit(E.stim) THEN {"limit_hits"} ELSE {}))

CliBuilt == /\ Live("cli_built") /\ UNCHANGED stats
            /\ JudgeK(<< <<"HarnessOK", ClientMode \/ MockMode>> >>, [s EXCEPT !.rejected = E.rejected, !.built = TRUE])
ReqHead == /\ Live("req_head") /\ UNCHANGED stats
           /\ JudgeK(ReqHeadClauses(s.stim, E, ReqMeta) \o << <<"HarnessOK", s.built /\ ~Is(s.reqHead)>> >>, [s EXCEPT !.reqHead = E])
FrameEv == /\ Live("frame")
         /\ IF E.side = "req"
            THEN /\ JudgeK(<< <<"C03.RequestHasNoTrailers", E.k # "trailers">> >>,
                           IF E.k = "data" THEN [s EXCEPT !.reqData = @ \o E.bytes] ELSE s)
                 /\ UNCHANGED stats
            ELSE /\ JudgeK(IF E.k = "data" THEN << <<"C03.NothingAfterStatus", s.respTrs = <<>> /\ ~s.respEnd>>, <<"C03.NonEmptyData", E.bytes # <<>> >> >>
                           ELSE IF E.k = "trailers" THEN << <<"C03.StatusOnce", s.respTrs = <<>> /\ ~s.respEnd>> >>
                           ELSE IF E.k = "err" THEN << <<"C03.ResponseBodyNeverErrors", FALSE>> >>
                           ELSE <<>>,
                           IF E.k = "data" THEN [s EXCEPT !.respData = @ \o E.bytes]
                           ELSE IF E.k = "trailers" THEN [s EXCEPT !.respTrs = Append(@, E.list)]
                           ELSE [s EXCEPT !.respEnd = TRUE])
                 /\ UNCHANGED stats
SrvReq == /\ Live("srv_req") /\ UNCHANGED stats
          /\ IF ClientMode /\ LimitHit(s.stim) THEN JudgeK(<< <<"C02.HandlerRunsOnce", ~Is(s.srv)>> >>, [s EXCEPT !.srv = E])
             ELSE IF ClientMode
             THEN JudgeK(HandlerClauses(s.stim, E, ReqMeta) \o << <<"C05.RefusedBeforeHandler", ~EncRefused(s.stim)>>, <<"C02.HandlerRunsOnce", ~Is(s.srv)>> >>,
                         [s EXCEPT !.srv = E])
             ELSE JudgeK(<< <<"C02.HandlerRunsOnce", ~Is(s.srv)>> >>, [s EXCEPT !.srv = E])
RespHead == /\ Live("resp_head") /\ UNCHANGED stats
            /\ JudgeK(<< <<"HarnessOK", ~Is(s.respHead)>> >>, [s EXCEPT !.respHead = E])
Cli == /\ Live("cli") /\ UNCHANGED stats
       /\ JudgeK((IF MockMode THEN MockClauses(s.stim, E)
                  ELSE IF LimitHit(s.stim) THEN LimitClauses(s.stim, E, IF Is(s.srv) THEN s.srv.msgs ELSE <<>>, Is(s.srv))
                  ELSE IF EncRefused(s.stim)
                  THEN << <<"C05.UnsupportedRequestEncodingIsUnimplemented", ~E.ok /\ E.st.code = 12>> >>
                  ELSE ClientClauses(s.stim, E)) \o << <<"HarnessOK", ~Is(s.cli)>> >>, [s EXCEPT !.cli = E])
\* events of other labs' concerns (deadline timing, handler completion) carry no clause here
Ignore == /\ l <= Len(Rec) /\ ~dead /\ E.e \in {"timing", "srv_done"} /\ l' = l + 1 /\ UNCHANGED <<run, dead, bad, s, stats>>
ConnectErr == /\ Live("connect_err") /\ UNCHANGED stats /\ JudgeK(<< <<"HarnessOK", FALSE>> >>, s)

\* ---- raw requests into the server stack (C05, request side)
RawSent == /\ Live("raw_sent") /\ UNCHANGED stats
           /\ JudgeK(<< <<"HarnessOK", E.skipped = 0 /\ ~ClientMode>> >>, [s EXCEPT !.rawSent = E])
RawErr == /\ Live("raw_err") /\ UNCHANGED stats /\ JudgeK(<< <<"C03.ServerAlwaysAnswers", FALSE>> >>, s)

\* request-side expectations of a raw call: [refused (12) | flagNoEnc (13) | served]
RawReqEnc(list) == LET g == Values(list, "grpc-encoding") IN IF g = <<>> \/ g[1] = S_identity THEN "" ELSE EncOfBytes(g[1])
RawBodyFlagged(stim) == stim.raw.flag = 1
RawClauses(stim, sent, status, head, bytes, hints, trs, srv) ==
  LET g == RawReqEnc(sent.list)
      accept == SeqToSet(stim.server.accept)
      refused == g # "" /\ g \notin accept
      flagNoEnc == ~refused /\ g = "" /\ RawBodyFlagged(stim)
      trailersOnly == bytes = <<>> /\ trs = <<>>
      statusList == IF trailersOnly THEN head ELSE IF trs = <<>> THEN <<>> ELSE trs[Len(trs)]
      code == IF StatusCount(statusList) = 1 THEN CodeOf(Values(statusList, "grpc-status")[1]) ELSE -1
      enc == RespEncoding(head)
      offered == OfferedEncs(sent.list)
      hdrVisible == \A i \in 1..Len(sent.list) : sent.list[i].n = "grpc-accept-encoding" => VisibleAscii(sent.list[i].v)
  IN << <<"C03.Http200", status = 200>>,
        <<"C03.RespContentType", Values(head, "content-type") = <<S_appgrpc>> >>,
        <<"C03.StatusOnce", IF trailersOnly THEN StatusCount(head) = 1 ELSE StatusCount(head) = 0 /\ Len(trs) = 1 /\ StatusCount(trs[1]) = 1>>,
        <<"C05.UnsupportedRequestEncodingIsUnimplemented", refused => (code = 12 /\ trailersOnly /\ ~Is(srv))>>,
        <<"C05.RefusalListsEnabledEncodings", refused => (AcceptAdvertised(head) = accept /\ AcceptTokensRaw(head) \subseteq { EncBytes[e] : e \in EncNames })>>,
        <<"C05.FlagWithoutEncodingIsInternal", flagNoEnc => code = 13>>,
        <<"C05.EncodingOnlyAsNegotiated", (enc # "" /\ hdrVisible) => (enc \in SeqToSet(stim.server.send) /\ enc \in offered)>>,
        <<"C05.EncodingOnlyAsConfigured", enc # "" => enc \in SeqToSet(stim.server.send)>>,
        <<"C05.AnnouncedIffChosen", Len(Values(head, "grpc-encoding")) <= 1 /\ (enc = "" => NoneFlagged(bytes))>>,
        <<"C05.CompressedWithAnnouncedEncoding", FlaggedDecode(bytes, hints, enc)>>,
        <<"C05.ServedWhenAcceptable", (~refused /\ ~flagNoEnc /\ stim.raw.wellformed) => (code = FinalCode(stim) /\ Is(srv))>>,
        <<"C03.BodyIsTheMessages", (~refused /\ ~flagNoEnc /\ stim.raw.wellformed) => BodyCarries(bytes, hints, SentMsgs(stim), enc)>> >>

\* ---- "wire" runs: a bare h2 client against everything tonic::transport::Server wraps around the service.  The response may come
\* from the handler, or be synthesised by the server for a call that failed in a layer (a user layer's Status, an expired timeout):
\* either way it is a gRPC response tonic produced (C03), and carries the status the failure stands for (C02 / C09 wording).
WireExpect(stim) == IF stim.server.fail_code >= 0 THEN stim.server.fail_code ELSE IF stim.wire.expires THEN 1 ELSE FinalCode(stim)
WireClauses(stim, status, head, bytes, hints, trs, srv) ==
  LET trailersOnly == bytes = <<>> /\ trs = <<>>
      statusList == IF trailersOnly THEN head.list ELSE IF trs = <<>> THEN <<>> ELSE trs[Len(trs)]
      code == IF StatusCount(statusList) = 1 THEN CodeOf(Values(statusList, "grpc-status")[1]) ELSE -1
      recovered == stim.server.fail_code >= 0 \/ stim.wire.expires
  IN << <<"C03.Http200", status = 200>>,
        <<"C03.RespContentType", Values(head.list, "content-type") = <<S_appgrpc>> >>,
        <<"C03.StatusOnce", IF trailersOnly THEN StatusCount(head.list) = 1 ELSE StatusCount(head.list) = 0 /\ Len(trs) = 1 /\ StatusCount(trs[1]) = 1>>,
        <<"C03.TrailersOnlyIsBodyless", trailersOnly => head.eos>>,
        <<"C02.TrueStatusOnWire", code = WireExpect(stim)>>,
        <<"C02.HandlerRunsOnce", stim.server.fail_code >= 0 => ~Is(srv)>>,
        <<"C03.BodyIsTheMessages", IF recovered THEN trailersOnly ELSE BodyCarries(bytes, hints, SentMsgs(stim), "")>> >>

Bodies == /\ Live("bodies")
          /\ LET off == IF ClientMode THEN SeqToSet(s.stim.client.accept) ELSE {} IN
             JudgeK(<< <<"RecorderHonest", E.req.bytes = s.reqData /\ E.resp.bytes = s.respData>>,
                       <<"HintsAligned", HintsOK(E.req.bytes, E.req.frames) /\ HintsOK(E.resp.bytes, E.resp.frames)>> >>
                    \o (IF ClientMode /\ Tapped /\ Is(s.reqHead) /\ ~EncRefused(s.stim) /\ ~LimitHit(s.stim) THEN   \* a refused request's body is never read
                           << <<"C03.RequestBodyIsTheMessages", BodyCarries(E.req.bytes, E.req.frames, s.stim.req.msgs, s.stim.client.send)>>,
                              <<"C05.ClientCompressesAsConfigured", IF s.stim.client.send = "" THEN NoneFlagged(E.req.bytes) ELSE AllFlagged(E.req.bytes)>>,
                              <<"C05.CompressedWithAnnouncedEncoding", FlaggedDecode(E.req.bytes, E.req.frames, s.stim.client.send)>>,
                              \* ... "announced" read off the wire: the grpc-encoding the request head actually carries
                              <<"C03.RequestCompressedAsAnnounced", FlaggedDecode(E.req.bytes, E.req.frames, RawReqEnc(s.reqHead.list))>> >>
                        ELSE <<>>)
                    \o (IF ClientMode /\ Tapped /\ Is(s.respHead) /\ ~EncRefused(s.stim) /\ ~LimitHit(s.stim) THEN
                           ResponseClauses(s.stim, s.respHead.status, s.respHead.list, E.resp.bytes, E.resp.frames, s.respTrs, off)
                           \* a trailers-only response is body-less: its body is at its end before it is ever polled (no DATA frame, not even an empty one)
                           \o << <<"C03.TrailersOnlyIsBodyless", (E.resp.bytes = <<>> /\ s.respTrs = <<>> /\ Has(s.respHead, "eos")) => s.respHead.eos>> >>
                        ELSE <<>>)
                    \o (IF WireMode /\ Is(s.respHead) THEN
                           WireClauses(s.stim, s.respHead.status, s.respHead, E.resp.bytes, E.resp.frames, s.respTrs, s.srv)
                        ELSE <<>>)
                    \o (IF ~ClientMode /\ ~WireMode /\ Is(s.respHead) /\ Is(s.rawSent) THEN
                           RawClauses(s.stim, s.rawSent, s.respHead.status, s.respHead.list, E.resp.bytes, E.resp.frames, s.respTrs, s.srv)
                        ELSE <<>>),
                    [s EXCEPT !.bodies = TRUE])
          /\ Count((IF AllFlagged(E.resp.bytes) /\ E.resp.bytes # <<>> THEN {"compressed_resp"} ELSE {})
                   \cup (IF AllFlagged(E.req.bytes) /\ E.req.bytes # <<>> THEN {"compressed_req"} ELSE {})
                   \cup (IF Tapped /\ E.resp.bytes = <<>> /\ s.respTrs = <<>> THEN {"trailers_only"} ELSE {})
                   \cup (IF WireMode /\ (s.stim.server.fail_code >= 0 \/ s.stim.wire.expires) THEN {"wire_recovered"} ELSE {}))
End == EndK(<< <<"RunComplete", E.outcome = "ok" =>
                   /\ s.bodies
                   /\ ((ClientMode \/ MockMode) => Is(s.cli))
                   /\ (Tapped => Is(s.respHead))
                   /\ ((ClientMode /\ Tapped) => Is(s.reqHead))>>,
               <<"C02.HandlerInvoked", (E.outcome = "ok" /\ ClientMode /\ ~EncRefused(s.stim) /\ ~LimitHit(s.stim)) => Is(s.srv)>> >>)

Known == {"timing", "srv_done", "reset", "cli_built", "req_head", "frame", "srv_req", "resp_head", "cli", "connect_err", "raw_sent", "raw_err", "bodies", "end"}
Next == Reset \/ CliBuilt \/ ReqHead \/ FrameEv \/ SrvReq \/ RespHead \/ Cli \/ ConnectErr \/ RawSent \/ RawErr \/ Bodies \/ End \/ Ignore
        \/ UnknownK(Known) \/ DeadSkipK
Spec == Init /\ [][Next]_kvars
=============================================================================
