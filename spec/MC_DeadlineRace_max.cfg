SPECIFICATION Spec
CONSTANTS
  Tcs = {0, 1, 2, 3}
  Tss = {0, 1, 2, 3}
  Ls = {0, 1, 2, 3, 4}
  MinInsteadOfMax = FALSE
INVARIANT ShortestDeadline
PROPERTY Completes
CHECK_DEADLOCK FALSE
