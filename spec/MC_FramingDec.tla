--------------------------- MODULE MC_FramingDec ---------------------------
(* Exhaustive configuration of the decoder Mechanism model: hostile and valid wires over a small
   byte alphabet x every chunking (chunks of 1..MaxChunk bytes) x every tail. *)
EXTENDS FramingDec
H(f, n) == <<f, 0, 0, 0, n>>
\* payloads: plain bytes, a well-formed "compressed" payload <<9, x>>, garbage for the decompressor
Wires == { H(f, n) \o p \o q :
             f \in {0, 1, 2}, n \in {0, 1, 2, 3},
             p \in {<<>>, <<7>>, <<9, 7>>, <<7, 7>>, <<0, 0, 0>>},
             q \in {<<>>, H(0, 1) \o <<3>>, <<0, 0>>, H(0, 0), H(1, 2) \o <<9, 5>>, H(0, 3) \o <<1, 1, 1>>} }
         \cup {<<>>, <<0>>, <<0, 0, 0, 0>>, H(0, 255)}
Tails == {"none_req", "none_resp", "trailers_ok", "trailers_err", "body_err"}
InputsDef == { [wire |-> w, tail |-> t] : w \in Wires, t \in Tails }
\* the result history is an observation, not part of the mechanism's state; two states that differ
\* only in *how many* End results were appended behave alike, so bound it instead of hiding it
=============================================================================
