SPECIFICATION TSpec
CONSTANTS
  Conns = {1, 2}
  Calls = {1, 2, 3}
  ConnOf <- ConnOfDef
  Items <- ItemsDef
  WaitForConns = TRUE
  DrainGracefully = TRUE
  Aging = TRUE
CONSTRAINT Progress
INVARIANT MechInv
POSTCONDITION Accepted
CHECK_DEADLOCK FALSE
