------------------------------ MODULE Routing ------------------------------
(* Contract of request routing (C10): a request is dispatched to method M of service S iff S is
   registered and the request path is exactly "/" S "/" M; everything else is UNIMPLEMENTED and reaches
   no handler; registration order is irrelevant.  Names are byte strings.                           *)
EXTENDS Bytes
\* "long" = lab.routing.longnames.v1.ServiceWithAVeryLongName: with the long method names below its paths are 63, 64, 65, 128, 129 and 300 bytes long
SvcBytes == ("a.S" :> <<97, 46, 83>>) @@ ("a.S2" :> <<97, 46, 83, 50>>) @@ ("S" :> <<83>>) @@ ("a.b.S" :> <<97, 46, 98, 46, 83>>) @@ ("a.s" :> <<97, 46, 115>>)
            @@ ("long" :> <<108, 97, 98, 46, 114, 111, 117, 116, 105, 110, 103, 46, 108, 111, 110, 103, 110, 97, 109, 101, 115, 46, 118, 49, 46, 83, 101, 114, 118, 105, 99, 101, 87, 105, 116, 104, 65, 86, 101, 114, 121, 76, 111, 110, 103, 78, 97, 109, 101>>)
AllSvcs == DOMAIN SvcBytes
ShortMethods == {"M", "M2", "m"}
LongName(n) == [i \in 1..n |-> <<76, 111, 110, 103, 77, 101, 116, 104, 111, 100, 78, 97, 109, 101>>[((i - 1) % 14) + 1]]      \* "LongMethodName" repeated
MethBytes == ("M" :> <<77>>) @@ ("M2" :> <<77, 50>>) @@ ("m" :> <<109>>)
             @@ ("L63" :> LongName(12)) @@ ("L64" :> LongName(13)) @@ ("L65" :> LongName(14)) @@ ("L128" :> LongName(77)) @@ ("L129" :> LongName(78)) @@ ("L300" :> LongName(249))
Methods == DOMAIN MethBytes
MethodsOf(sv) == IF sv = "long" THEN Methods ELSE ShortMethods
Slash == <<47>>
PathOf(sv, me) == Slash \o SvcBytes[sv] \o Slash \o MethBytes[me]
\* the path component of a request target ends at the first '?' (RFC 3986 section 3)
PathComponent(t) == LET q == SelectInSeq(t, LAMBDA c : c = 63) IN IF q = 0 THEN t ELSE SubSeq(t, 1, q - 1)
\* Dispatch: the unique (service, method) whose exact path this is, if that service is registered
Target(target, reg) == { <<sv, me>> \in reg \X Methods : me \in MethodsOf(sv) /\ PathOf(sv, me) = PathComponent(target) }
DispatchOK(path, reg, handled) ==      \* handled: sequence of [svc, method] handler invocations observed
  IF Target(path, reg) = {} THEN handled = <<>>
  ELSE LET t == CHOOSE x \in Target(path, reg) : TRUE IN handled = << [svc |-> t[1], method |-> t[2]] >>
=============================================================================
