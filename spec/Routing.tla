------------------------------ MODULE Routing ------------------------------
(* Contract of request routing (C10): a request is dispatched to method M of service S iff S is
   registered and the request path is exactly "/" S "/" M; everything else is UNIMPLEMENTED and reaches
   no handler; registration order is irrelevant.  Names are byte strings.                           *)
EXTENDS Bytes
SvcBytes == ("a.S" :> <<97, 46, 83>>) @@ ("a.S2" :> <<97, 46, 83, 50>>) @@ ("S" :> <<83>>) @@ ("a.b.S" :> <<97, 46, 98, 46, 83>>) @@ ("a.s" :> <<97, 46, 115>>)
AllSvcs == DOMAIN SvcBytes
MethBytes == ("M" :> <<77>>) @@ ("M2" :> <<77, 50>>) @@ ("m" :> <<109>>)
Methods == DOMAIN MethBytes
Slash == <<47>>
PathOf(sv, me) == Slash \o SvcBytes[sv] \o Slash \o MethBytes[me]
\* the path component of a request target ends at the first '?' (RFC 3986 section 3)
PathComponent(t) == LET q == SelectInSeq(t, LAMBDA c : c = 63) IN IF q = 0 THEN t ELSE SubSeq(t, 1, q - 1)
\* Dispatch: the unique (service, method) whose exact path this is, if that service is registered
Target(target, reg) == { <<sv, me>> \in reg \X Methods : PathOf(sv, me) = PathComponent(target) }
DispatchOK(path, reg, handled) ==      \* handled: sequence of [svc, method] handler invocations observed
  IF Target(path, reg) = {} THEN handled = <<>>
  ELSE LET t == CHOOSE x \in Target(path, reg) : TRUE IN handled = << [svc |-> t[1], method |-> t[2]] >>
=============================================================================
