SPECIFICATION Spec
CONSTANTS
  Conns = {1, 2, 3}
  Calls = {1, 2, 3, 4}
  ConnOf <- ConnOfBig
  Items <- ItemsBig
  WaitForConns = TRUE
  Aging = TRUE
  DrainGracefully = TRUE
INVARIANTS ResolveLate NoLoss
PROPERTIES NoAcceptAfter AcceptedCompletes ResolveEventually EndResolves
CHECK_DEADLOCK FALSE
