------------------------------- MODULE Health -------------------------------
(* Mechanism model of tonic-health's reporter and Health service (C18): a map from service name to a
   tokio watch channel (value + version), watchers holding a receiver clone with the version they last
   saw (tonic-health/src/server.rs; tokio_stream::wrappers::WatchStream::new reads the value at its
   first poll).  Operations are atomic: each takes the RwLock for its whole critical section.
   Named deviation: SendOnExisting = FALSE makes set_service_status replace the channel pair instead of
   sending on it (watchers of the old pair are orphaned and see their stream end).                    *)
EXTENDS Naturals, Sequences, FiniteSets, TLC
CONSTANTS Svcs, Stats, MaxOps, MaxW, SendOnExisting
VARIABLES chan,      \* [Svcs -> channel id, 0 = not registered]
          val, ver, closed, nchan,   \* per channel id: current value, version, sender dropped
          watchers,  \* sequence of [svc, id, seen, first, ended, got]
          setlog, cleared, ops, checks   \* bookkeeping for the Contract: values ever set per service; ids closed by Clear; op count; check log
vars == <<chan, val, ver, closed, nchan, watchers, setlog, cleared, ops, checks>>
MaxChan == MaxOps + 2
Default == CHOOSE s \in Svcs : TRUE      \* the "" service of the model: registered SERVING from the start
Serving == CHOOSE v \in Stats : TRUE
Init == /\ chan = [s \in Svcs |-> IF s = Default THEN 1 ELSE 0] /\ val = [i \in 1..MaxChan |-> IF i = 1 THEN Serving ELSE "none"]
        /\ ver = [i \in 1..MaxChan |-> IF i = 1 THEN 1 ELSE 0] /\ closed = [i \in 1..MaxChan |-> FALSE] /\ nchan = 1
        /\ watchers = <<>> /\ setlog = [s \in Svcs |-> IF s = Default THEN {Serving} ELSE {}] /\ cleared = {} /\ ops = 0 /\ checks = <<>>
Op == ops < MaxOps /\ ops' = ops + 1
Set(s, v) == /\ Op /\ setlog' = [setlog EXCEPT ![s] = @ \cup {v}]
             /\ IF chan[s] # 0 /\ SendOnExisting
                THEN /\ val' = [val EXCEPT ![chan[s]] = v] /\ ver' = [ver EXCEPT ![chan[s]] = @ + 1] /\ UNCHANGED <<chan, nchan, closed>>
                ELSE /\ nchan' = nchan + 1 /\ chan' = [chan EXCEPT ![s] = nchan + 1]
                     /\ val' = [val EXCEPT ![nchan + 1] = v] /\ ver' = [ver EXCEPT ![nchan + 1] = 1]
                     /\ closed' = IF chan[s] # 0 THEN [closed EXCEPT ![chan[s]] = TRUE] ELSE closed
             /\ UNCHANGED <<watchers, cleared, checks>>
Clear(s) == /\ Op /\ chan[s] # 0
            /\ closed' = [closed EXCEPT ![chan[s]] = TRUE] /\ chan' = [chan EXCEPT ![s] = 0] /\ cleared' = cleared \cup {chan[s]}
            /\ UNCHANGED <<val, ver, nchan, watchers, setlog, checks>>
Check(s) == /\ Op /\ checks' = Append(checks, [svc |-> s, got |-> IF chan[s] = 0 THEN "not_found" ELSE val[chan[s]], want |-> IF chan[s] = 0 THEN "not_found" ELSE val[chan[s]]])
            /\ UNCHANGED <<chan, val, ver, closed, nchan, watchers, setlog, cleared>>
Watch(s) == /\ Len(watchers) < MaxW /\ chan[s] # 0
            /\ watchers' = Append(watchers, [svc |-> s, id |-> chan[s], seen |-> 0, ended |-> FALSE, got |-> <<>>, subVer |-> ver[chan[s]]])
            /\ UNCHANGED <<chan, val, ver, closed, nchan, setlog, cleared, ops, checks>>
\* one poll of the watch stream: first poll yields the current value; later polls the value if its version moved; End if closed
NextItem(w) == /\ w \in 1..Len(watchers) /\ ~watchers[w].ended
               /\ LET W == watchers[w] IN
                  IF W.seen < ver[W.id] THEN watchers' = [watchers EXCEPT ![w].seen = ver[W.id], ![w].got = Append(@, val[W.id])]
                  ELSE IF closed[W.id] THEN watchers' = [watchers EXCEPT ![w].ended = TRUE]
                  ELSE FALSE
               /\ UNCHANGED <<chan, val, ver, closed, nchan, setlog, cleared, ops, checks>>
Next == \/ \E s \in Svcs, v \in Stats : Set(s, v)
        \/ \E s \in Svcs : Clear(s) \/ Watch(s) \/ Check(s)
        \/ \E w \in 1..MaxW : NextItem(w)
Spec == Init /\ [][Next]_vars /\ \A w \in 1..MaxW : WF_vars(NextItem(w))

(* ------------------------------------------------------------------ Contract *)
OnlySetValues == \A w \in 1..Len(watchers) : \A i \in 1..Len(watchers[w].got) : watchers[w].got[i] \in setlog[watchers[w].svc]
EndsOnlyAfterClear == \A w \in 1..Len(watchers) : watchers[w].ended => watchers[w].id \in cleared
Current(s) == IF chan[s] = 0 THEN "none" ELSE val[chan[s]]
\* once updates stop, every watcher of a still-registered service has reported the latest status; a cleared one has ended
Caught(w) == w > Len(watchers) \/ LET W == watchers[w] IN IF W.id \in cleared THEN W.ended ELSE (Len(W.got) > 0 /\ W.got[Len(W.got)] = Current(W.svc))
CatchUp == \A w \in 1..MaxW : (ops = MaxOps /\ w <= Len(watchers)) ~> Caught(w)
=============================================================================
