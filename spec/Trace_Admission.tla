--------------------------- MODULE Trace_Admission ---------------------------
(* Trace validation for the admission lab: what can be observed of a server with a per-connection concurrency limit after every
   step of an environment schedule (a behaviour of Admission.tla exported by Gen_Admission) must satisfy the safety properties of
   the model, restated over observations.  The C09.* clauses are the deadline sentence of C09 on this dimension (a call waiting
   for a permit is still a call); the ADM.* clauses belong to no listed property and are reported as notes by the driver. *)
EXTENDS Naturals, Sequences, FiniteSets, TraceKit
Fresh(stim) == [stim |-> stim, now |-> 0, sentAt |-> <<>>, startAt |-> <<>>, order |-> <<>>, prevRunning |-> {}, prevOk |-> {}, prevCut |-> {}]
Keys == {"runs", "steps", "with_server_timeout", "cut_by_server_timeout", "waited", "cut_while_waiting", "cut_while_running", "two_connections"}
Init == InitK(Fresh([limit |-> 0, srv |-> 0, calls |-> <<>>, steps |-> <<>>]), Keys)
SetOf(q) == { q[i] : i \in 1..Len(q) }
Pos(q, x) == CHOOSE i \in 1..Len(q) : q[i] = x
Reset == ResetK([Fresh(E.stim) EXCEPT !.sentAt = [k \in 1..Len(E.stim.calls) |-> 0 - 1], !.startAt = [k \in 1..Len(E.stim.calls) |-> 0 - 1]])
         /\ Count({"runs"} \cup (IF E.stim.srv > 0 THEN {"with_server_timeout"} ELSE {}) \cup (IF \E i, j \in 1..Len(E.stim.calls) : E.stim.calls[i].c # E.stim.calls[j].c THEN {"two_connections"} ELSE {}))
Handler == /\ l <= Len(Rec) /\ ~dead /\ E.e \in {"srv_req", "srv_done", "srv_drop"} /\ l' = l + 1 /\ UNCHANGED <<run, dead, bad, s, stats>>
Obs == /\ Live("obs")
       /\ LET calls == s.stim.calls
              K == 1..Len(calls)
              now1 == IF E.op = "tick" THEN s.now + 1 ELSE s.now
              sent1 == IF E.op = "send" THEN [s.sentAt EXCEPT ![E.k] = s.now] ELSE s.sentAt
              order1 == IF E.op = "send" THEN Append(s.order, E.k) ELSE s.order
              running == SetOf(E.running)  ok == SetOf(E.ok)  cut == SetOf(E.cut)  started == SetOf(E.started)
              Sent == { k \in K : sent1[k] >= 0 }
              Due(k) == calls[k].tmo > 0 /\ now1 - sent1[k] >= calls[k].tmo
              \* the tick at which each handler was first seen running = its admission
              start1 == [k \in K |-> IF s.startAt[k] < 0 /\ k \in started THEN now1 ELSE s.startAt[k]]
              \* Server::timeout (stim.srv ticks, 0 = none) bounds the handler from its admission, not the wait before it
              SrvDue(k) == s.stim.srv > 0 /\ start1[k] >= 0 /\ now1 - start1[k] >= s.stim.srv
              Conns == { calls[k].c : k \in K }
              On(S, c) == { k \in S : calls[k].c = c }
              Waiting(c) == { k \in On(Sent, c) : k \notin started /\ k \notin ok \cup cut }
          IN /\ JudgeK(<< <<"ADM.AtMostLimit", \A c \in Conns : Cardinality(On(running, c)) <= s.stim.limit>>,
                          <<"ADM.WorkConserving", \A c \in Conns : Waiting(c) # {} => Cardinality(On(running, c)) = s.stim.limit>>,
                          <<"ADM.Fifo", \A i, j \in 1..Len(E.started) : (i < j /\ calls[E.started[i]].c = calls[E.started[j]].c)
                                                                         => Pos(order1, E.started[i]) < Pos(order1, E.started[j])>>,
                          <<"ADM.OnlyForCallsMade", started \subseteq Sent /\ ok \cup cut \subseteq Sent>>,
                          <<"ADM.NoHandlerOutlivesItsCall", running \cap (ok \cup cut) = {}>>,
                          <<"ADM.ReleasedCallSucceeds", (E.op = "release" /\ E.k \in s.prevRunning) => E.k \in ok>>,
                          <<"ADM.OutcomesAreFinal", s.prevOk \subseteq ok /\ s.prevCut \subseteq cut /\ ok \cap cut = {}>>,
                          <<"ADM.OnlyOkOrCut", E.other = <<>> >>,
                          <<"C09.CutOffOnTimeEvenWhileWaiting", \A k \in Sent : Due(k) => k \in ok \cup cut>>,
                          <<"C09.ServerTimeoutBoundsTheHandler", \A k \in Sent : SrvDue(k) => k \in ok \cup cut>>,
                          <<"C09.UnaffectedBeforeDeadline", \A k \in cut : Due(k) \/ SrvDue(k)>> >>,
                       [s EXCEPT !.now = now1, !.sentAt = sent1, !.startAt = start1, !.order = order1, !.prevRunning = running, !.prevOk = ok, !.prevCut = cut])
             /\ Count({"steps"} \cup (IF \E c \in Conns : Waiting(c) # {} THEN {"waited"} ELSE {})
                      \cup (IF \E k \in cut \ s.prevCut : k \notin started THEN {"cut_while_waiting"} ELSE {})
                      \cup (IF \E k \in cut \ s.prevCut : k \in started THEN {"cut_while_running"} ELSE {})
                      \cup (IF \E k \in cut \ s.prevCut : ~Due(k) THEN {"cut_by_server_timeout"} ELSE {}))
End == EndK(<<>>)
Known == {"reset", "srv_req", "srv_done", "srv_drop", "obs", "end", "client_connect_err"}
Next == Reset \/ Handler \/ Obs \/ End \/ UnknownK(Known) \/ DeadSkipK
Spec == Init /\ [][Next]_kvars
=============================================================================
