---------------------------- MODULE MC_Admission ----------------------------
(* Model checking of Admission, exhaustive within the constants of the cfg: MC_Admission.cfg (Limit 2), MC_Admission_l1.cfg (Limit 1),
   and the must-violate MC_Admission_srvtimer.cfg (deviation TimerFromAdmission: CutOnTime fails - a waiting call outlives its deadline). *)
EXTENDS Admission
=============================================================================
