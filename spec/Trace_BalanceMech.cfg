SPECIFICATION TSpec
CONSTANTS
  Keys = {"k1", "k2"}
  Srvs = {"a", "b"}
  None = "-"
  MaxSteps = 1000
  DrainAll = TRUE
  PromoteAll = TRUE
CONSTRAINT Progress
INVARIANT MechInv
POSTCONDITION Accepted
CHECK_DEADLOCK FALSE
