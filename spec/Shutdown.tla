------------------------------ MODULE Shutdown ------------------------------
(* Mechanism model of tonic's server accept loop with graceful shutdown (C13):
   Server::serve_with_incoming_shutdown -> serve_internal's select! loop (signal | incoming.next()),
   serve_connection's per-connection task (conn | signal_rx.changed() -> graceful_shutdown), the
   watch channel whose receiver count signal_tx.closed() waits for
   (tonic/src/transport/server/mod.rs).

   Environment actions are the stimuli the harness can inject: Offer(c) a connection, Send(k) a call,
   Fire the signal, Release(k) one step of a gated handler, ClientDrop(c), EndIncoming (the incoming stream
   ends), Age(c) (max_connection_age elapses for connection c; only when Aging).
   The hook events of feature verif-hooks name the system actions one to one (Trace_ShutdownMech):
     accepted -> Accept, signal_observed -> Observe, incoming_ended -> ObserveEnd, broadcast -> Broadcast,
     all_closed -> Resolve, conn_saw_signal -> SeeSignal, conn_aged -> Age, conn_closed -> Close / DeadClose.
   Named deviations: WaitForConns = FALSE drops `signal_tx.closed().await`; DrainGracefully = FALSE
   replaces graceful_shutdown by dropping the connection.                                          *)
EXTENDS Naturals, FiniteSets, TLC
CONSTANTS Conns, Calls, ConnOf, Items,     \* ConnOf: Calls -> Conns; Items[k]: handler steps before the call completes
          WaitForConns, DrainGracefully,
          Aging                            \* the server is configured with max_connection_age
VARIABLES sig,      \* "idle" | "fired" | "observed"  (observed = the select! loop has broken out)
          conn,     \* [Conns -> {"none", "offered", "open", "draining", "closed"}]
          call,     \* [Calls -> [ph : {"unsent", "sent", "accepted", "done", "failed"}, left : Nat]]
          bcast,    \* signal_tx.send(()) done
          resolved, \* the serve future has returned
          dropped,  \* history: connections whose client went away (ClientDrop)
          ended     \* the incoming stream has no further connections to offer (its sender is gone)
vars == <<sig, conn, call, bcast, resolved, dropped, ended>>

Init == /\ sig = "idle" /\ conn = [c \in Conns |-> "none"]
        /\ call = [k \in Calls |-> [ph |-> "unsent", left |-> Items[k], acc |-> FALSE]] /\ bcast = FALSE /\ resolved = FALSE
        /\ dropped = {} /\ ended = FALSE
InFlight(c) == { k \in Calls : ConnOf[k] = c /\ call[k].ph \in {"sent", "accepted"} }

\* ---- environment (stimuli)
Offer(c) == ~ended /\ conn[c] = "none" /\ conn' = [conn EXCEPT ![c] = "offered"] /\ UNCHANGED <<sig, call, bcast, resolved, dropped, ended>>
Fire == sig = "idle" /\ sig' = "fired" /\ UNCHANGED <<conn, call, bcast, resolved, dropped, ended>>
\* the client side of a connection is usable as soon as it was offered: the request then waits in the transport
Send(k) == /\ call[k].ph = "unsent" /\ conn[ConnOf[k]] \in {"offered", "open", "draining"} /\ ConnOf[k] \notin dropped
           /\ call' = [call EXCEPT ![k].ph = "sent"] /\ UNCHANGED <<sig, conn, bcast, resolved, dropped, ended>>
Release(k) == /\ call[k].ph = "accepted" /\ conn[ConnOf[k]] # "closed"
              /\ call' = [call EXCEPT ![k] = IF @.left = 0 THEN [ph |-> "done", left |-> 0, acc |-> TRUE] ELSE [@ EXCEPT !.left = @ - 1]]
              /\ UNCHANGED <<sig, conn, bcast, resolved, dropped, ended>>
ClientDrop(c) == /\ conn[c] \in {"offered", "open", "draining"} /\ c \notin dropped
                 /\ conn' = [conn EXCEPT ![c] = IF @ = "offered" THEN @ ELSE "closed"] /\ dropped' = dropped \cup {c}
                 /\ call' = [k \in Calls |-> IF ConnOf[k] = c /\ call[k].ph \in {"sent", "accepted"} THEN [call[k] EXCEPT !.ph = "failed"] ELSE call[k]]
                 /\ UNCHANGED <<sig, bcast, resolved, ended>>
EndIncoming == ~ended /\ ended' = TRUE /\ UNCHANGED <<sig, conn, call, bcast, resolved, dropped>>
\* max_connection_age elapsed: the connection task calls graceful_shutdown on its own
Age(c) == /\ Aging /\ conn[c] = "open"
          /\ conn' = [conn EXCEPT ![c] = "draining"] /\ UNCHANGED <<sig, call, bcast, resolved, dropped, ended>>
\* ---- serve_internal's loop
Accept(c) == /\ sig # "observed" /\ conn[c] = "offered"              \* incoming.next() arm; races with Observe when both are ready
             /\ conn' = [conn EXCEPT ![c] = "open"] /\ UNCHANGED <<sig, call, bcast, resolved, dropped, ended>>
Observe == sig = "fired" /\ sig' = "observed" /\ UNCHANGED <<conn, call, bcast, resolved, dropped, ended>>      \* signal arm: break
\* incoming.next() = None: break, exactly like the signal arm
ObserveEnd == /\ ended /\ sig # "observed" /\ \A c \in Conns : conn[c] # "offered"
              /\ sig' = "observed" /\ UNCHANGED <<conn, call, bcast, resolved, dropped, ended>>
Broadcast == sig = "observed" /\ ~bcast /\ bcast' = TRUE /\ UNCHANGED <<sig, conn, call, resolved, dropped, ended>>
Resolve == /\ bcast /\ ~resolved
           /\ (~WaitForConns \/ \A c \in Conns : conn[c] \in {"none", "offered", "closed"})      \* signal_tx.closed(): no receiver left
           /\ resolved' = TRUE /\ UNCHANGED <<sig, conn, call, bcast, dropped, ended>>
\* ---- serve_connection's task
SeeSignal(c) == /\ bcast /\ conn[c] = "open"
                /\ IF DrainGracefully THEN conn' = [conn EXCEPT ![c] = "draining"] /\ UNCHANGED call
                   ELSE /\ conn' = [conn EXCEPT ![c] = "closed"]
                        /\ call' = [k \in Calls |-> IF ConnOf[k] = c /\ call[k].ph \in {"sent", "accepted"} THEN [call[k] EXCEPT !.ph = "failed"] ELSE call[k]]
                /\ UNCHANGED <<sig, bcast, resolved, dropped, ended>>
ServerAccept(k) == /\ call[k].ph = "sent" /\ conn[ConnOf[k]] = "open"
                   /\ call' = [call EXCEPT ![k].ph = "accepted", ![k].acc = TRUE] /\ UNCHANGED <<sig, conn, bcast, resolved, dropped, ended>>
\* a stream that arrives on a draining connection: h2 may still admit it (it raced the GOAWAY) or refuse it
LateStream(k) == /\ call[k].ph = "sent" /\ conn[ConnOf[k]] = "draining"
                 /\ \/ call' = [call EXCEPT ![k].ph = "accepted", ![k].acc = TRUE]
                    \/ call' = [call EXCEPT ![k].ph = "failed"]
                 /\ UNCHANGED <<sig, conn, bcast, resolved, dropped, ended>>
Close(c) == /\ conn[c] = "draining" /\ InFlight(c) = {}
            /\ conn' = [conn EXCEPT ![c] = "closed"] /\ UNCHANGED <<sig, call, bcast, resolved, dropped, ended>>
\* a connection whose client had gone before it was accepted: the handshake fails and the task ends
DeadClose(c) == /\ conn[c] = "open" /\ c \in dropped
                /\ conn' = [conn EXCEPT ![c] = "closed"] /\ UNCHANGED <<sig, call, bcast, resolved, dropped, ended>>
\* after the serve future resolved the process may exit: detached connection tasks die with it
Teardown(c) == /\ resolved /\ conn[c] \in {"open", "draining"}
               /\ conn' = [conn EXCEPT ![c] = "closed"]
               /\ call' = [k \in Calls |-> IF ConnOf[k] = c /\ call[k].ph \in {"sent", "accepted"} THEN [call[k] EXCEPT !.ph = "failed"] ELSE call[k]]
               /\ UNCHANGED <<sig, bcast, resolved, dropped, ended>>
\* the incoming stream is dropped with the resolved serve future: connections it had queued but never handed out are closed
Abandon(c) == /\ resolved /\ conn[c] = "offered"
              /\ conn' = [conn EXCEPT ![c] = "closed"]
              /\ call' = [k \in Calls |-> IF ConnOf[k] = c /\ call[k].ph = "sent" THEN [call[k] EXCEPT !.ph = "failed"] ELSE call[k]]
              /\ UNCHANGED <<sig, bcast, resolved, dropped, ended>>
Env == (\E c \in Conns : Offer(c) \/ ClientDrop(c) \/ Age(c)) \/ (\E k \in Calls : Send(k) \/ Release(k)) \/ Fire \/ EndIncoming
Sys == (\E c \in Conns : Accept(c) \/ SeeSignal(c) \/ Close(c) \/ DeadClose(c) \/ Teardown(c) \/ Abandon(c)) \/ (\E k \in Calls : ServerAccept(k) \/ LateStream(k))
       \/ Observe \/ ObserveEnd \/ Broadcast \/ Resolve
Next == Env \/ Sys
Fairness == /\ \A c \in Conns : WF_vars(SeeSignal(c)) /\ WF_vars(Close(c)) /\ WF_vars(DeadClose(c)) /\ WF_vars(Accept(c))
            /\ \A k \in Calls : WF_vars(Release(k)) /\ WF_vars(ServerAccept(k)) /\ WF_vars(LateStream(k))
            /\ WF_vars(Observe) /\ WF_vars(ObserveEnd) /\ WF_vars(Broadcast) /\ WF_vars(Resolve)
Spec == Init /\ [][Next]_vars /\ Fairness

(* ------------------------------------------------------------------ Contract (C13) *)
\* every call the server had accepted runs to completion: it fails only if its own client went away
NoLoss == \A k \in Calls : (call[k].ph = "failed" /\ call[k].acc) => ConnOf[k] \in dropped
NoAcceptAfter == [][\A c \in Conns : (sig = "observed" /\ conn[c] = "offered") => conn'[c] # "open"]_vars
ResolveLate == resolved => \A c \in Conns : conn[c] \in {"none", "offered", "closed"}
AcceptedCompletes == \A k \in Calls : (call[k].ph = "accepted") ~> (call[k].ph \in {"done", "failed"})
ResolveEventually == (sig = "fired") ~> resolved
EndResolves == ended ~> resolved
=============================================================================
