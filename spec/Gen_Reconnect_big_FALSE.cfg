SPECIFICATION Spec
CONSTANTS
  Scripts <- ScriptsBig
  Lazy = FALSE
  MaxCalls = 7
  TakeError = TRUE
  SetConnected = TRUE
INVARIANTS Contract EagerOK Export
CHECK_DEADLOCK FALSE
