SPECIFICATION TSpec
CONSTANTS
  Scripts = {}
  Lazy = FALSE
  MaxCalls = 8
  TakeError = TRUE
  SetConnected = TRUE
CONSTRAINT Progress
INVARIANT MechInv
POSTCONDITION Accepted
CHECK_DEADLOCK FALSE
