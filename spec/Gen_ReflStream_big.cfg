SPECIFICATION GSpec
CONSTANTS
  Sessions <- S4
  BlockingSend = TRUE
INVARIANT Export
CHECK_DEADLOCK FALSE
