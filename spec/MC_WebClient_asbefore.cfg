SPECIFICATION Spec
CONSTANTS
  Bodies <- BodiesDef
  MaxChunk = 4
  WholeTrailers = FALSE
  ErrOnLeftover = FALSE
INVARIANT Contract
PROPERTY Terminates
CHECK_DEADLOCK FALSE
