SPECIFICATION Spec
INVARIANT AtEnd
POSTCONDITION Post
CHECK_DEADLOCK FALSE
