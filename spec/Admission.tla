----------------------------- MODULE Admission -----------------------------
(* Mechanism model of per-connection admission control in tonic's server (growth beyond the listed properties):
     Server::concurrency_limit_per_connection(Limit) wraps every connection's service in a tower ConcurrencyLimit whose
     permits are a FIFO semaphore; hyper hands each request to a clone of that service, so requests beyond the limit wait,
     in arrival order, for a permit; GrpcTimeout sits INSIDE the limit (its timer starts at admission) while the caller's
     own timer (tonic's client enforces the grpc-timeout it sends) runs from the moment the call is made; a caller that
     gives up resets its stream, which removes the request from the wait queue or drops its running handler.
   One action per observable step of the environment: a call is made, a running handler is allowed to finish, time
   advances by one tick.  Admission itself is not a separate step: it happens as soon as a permit is free (the driver
   observes the system only when it is quiescent), so every action ends with `Fill`.
   Time is in ticks; tmo[k] = 0 means no deadline. *)
EXTENDS Naturals, Sequences, FiniteSets
CONSTANTS Calls,          \* call ids
          Conns,          \* connection ids
          Limit,          \* permits per connection
          Tmos,           \* possible deadlines in ticks (0 = none)
          SrvTmos,        \* possible values of Server::timeout in ticks (0 = not configured)
          MaxTime,
          TimerFromAdmission   \* deviation switch: TRUE = only the server's timer exists (a caller that does not enforce its own deadline)
VARIABLES conn, tmo,      \* per call: its connection and deadline (fixed at Init)
          srvTmo,         \* Server::timeout (fixed at Init): like the server's reading of grpc-timeout, its clock starts at admission
          st,             \* per call: "unsent" | "queued" | "running" | "ok" | "cut"
          q,              \* per connection: calls waiting for a permit, oldest first
          now, sentAt, admAt
vars == <<conn, tmo, srvTmo, st, q, now, sentAt, admAt>>

Running(c) == { k \in Calls : st[k] = "running" /\ conn[k] = c }
RECURSIVE FillOne(_, _, _, _)
\* admits from queue qq of connection c while permits are free; returns [st, q, adm]
FillOne(c, s, qq, adm) ==
  IF qq = <<>> \/ Cardinality({ k \in Calls : s[k] = "running" /\ conn[k] = c }) >= Limit THEN [st |-> s, q |-> qq, adm |-> adm]
  ELSE FillOne(c, [s EXCEPT ![Head(qq)] = "running"], Tail(qq), [adm EXCEPT ![Head(qq)] = now'])
RECURSIVE FillAll(_, _, _, _)
FillAll(cs, s, qs, adm) ==
  IF cs = {} THEN [st |-> s, q |-> qs, adm |-> adm]
  ELSE LET c == CHOOSE x \in cs : TRUE  r == FillOne(c, s, qs[c], adm) IN FillAll(cs \ {c}, r.st, [qs EXCEPT ![c] = r.q], r.adm)
\* common tail of every action: given the state after the environment's step, admit whoever can be admitted
Fill(s, qs) == LET r == FillAll(Conns, s, qs, admAt) IN st' = r.st /\ q' = r.q /\ admAt' = r.adm

Init == /\ conn \in [Calls -> Conns] /\ tmo \in [Calls -> Tmos] /\ srvTmo \in SrvTmos
        /\ st = [k \in Calls |-> "unsent"] /\ q = [c \in Conns |-> <<>>]
        /\ now = 0 /\ sentAt = [k \in Calls |-> 0] /\ admAt = [k \in Calls |-> 0]

Send(k) == /\ st[k] = "unsent" /\ now' = now
           /\ sentAt' = [sentAt EXCEPT ![k] = now]
           /\ Fill([st EXCEPT ![k] = "queued"], [q EXCEPT ![conn[k]] = Append(@, k)])
           /\ UNCHANGED <<conn, tmo, srvTmo>>
\* the handler of a running call is allowed to complete: the caller gets its answer, the permit goes to the oldest waiter
Release(k) == /\ st[k] = "running" /\ now' = now
              /\ Fill([st EXCEPT ![k] = "ok"], q)
              /\ UNCHANGED <<conn, tmo, srvTmo, sentAt>>
\* the shorter of the two deadlines the server enforces for a call, from its admission (0 = none)
SrvEff(k) == IF tmo[k] = 0 THEN srvTmo ELSE IF srvTmo = 0 THEN tmo[k] ELSE IF tmo[k] < srvTmo THEN tmo[k] ELSE srvTmo
Expired(k, t) == /\ st[k] \in {"queued", "running"}
                 /\ \/ (~TimerFromAdmission /\ tmo[k] > 0 /\ t - sentAt[k] >= tmo[k])                \* the caller's own timer
                    \/ (st[k] = "running" /\ SrvEff(k) > 0 /\ t - admAt[k] >= SrvEff(k))           \* the server's timer
Tick == /\ now < MaxTime /\ now' = now + 1
        /\ LET gone == { k \in Calls : Expired(k, now + 1) }
               s1 == [k \in Calls |-> IF k \in gone THEN "cut" ELSE st[k]]
               q1 == [c \in Conns |-> SelectSeq(q[c], LAMBDA k : k \notin gone)]
           IN Fill(s1, q1)
        /\ UNCHANGED <<conn, tmo, srvTmo, sentAt>>
Next == (\E k \in Calls : Send(k) \/ Release(k)) \/ Tick
Spec == Init /\ [][Next]_vars /\ WF_vars(\E k \in Calls : Send(k)) /\ WF_vars(\E k \in Calls : Release(k))

TypeOK == /\ st \in [Calls -> {"unsent", "queued", "running", "ok", "cut"}] /\ now \in 0..MaxTime
AtMostLimit == \A c \in Conns : Cardinality(Running(c)) <= Limit
\* no permit idles while somebody waits for it
WorkConserving == \A c \in Conns : q[c] # <<>> => Cardinality(Running(c)) = Limit
QueueIsTheWaiting == \A c \in Conns : /\ { q[c][i] : i \in 1..Len(q[c]) } = { k \in Calls : st[k] = "queued" /\ conn[k] = c }
                                      /\ \A i, j \in 1..Len(q[c]) : i # j => q[c][i] # q[c][j]
\* admission in arrival order: nobody who arrived later on the same connection runs (or ran) while an earlier one still waits
Fifo == \A c \in Conns : \A i \in 1..Len(q[c]) : \A k \in Calls :
          (conn[k] = c /\ st[k] \in {"running", "ok"} /\ sentAt[k] > sentAt[q[c][i]]) => FALSE
\* the caller's view of a deadline: whatever the server is doing with the call - running it or making it wait for a permit -
\* it does not outlive its deadline (this is what the TimerFromAdmission deviation breaks)
CutOnTime == \A k \in Calls : (tmo[k] > 0 /\ st[k] \in {"queued", "running"}) => now - sentAt[k] < tmo[k]
\* calls on one connection never wait for permits of another
Independent == \A c \in Conns : (Cardinality(Running(c)) < Limit) => q[c] = <<>>
\* the server's own timeout bounds the time a handler runs, not the time its request waits
ServerTimerFromAdmission == \A k \in Calls : (st[k] = "running" /\ srvTmo > 0) => now - admAt[k] < srvTmo
Done == \A k \in Calls : st[k] \in {"ok", "cut"}
EveryCallEnds == <>Done
=============================================================================
