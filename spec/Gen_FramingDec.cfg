SPECIFICATION GSpec
CONSTANTS
  Inputs <- InputsDef
  Limit = 2
  HasEnc = FALSE
  MaxChunk = 3
  MaxPolls = 6
  MaxEmpty = 1
  EmptyIsData = TRUE
  Latch = TRUE
CONSTRAINT GBound
INVARIANT Export
CHECK_DEADLOCK FALSE
