SPECIFICATION Spec
CONSTANTS
  Scripts <- ScriptsDef
  Role = "server"
  Limit = 5
  Yield = 12
  MaxPolls = 14
  KeepBatch = TRUE
  StopAfterStatus = TRUE
CONSTRAINT GBound
INVARIANT Export
CHECK_DEADLOCK FALSE
