---------------------------- MODULE Trace_Codegen ----------------------------
EXTENDS Codegen, TraceKit
Fresh(stim) == [stim |-> stim, seen |-> FALSE]
Keys == {"runs", "generated_at_runtime", "committed_files", "keyword_methods", "no_package", "nested_package", "package_emission_disabled"}
Init == InitK(Fresh([package |-> ""]), Keys)
Reset == ResetK(Fresh(E.stim)) /\ Count({"runs", IF "file" \in DOMAIN E.stim THEN "committed_files" ELSE "generated_at_runtime"}
            \cup (IF \E i \in 1..Len(E.stim.methods) : E.stim.methods[i].name \in {"r#type", "self_"} THEN {"keyword_methods"} ELSE {})
            \cup (IF E.stim.package = "" THEN {"no_package"} ELSE {}) \cup (IF E.stim.package = "p.q" THEN {"nested_package"} ELSE {})
            \cup (IF ~E.stim.opts.emit_package THEN {"package_emission_disabled"} ELSE {}))
Generated == /\ Live("generated") /\ UNCHANGED stats /\ JudgeK(Clauses(s.stim, E.facts), [s EXCEPT !.seen = TRUE])
End == EndK(<< <<"RunComplete", E.outcome = "ok" => s.seen>> >>)
Known == {"reset", "generated", "end"}
Next == Reset \/ Generated \/ End \/ UnknownK(Known) \/ DeadSkipK
Spec == Init /\ [][Next]_kvars
=============================================================================
