--------------------------- MODULE Trace_Reconnect ---------------------------
(* Trace validation for the reconnect lab (C14), at Contract level: the monitor only tracks whether a usable
   connection exists (alive), from what the calls themselves showed and from the scripted drops.
     connect(res, consumed)                      eager channels only
     call(res, code, consumed, killed_before)    consumed = connector results handed out during this call *)
EXTENDS Naturals, Sequences, FiniteSets, TLC, TraceKit
Last(q) == q[Len(q)]
Fresh(stim) == [stim |-> stim, alive |-> FALSE, connected |-> FALSE, ncalls |-> 0, slack |-> 0]
Keys == {"runs", "lazy", "eager", "calls_ok", "calls_unavailable", "reconnects", "drops", "eager_failures"}
Init == InitK(Fresh([lazy |-> TRUE]), Keys)
Reset == ResetK(Fresh(E.stim)) /\ Count({"runs", IF E.stim.lazy THEN "lazy" ELSE "eager"})
FirstIsS(script) == script # <<>> /\ script[1] = "S"
Connect == /\ Live("connect")
           /\ JudgeK(<< <<"C14.EagerFailureReportedImmediately", (~s.stim.lazy) => ((E.res = "err") <=> ~FirstIsS(s.stim.script))>>,
                        <<"C14.LazyConnectNeverFails", s.stim.lazy => (E.res = "ok" /\ E.consumed = <<>>)>> >>,
                     [s EXCEPT !.connected = (E.res = "ok"), !.alive = (E.consumed # <<>> /\ Last(E.consumed) = "S")])
           /\ Count(IF E.res = "err" THEN {"eager_failures"} ELSE {})
\* The harness waits for quiescence after every scripted drop (the client's connection task has seen the end of its
\* transport before the next call is issued), so a call after a drop must find the connection gone and re-dial.
Call == /\ Live("call")
        /\ LET aliveNow == s.alive /\ E.killed_before = 0
               usable == (E.consumed = <<>> /\ aliveNow) \/ (E.consumed # <<>> /\ Last(E.consumed) = "S")
               charged == \E i \in 1..Len(E.consumed) : E.consumed[i] = "F"
               \* a call whose deadline had expired before it was issued (grpc-timeout 0) may be cut off with CANCELLED instead of being
               \* answered; it still went through the channel, so what it leaves behind is what an answered call would have left
               cutOff == Has(E, "zero") /\ E.zero /\ E.res = "err" /\ E.code = 1 IN
           /\ JudgeK(<< <<"C14.EveryCallCompletes", E.res # "hang">>,
                        <<"C14.SucceedsWhenPeerReachable", usable => (E.res = "ok" \/ cutOff)>>,
                        <<"C14.FailureOnlyToTriggeringCall", (E.res = "err" /\ ~cutOff) => charged>>,
                        <<"C14.UnavailableWhileNoConnection", (E.res = "err" /\ ~cutOff /\ charged /\ ~usable) => E.code = 14>>,
                        <<"C14.NoSuccessWithoutConnection", E.res = "ok" => usable>>,
                        <<"HarnessOK", s.connected>> >>,
                     [s EXCEPT !.alive = IF cutOff THEN usable ELSE (E.res = "ok"), !.ncalls = @ + 1])
           /\ Count((IF E.res = "ok" THEN {"calls_ok"} ELSE {"calls_unavailable"}) \cup (IF E.killed_before > 0 THEN {"drops"} ELSE {})
                    \cup (IF E.consumed # <<>> /\ s.ncalls > 0 THEN {"reconnects"} ELSE {}))
Ignore == /\ l <= Len(Rec) /\ ~dead /\ E.e \in {"srv_req", "summary", "hook", "connector", "kill", "issue"} /\ l' = l + 1 /\ UNCHANGED <<run, dead, bad, s, stats>>
End == EndK(<< <<"RunComplete", E.outcome = "ok" => (s.connected => s.ncalls = s.stim.calls)>> >>)
Known == {"reset", "connect", "call", "srv_req", "summary", "hook", "connector", "kill", "issue", "end"}
Next == Reset \/ Connect \/ Call \/ Ignore \/ End \/ UnknownK(Known) \/ DeadSkipK
Spec == Init /\ [][Next]_kvars
=============================================================================
