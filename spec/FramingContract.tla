--------------------------- MODULE FramingContract ---------------------------
(* Contract level of the message framing layer (properties C01, C03 body part, C06, C07,
   and the frame-flag clauses of C05).  Pure operators only: the Mechanism models
   (FramingEnc, FramingDec) are checked against them by TLC, and Trace_Framing
   evaluates the very same operators on executions recorded from the real
   EncodeBody / Streaming.

   Encoder side.  A *source* is a script of items: messages (given by their serialisation
   `ser`), messages the codec refuses to encode ("encfail", `ser` = what it wrote before failing),
   Pending markers, at most one terminal error.  `cfg` = [role, comp (TRUE iff frames
   are to be flagged compressed), limit].
   Decoder side.  The input is seen through a *view*: the longest run of acceptable frames
   of the delivered bytes, followed by at most one entry that says why parsing stops.      *)
EXTENDS Bytes

DefaultLimit == 4194304          \* 4 MiB, both directions
OK == 0  INTERNAL == 13  OUT_OF_RANGE == 11  RESOURCE_EXHAUSTED == 8

(* ------------------------------------------------------------------ encoder *)
IsMsg(it) == it.k = "msg"
MsgItems(items) == SelectSeq(items, LAMBDA it : it.k # "pend")      \* messages and errors, in order
\* index (in MsgItems) of the first item that ends the call: a source error, or an oversize message
\* the length the encoding limit is compared with is the on-the-wire payload length: the serialisation itself, or - when the
\* frame is compressed, which this specification does not compute - the length `wl` the stimulus states for it (a bound that
\* decides the comparison: incompressible data cannot shrink, a run of zeros shrinks below any limit used)
WireLen(it) == IF "wl" \in DOMAIN it THEN it.wl ELSE Len(it.ser)
\* it.k = "huge": a message of more than 4 GiB (never materialised; `over` = it also exceeds the configured limit): it cannot be framed
FirstStop(mi, limit) == SelectInSeq(mi, LAMBDA it : it.k \in {"err", "encfail", "huge"} \/ (it.k = "msg" /\ WireLen(it) > limit))
Good(items, limit) == LET mi == MsgItems(items) f == FirstStop(mi, limit)
                      IN IF f = 0 THEN mi ELSE SubSeq(mi, 1, f - 1)
\* final status code of the stream
Final(items, limit) == LET mi == MsgItems(items) f == FirstStop(mi, limit)
                       IN IF f = 0 THEN OK ELSE IF mi[f].k = "err" THEN mi[f].code
                          ELSE IF mi[f].k = "encfail" THEN INTERNAL
                          ELSE IF mi[f].k = "huge" /\ ~mi[f].over THEN RESOURCE_EXHAUSTED ELSE OUT_OF_RANGE
\* a message that is both over the configured limit and beyond 4 GiB: the statement names a code for each, either is accepted
FinalSet(items, limit) == LET mi == MsgItems(items) f == FirstStop(mi, limit)
                          IN IF f # 0 /\ mi[f].k = "huge" /\ mi[f].over THEN {OUT_OF_RANGE, RESOURCE_EXHAUSTED} ELSE {Final(items, limit)}
\* identity wire of a sequence of message items
WireOf(good, flag) == Concat([i \in 1..Len(good) |-> Frame(flag, good[i].ser)])

\* Encoder monitor state: [emitted, tr (trailers seen), err (body error seen), none (end seen)]
EncInit == [emitted |-> <<>>, tr |-> 0, err |-> 0, none |-> 0, final |-> -1]

\* Clauses for one poll result `r` of the body, as <<name, holds>> pairs.
\*   cfg.role \in {"server","client"};  cfg.exact = TRUE iff the expected wire is computable (identity frames)
EncClauses(cfg, items, s, r) ==
  LET good == Good(items, cfg.limit)  fin == Final(items, cfg.limit)
      full == WireOf(good, 0)
  IN CASE r.r = "data" ->
         << <<"NothingAfterStatus", s.tr = 0 /\ s.err = 0 /\ s.none = 0>>,
            <<"NonEmptyData", Len(r.bytes) > 0>>,
            <<"WireDet", cfg.exact => IsPrefix(s.emitted \o r.bytes, full)>>,
            <<"EosOnlyAfterStatus", ~r.eos>> >>
       [] r.r = "trailers" ->
         << <<"StatusOnce", s.tr = 0 /\ s.err = 0 /\ s.none = 0 /\ Len(r.status) = 1>>,
            <<"ClientHasNoTrailers", cfg.role = "server">>,
            <<"NoCollateralLoss", cfg.exact => s.emitted = full>>,
            <<"TrueStatus", Len(r.status) = 1 => r.status[1] \in { DecDigits(c) : c \in FinalSet(items, cfg.limit) }>> >>
       [] r.r = "err" ->
         << <<"ServerReportsInTrailers", cfg.role = "client">>,
            <<"StatusOnce", s.err = 0 /\ s.none = 0>>,
            <<"NoCollateralLoss", cfg.exact => s.emitted = full>>,
            <<"TrueStatus", fin # OK /\ r.st.code \in FinalSet(items, cfg.limit)>> >>
       [] r.r = "none" ->
         << <<"StatusBeforeEnd", IF cfg.role = "server" THEN s.tr = 1 ELSE (s.err = 1 \/ fin = OK)>>,
            <<"NoCollateralLoss", (cfg.exact /\ s.none = 0) => s.emitted = full>> >>
       [] r.r = "pending" ->
         << <<"NoPendingAfterEnd", s.tr = 0 /\ s.err = 0 /\ s.none = 0>>,
            <<"EosOnlyAfterStatus", ~r.eos>>,
            \* Pending without a wake-up arranged during that poll: nobody will ever poll the body again
            <<"PendingArrangesWakeup", ("woken" \in DOMAIN r) => r.woken>> >>
       [] OTHER -> << <<"KnownResult", FALSE>> >>
EncStep(s, r) ==
  CASE r.r = "data"     -> [s EXCEPT !.emitted = @ \o r.bytes]
    [] r.r = "trailers" -> [s EXCEPT !.tr = 1]
    [] r.r = "err"      -> [s EXCEPT !.err = 1]
    [] r.r = "none"     -> [s EXCEPT !.none = 1]
    [] OTHER            -> s

(* ------------------------------------------------------------------ decoder *)
\* view entries: [kind, ser]; kind \in {"ok","undecodable","bad_flag","flag_noenc","too_large","trunc_hdr","trunc_body"}
HeaderErr == {"bad_flag", "flag_noenc", "too_large", "undecodable"}
Trunc == {"trunc_hdr", "trunc_body"}
Bad(view) == IF view # <<>> /\ view[Len(view)].kind # "ok" THEN view[Len(view)].kind ELSE "none"
NOk(view) == IF Bad(view) = "none" THEN Len(view) ELSE Len(view) - 1
\* tail \in {"none_req","none_resp","trailers_ok","trailers_err","body_err","body_cancel_req"}
MustFail(view, tail) == Bad(view) \in HeaderErr \/ tail \in {"body_err", "trailers_err"}
MayFail(view, tail)  == MustFail(view, tail) \/ Bad(view) \in Trunc \/ tail \in {"none_resp", "body_cancel_req"}

DecInit == [k |-> 0, phase |-> "streaming"]
\* r = [r |-> "msg", ser] | [r |-> "err", code] | [r |-> "end"] | [r |-> "pending"] | [r |-> "stuck"]
DecClauses(view, tail, s, r) ==
  CASE r.r = "msg" ->
         << <<"FirstErrorFinal", s.phase # "failed">>,
            <<"EndIsFinal", s.phase # "ended">>,
            <<"OnlyFramedMessages", s.phase = "streaming" => (s.k < NOk(view) /\ r.ser = view[s.k + 1].ser)>> >>
    [] r.r = "err" ->
         LET live == s.phase = "streaming" IN
         << <<"FirstErrorFinal", s.phase # "failed">>,
            <<"EndIsFinal", s.phase # "ended">>,
            <<"NoSpuriousError", live => MayFail(view, tail)>>,
            <<"AcceptedIffWithinLimit", (live /\ (Bad(view) \in HeaderErr \/ tail = "trailers_err")) => s.k = NOk(view)>>,
            <<"OversizeIsOutOfRange", (live /\ Bad(view) = "too_large" /\ s.k = NOk(view)) => r.code = OUT_OF_RANGE>>,
            <<"FlagWithoutEncodingIsInternal", (live /\ Bad(view) = "flag_noenc" /\ s.k = NOk(view)) => r.code = INTERNAL>> >>
    [] r.r = "end" ->
         << <<"NoSilentFailure", s.phase = "streaming" => ~MustFail(view, tail)>>,
            <<"NoMessageLost", s.phase = "streaming" => s.k = NOk(view)>> >>
    [] r.r = "pending" -> << <<"TerminalIsFinal", s.phase = "streaming">>,
                             <<"PendingArrangesWakeup", ("woken" \in DOMAIN r) => r.woken>> >>
    [] OTHER -> << <<"EveryPollCompletes", FALSE>> >>
DecStep(s, r) ==
  CASE r.r = "msg" -> [s EXCEPT !.k = @ + 1]
    [] r.r = "err" -> [s EXCEPT !.phase = "failed"]
    [] r.r = "end" -> [s EXCEPT !.phase = IF @ = "streaming" THEN "ended" ELSE @]
    [] OTHER       -> s

Failed(cl) == { cl[i][1] : i \in { j \in 1..Len(cl) : ~cl[j][2] } }
=============================================================================
