SPECIFICATION Spec
CONSTANTS
  MaxGroups = 5
  SegmentAware = TRUE
INVARIANTS NoSpuriousError CompleteAtEnd
PROPERTY Terminates
CHECK_DEADLOCK FALSE
