------------------------- MODULE Trace_ReconnectMech -------------------------
(* Mechanism-level trace validation for C14: the hook events tonic emits in every arm of Reconnect::poll_ready and in
   Reconnect::call (feature verif-hooks), together with what the scripted connector and the harness did, are replayed
   through the *actions of Reconnect.tla*.  Each event is Is(..) /\ <the action it claims to be> /\ <its logged argument
   agrees with the model's state>.  The constant Lazy is fixed per TLC run (the driver splits lazy and eager runs).
   A trace the model cannot follow is reported as DRIFT; verdicts on C14 itself come from Trace_Reconnect.          *)
EXTENDS Reconnect, Json, IOUtils
Rec == ndJsonDeserialize(IOEnv.TRACE)
ASSUME TLCSet(1, 1)
VARIABLE l
tvars == <<vars, l>>
E == Rec[l]
Is(e) == l <= Len(Rec) /\ E.e = e /\ l' = l + 1
Hook(ev) == Is("hook") /\ E.ev = ev
TInit == /\ l = 1 /\ script = <<>> /\ pos = 1 /\ st = "Idle" /\ pending = "-" /\ alive = FALSE /\ err = FALSE /\ hbc = FALSE
         /\ pc = (IF Lazy THEN "idle" ELSE "connect") /\ cur = NoCall /\ calls = <<>>
Reset == /\ Is("reset") /\ E.stim.lazy = Lazy
         /\ script' = E.stim.script /\ pos' = 1 /\ st' = "Idle" /\ pending' = "-" /\ alive' = FALSE /\ err' = FALSE /\ hbc' = FALSE
         /\ pc' = (IF Lazy THEN "idle" ELSE "connect") /\ cur' = NoCall /\ calls' = <<>>
\* ---- environment
EvKill == Is("kill") /\ Kill /\ E.was_alive = alive
EvIssue == Is("issue") /\ (IF pc = "closed" THEN UNCHANGED vars ELSE Issue)
EvConnector == Is("connector") /\ E.r = pending /\ st = "Connecting" /\ UNCHANGED vars      \* the connect future runs: it produces what the model drew at make_service
\* ---- Reconnect::poll_ready, one hook per arm
HErrReady == Hook("rc_err_ready") /\ PR_Err
HIdleMake == Hook("rc_idle_make") /\ PR_IdleMake
HConnOk == Hook("rc_conn_ok") /\ PR_ConnOk
HConnFail == Hook("rc_conn_fail") /\ PR_ConnFail /\ (E.n = 1) = (hbc \/ Lazy)                    \* 1 = error stored for the next call, 0 = returned from poll_ready
HConnected == Hook("rc_connected") /\ PR_Connected /\ (E.n = 1) = alive                         \* 1 = inner service ready, 0 = inner error, back to Idle
\* ---- Reconnect::call
HCall == Hook("rc_call") /\ CallStep /\ (E.n = 0) = err                                          \* 0 = the stored connect error is handed out
\* ---- what the application saw
EvConnect == Is("connect") /\ UNCHANGED vars
             /\ IF Lazy THEN E.res = "ok" /\ pc = "idle"
                ELSE (E.res = "ok" /\ pc = "idle") \/ (E.res = "err" /\ pc = "connect_failed")
EvCall == Is("call")
          /\ IF pc = "closed" THEN ClosedCall /\ E.res = "err"
             ELSE /\ UNCHANGED vars /\ pc = "idle" /\ calls # <<>>
                  /\ LET c == calls[Len(calls)] IN
                     \* a call issued with an expired deadline may be cut off (CANCELLED) where the model - which has no deadlines - answers it
                     /\ LET cutOff == "zero" \in DOMAIN E /\ E.zero /\ E.res = "err" /\ E.code = 1 IN (E.res = "ok" \/ cutOff) = (c.res = "ok")
                     /\ E.consumed = c.consumed /\ E.killed_before = c.killedBefore
Skip == Is(E.e) /\ E.e \in {"srv_req", "summary", "end"} /\ UNCHANGED vars
TNext == Reset \/ EvKill \/ EvIssue \/ EvConnector \/ HErrReady \/ HIdleMake \/ HConnOk \/ HConnFail \/ HConnected \/ HCall \/ EvConnect \/ EvCall \/ Skip
TSpec == TInit /\ [][TNext]_tvars
Progress == TLCSet(1, IF l > TLCGet(1) THEN l ELSE TLCGet(1))
MechInv == Contract
Accepted == PrintT(<<"MECH_RESULT", ToJson([matched |-> TLCGet(1) - 1, total |-> Len(Rec),
                                            next |-> IF TLCGet(1) <= Len(Rec) THEN Rec[TLCGet(1)] ELSE [e |-> "none"]])>>)
=============================================================================
