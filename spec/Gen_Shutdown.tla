---------------------------- MODULE Gen_Shutdown ----------------------------
(* Pattern B export for C13: environment schedules (offer / send / fire / release / drop) along behaviours of
   the Mechanism model; printed once they are MaxSteps long or the serve future resolved. *)
EXTENDS MC_Shutdown, Sequences
CONSTANT MaxSteps
VARIABLE sched
GInit == Init /\ sched = <<>>
GEnv == \/ \E c \in Conns : Offer(c) /\ sched' = Append(sched, [op |-> "offer", c |-> c, k |-> 0])
        \/ \E c \in Conns : ClientDrop(c) /\ sched' = Append(sched, [op |-> "drop", c |-> c, k |-> 0])
        \/ \E k \in Calls : Send(k) /\ sched' = Append(sched, [op |-> "send", c |-> 0, k |-> k])
        \/ \E k \in Calls : Release(k) /\ sched' = Append(sched, [op |-> "release", c |-> 0, k |-> k])
        \/ Fire /\ sched' = Append(sched, [op |-> "fire", c |-> 0, k |-> 0])
GNext == (Len(sched) < MaxSteps /\ GEnv) \/ (Sys /\ UNCHANGED sched)
GSpec == GInit /\ [][GNext]_<<vars, sched>>
Export == (Len(sched) = MaxSteps \/ (resolved /\ Len(sched) >= 3)) =>
            PrintT(<<"SCRIPT", ToJson([steps |-> sched, calls |-> [k \in Calls |-> [k |-> k, c |-> ConnOf[k], items |-> Items[k]]]])>>)
=============================================================================
