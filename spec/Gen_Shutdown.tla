---------------------------- MODULE Gen_Shutdown ----------------------------
(* Pattern B export for C13: environment schedules (offer / send / fire / release / drop / end_incoming / age) along behaviours of
   the Mechanism model; printed once they are MaxSteps long or the serve future resolved. *)
EXTENDS MC_Shutdown, Sequences
CONSTANT MaxSteps
VARIABLES sched,
          hold     \* the last environment step was applied without yielding to the server (nb): no system step before the next one
\* the harness lets max_connection_age elapse for every connection accepted so far: Age(c) for all open c, composed
AgeAll == /\ Aging /\ \E c \in Conns : conn[c] = "open"
          /\ conn' = [c \in Conns |-> IF conn[c] = "open" THEN "draining" ELSE conn[c]]
          /\ UNCHANGED <<sig, call, bcast, resolved, dropped, ended>>
GInit == Init /\ sched = <<>> /\ hold = FALSE
GEnv == \/ \E c \in Conns : Offer(c) /\ (\E nb \in BOOLEAN : hold' = nb /\ sched' = Append(sched, [op |-> "offer", c |-> c, k |-> 0, nb |-> nb]))
        \/ \E c \in Conns : ClientDrop(c) /\ (\E nb \in BOOLEAN : hold' = nb /\ sched' = Append(sched, [op |-> "drop", c |-> c, k |-> 0, nb |-> nb]))
        \/ \E k \in Calls : Send(k) /\ hold' = FALSE /\ sched' = Append(sched, [op |-> "send", c |-> 0, k |-> k, nb |-> FALSE])
        \/ \E k \in Calls : Release(k) /\ (\E nb \in BOOLEAN : hold' = nb /\ sched' = Append(sched, [op |-> "release", c |-> 0, k |-> k, nb |-> nb]))
        \/ Fire /\ (\E nb \in BOOLEAN : hold' = nb /\ sched' = Append(sched, [op |-> "fire", c |-> 0, k |-> 0, nb |-> nb]))
        \/ Len(sched) >= 4 /\ EndIncoming /\ (\E nb \in BOOLEAN : hold' = nb /\ sched' = Append(sched, [op |-> "end_incoming", c |-> 0, k |-> 0, nb |-> nb]))
        \/ (Len(sched) >= 1 /\ ~ended /\ UNCHANGED vars /\ \E nb \in BOOLEAN : hold' = nb /\ sched' = Append(sched, [op |-> "accept_error", c |-> 0, k |-> 0, nb |-> nb]))
        \/ AgeAll /\ hold' = FALSE /\ sched' = Append(sched, [op |-> "age", c |-> 0, k |-> 0, nb |-> FALSE])
GNext == (Len(sched) < MaxSteps /\ GEnv) \/ (~hold /\ Sys /\ UNCHANGED <<sched, hold>>) \/ (hold /\ Len(sched) = MaxSteps /\ hold' = FALSE /\ UNCHANGED <<vars, sched>>)
GSpec == GInit /\ [][GNext]_<<vars, sched, hold>>
Export == (Len(sched) = MaxSteps \/ (resolved /\ Len(sched) >= 3)) =>
            PrintT(<<"SCRIPT", ToJson([steps |-> sched, calls |-> [k \in Calls |-> [k |-> k, c |-> ConnOf[k], items |-> Items[k]]]])>>)
=============================================================================
