---------------------------- MODULE Gen_Shutdown ----------------------------
(* Pattern B export for C13: environment schedules (offer / send / fire / release / drop / end_incoming / age) along behaviours of
   the Mechanism model; printed once they are MaxSteps long or the serve future resolved. *)
EXTENDS MC_Shutdown, Sequences
CONSTANT MaxSteps
VARIABLE sched
\* the harness lets max_connection_age elapse for every connection accepted so far: Age(c) for all open c, composed
AgeAll == /\ Aging /\ \E c \in Conns : conn[c] = "open"
          /\ conn' = [c \in Conns |-> IF conn[c] = "open" THEN "draining" ELSE conn[c]]
          /\ UNCHANGED <<sig, call, bcast, resolved, dropped, ended>>
GInit == Init /\ sched = <<>>
GEnv == \/ \E c \in Conns : Offer(c) /\ sched' = Append(sched, [op |-> "offer", c |-> c, k |-> 0])
        \/ \E c \in Conns : ClientDrop(c) /\ sched' = Append(sched, [op |-> "drop", c |-> c, k |-> 0])
        \/ \E k \in Calls : Send(k) /\ sched' = Append(sched, [op |-> "send", c |-> 0, k |-> k])
        \/ \E k \in Calls : Release(k) /\ sched' = Append(sched, [op |-> "release", c |-> 0, k |-> k])
        \/ Fire /\ sched' = Append(sched, [op |-> "fire", c |-> 0, k |-> 0])
        \/ Len(sched) >= 4 /\ EndIncoming /\ sched' = Append(sched, [op |-> "end_incoming", c |-> 0, k |-> 0])
        \/ AgeAll /\ sched' = Append(sched, [op |-> "age", c |-> 0, k |-> 0])
GNext == (Len(sched) < MaxSteps /\ GEnv) \/ (Sys /\ UNCHANGED sched)
GSpec == GInit /\ [][GNext]_<<vars, sched>>
Export == (Len(sched) = MaxSteps \/ (resolved /\ Len(sched) >= 3)) =>
            PrintT(<<"SCRIPT", ToJson([steps |-> sched, calls |-> [k \in Calls |-> [k |-> k, c |-> ConnOf[k], items |-> Items[k]]]])>>)
=============================================================================
