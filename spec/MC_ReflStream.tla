---------------------------- MODULE MC_ReflStream ----------------------------
EXTENDS ReflStream
Alpha == {"H", "M"}
SeqsUpTo(n) == UNION { [1..k -> Alpha] : k \in 0..n }
S3 == SeqsUpTo(3)
S4 == SeqsUpTo(4)
S5 == SeqsUpTo(5)
=============================================================================
