------------------------------- MODULE Bytes -------------------------------
(* Byte-level operators shared by all specifications. Bytes are integers 0..255,
   byte strings are sequences. Everything here is written from the protocol texts
   (gRPC PROTOCOL-HTTP2.md, RFC 3986 2.1, RFC 3629, RFC 4648, protobuf encoding),
   not from tonic, so that TLC evaluating these operators on recorded data is an
   oracle that shares no code with the implementation.
   Folds use FoldLeft (SequencesExt, Java-backed): no deep recursion.            *)
EXTENDS Naturals, Sequences, SequencesExt, FiniteSets, TLC

Byte == 0..255
Max2(a, b) == IF a >= b THEN a ELSE b
Min2(a, b) == IF a <= b THEN a ELSE b
SumSeq(s) == FoldLeft(LAMBDA a, b : a + b, 0, s)
Concat(ss) == FlattenSeq(ss)
Drop(s, n) == SubSeq(s, n + 1, Len(s))
Take(s, n) == SubSeq(s, 1, Min2(n, Len(s)))

(* ---------------------------------------------------------------- big-endian *)
BE32(n) == << (n \div 16777216) % 256, (n \div 65536) % 256, (n \div 256) % 256, n % 256 >>
\* TLC integers are 32-bit signed: lengths >= 2^31 are reported as Huge.
Huge == 2147483647
UnBE32(b) == IF b[1] >= 128 THEN Huge ELSE b[1]*16777216 + b[2]*65536 + b[3]*256 + b[4]

(* ---------------------------------------------------------------- ASCII helpers *)
IsDigit(c) == c >= 48 /\ c <= 57
IsHex(c) == IsDigit(c) \/ (c >= 65 /\ c <= 70) \/ (c >= 97 /\ c <= 102)
HexVal(c) == IF c <= 57 THEN c - 48 ELSE IF c <= 70 THEN c - 55 ELSE c - 87
IsUpper(c) == c >= 65 /\ c <= 90
Lower(c) == IF IsUpper(c) THEN c + 32 ELSE c
LowerSeq(s) == [i \in 1..Len(s) |-> Lower(s[i])]
\* decimal spelling of a small natural
RECURSIVE DecDigits(_)
DecDigits(n) == IF n < 10 THEN <<48 + n>> ELSE DecDigits(n \div 10) \o <<48 + (n % 10)>>

(* ---------------------------------------------------------------- percent-encoding (grpc-message) *)
\* Lenient decoder in the style of the reference implementations: a '%' that is not
\* followed by two hex digits is passed through literally.
PctStep(st, c) ==
  IF st.mode = 0 THEN IF c = 37 THEN [st EXCEPT !.mode = 1] ELSE [st EXCEPT !.out = Append(@, c)]
  ELSE IF st.mode = 1 THEN IF IsHex(c) THEN [st EXCEPT !.mode = 2, !.hi = c]
                           ELSE IF c = 37 THEN [st EXCEPT !.out = Append(@, 37)]
                           ELSE [st EXCEPT !.mode = 0, !.out = @ \o <<37, c>>]
  ELSE IF IsHex(c) THEN [st EXCEPT !.mode = 0, !.out = Append(@, HexVal(st.hi)*16 + HexVal(c))]
       ELSE IF c = 37 THEN [st EXCEPT !.mode = 1, !.out = @ \o <<37, st.hi>>]
       ELSE [st EXCEPT !.mode = 0, !.out = @ \o <<37, st.hi, c>>]
PctDecode(w) == LET f == FoldLeft(PctStep, [out |-> <<>>, mode |-> 0, hi |-> 0], w)
                IN IF f.mode = 0 THEN f.out ELSE IF f.mode = 1 THEN Append(f.out, 37) ELSE f.out \o <<37, f.hi>>
\* gRPC rule for the wire form of grpc-message: only %x20-%x7E, and '%' only as an escape.
PctWireOK(w) == \A i \in 1..Len(w) : w[i] >= 32 /\ w[i] <= 126
PctStrictEscapes(w) == \A i \in 1..Len(w) : w[i] = 37 => (i + 2 <= Len(w) /\ IsHex(w[i+1]) /\ IsHex(w[i+2]))
\* every escape in a well-formed wire value: all '%' start a valid escape
PctAllValid(w) == PctStrictEscapes(w)

(* ---------------------------------------------------------------- UTF-8 validity (RFC 3629) *)
Utf8Step(st, b) ==
  IF st.bad THEN st
  ELSE IF st.need = 0 THEN
         IF b < 128 THEN st
         ELSE IF b >= 194 /\ b <= 223 THEN [st EXCEPT !.need = 1, !.lo = 128, !.hi = 191]
         ELSE IF b = 224 THEN [st EXCEPT !.need = 2, !.lo = 160, !.hi = 191]
         ELSE IF (b >= 225 /\ b <= 236) \/ b = 238 \/ b = 239 THEN [st EXCEPT !.need = 2, !.lo = 128, !.hi = 191]
         ELSE IF b = 237 THEN [st EXCEPT !.need = 2, !.lo = 128, !.hi = 159]
         ELSE IF b = 240 THEN [st EXCEPT !.need = 3, !.lo = 144, !.hi = 191]
         ELSE IF b >= 241 /\ b <= 243 THEN [st EXCEPT !.need = 3, !.lo = 128, !.hi = 191]
         ELSE IF b = 244 THEN [st EXCEPT !.need = 3, !.lo = 128, !.hi = 143]
         ELSE [st EXCEPT !.bad = TRUE]
       ELSE IF b >= st.lo /\ b <= st.hi THEN [st EXCEPT !.need = @ - 1, !.lo = 128, !.hi = 191]
       ELSE [st EXCEPT !.bad = TRUE]
Utf8OK(bs) == LET f == FoldLeft(Utf8Step, [need |-> 0, lo |-> 128, hi |-> 191, bad |-> FALSE], bs) IN ~f.bad /\ f.need = 0

(* ---------------------------------------------------------------- base64 (RFC 4648, standard alphabet) *)
B64Val(c) == IF c >= 65 /\ c <= 90 THEN c - 65 ELSE IF c >= 97 /\ c <= 122 THEN c - 71
             ELSE IF c >= 48 /\ c <= 57 THEN c + 4 ELSE IF c = 43 THEN 62 ELSE IF c = 47 THEN 63 ELSE 64
B64Chr(v) == IF v < 26 THEN 65 + v ELSE IF v < 52 THEN 71 + v ELSE IF v < 62 THEN v - 4 ELSE IF v = 62 THEN 43 ELSE 47
StripPad(w) == LET n == Len(w) IN
               IF n >= 2 /\ w[n] = 61 /\ w[n-1] = 61 THEN SubSeq(w, 1, n-2)
               ELSE IF n >= 1 /\ w[n] = 61 THEN SubSeq(w, 1, n-1) ELSE w
\* decode of an unpadded symbol string: <<ok, bytes>>; strict = unused trailing bits must be zero
B64DecodeRaw(w, strict) ==
  LET n == Len(w) full == n \div 4 rem == n % 4
      okc == \A i \in 1..n : B64Val(w[i]) < 64
      q(k) == LET a == B64Val(w[4*k+1]) b == B64Val(w[4*k+2]) c == B64Val(w[4*k+3]) d == B64Val(w[4*k+4]) IN
              << a*4 + b \div 16, (b % 16)*16 + c \div 4, (c % 4)*64 + d >>
      tail == IF rem = 2 THEN LET a == B64Val(w[4*full+1]) b == B64Val(w[4*full+2]) IN << a*4 + b \div 16 >>
              ELSE IF rem = 3 THEN LET a == B64Val(w[4*full+1]) b == B64Val(w[4*full+2]) c == B64Val(w[4*full+3]) IN << a*4 + b \div 16, (b % 16)*16 + c \div 4 >>
              ELSE <<>>
      canon == IF rem = 2 THEN B64Val(w[n]) % 16 = 0 ELSE IF rem = 3 THEN B64Val(w[n]) % 4 = 0 ELSE TRUE
  IN IF ~okc \/ rem = 1 \/ (strict /\ ~canon) THEN <<FALSE, <<>>>>
     ELSE <<TRUE, FlattenSeq([k \in 1..full |-> q(k-1)]) \o tail>>
\* padding-indifferent decode: unpadded, or padded correctly to a multiple of four (RFC 4648 section 4);
\* anything else (stray or wrong number of '=') is not base64
B64Decode(w) == LET sp == StripPad(w) pads == Len(w) - Len(sp) IN
                IF pads = 0 THEN B64DecodeRaw(w, TRUE)
                ELSE IF Len(w) % 4 = 0 /\ ((Len(sp) % 4 = 2 /\ pads = 2) \/ (Len(sp) % 4 = 3 /\ pads = 1)) THEN B64DecodeRaw(sp, TRUE)
                ELSE <<FALSE, <<>>>>
B64DecodeLenient(w) == B64DecodeRaw(StripPad(w), FALSE)
\* canonical unpadded encoding
B64EncodeNoPad(bs) ==
  LET n == Len(bs) full == n \div 3 rem == n % 3
      g(k) == LET a == bs[3*k+1] b == bs[3*k+2] c == bs[3*k+3] IN
              << B64Chr(a \div 4), B64Chr((a % 4)*16 + b \div 16), B64Chr((b % 16)*4 + c \div 64), B64Chr(c % 64) >>
      tail == IF rem = 1 THEN LET a == bs[3*full+1] IN << B64Chr(a \div 4), B64Chr((a % 4)*16) >>
              ELSE IF rem = 2 THEN LET a == bs[3*full+1] b == bs[3*full+2] IN << B64Chr(a \div 4), B64Chr((a % 4)*16 + b \div 16), B64Chr((b % 16)*4) >>
              ELSE <<>>
  IN FlattenSeq([k \in 1..full |-> g(k-1)]) \o tail
B64EncodePad(bs) == LET e == B64EncodeNoPad(bs) IN
                    e \o (IF Len(e) % 4 = 2 THEN <<61, 61>> ELSE IF Len(e) % 4 = 3 THEN <<61>> ELSE <<>>)

(* ---------------------------------------------------------------- HTTP header value legality (RFC 9110 field-value as `http` enforces it) *)
HeaderValueLegal(v) == \A i \in 1..Len(v) : (v[i] >= 32 /\ v[i] # 127) \/ v[i] = 9
VisibleAscii(v) == \A i \in 1..Len(v) : v[i] >= 32 /\ v[i] <= 126

(* ---------------------------------------------------------------- gRPC length-prefixed framing *)
\* A frame record: [off (0-based offset of the flag byte), flag, len, payload]
\* ParseFrames walks the wire and returns [frames, rest (offset of first unconsumed byte), why]
\*   why = "clean"     : every byte consumed
\*         "trunc_hdr" : 1..4 bytes left
\*         "trunc_body": header complete, payload incomplete
\* Flags and limits are judged by the callers (contracts), not here.
RECURSIVE ParseFrom(_, _, _)
ParseFrom(w, p, acc) ==
  IF p > Len(w) THEN [frames |-> acc, rest |-> p - 1, why |-> "clean"]
  ELSE IF p + 4 > Len(w) THEN [frames |-> acc, rest |-> p - 1, why |-> "trunc_hdr"]
  ELSE LET n == UnBE32(SubSeq(w, p + 1, p + 4)) IN
       IF n = Huge \/ p + 4 + n > Len(w)
       THEN [frames |-> Append(acc, [off |-> p - 1, flag |-> w[p], len |-> n, payload |-> <<>>, complete |-> FALSE]),
             rest |-> p - 1, why |-> "trunc_body"]
       ELSE ParseFrom(w, p + 5 + n,
                      Append(acc, [off |-> p - 1, flag |-> w[p], len |-> n, payload |-> SubSeq(w, p + 5, p + 4 + n), complete |-> TRUE]))
ParseFrames(w) == ParseFrom(w, 1, <<>>)
Frame(flag, payload) == <<flag>> \o BE32(Len(payload)) \o payload

(* ---------------------------------------------------------------- protobuf (subset) *)
RECURSIVE Varint(_)
Varint(n) == IF n < 128 THEN <<n>> ELSE <<128 + (n % 128)>> \o Varint(n \div 128)
\* harness test message: uint32 a = 1; bytes b = 2; string c = 3  (proto3: defaults omitted)
ProtoSerTest(m) == (IF m.a = 0 THEN <<>> ELSE <<8>> \o Varint(m.a))
                \o (IF m.b = <<>> THEN <<>> ELSE <<18>> \o Varint(Len(m.b)) \o m.b)
                \o (IF m.c = <<>> THEN <<>> ELSE <<26>> \o Varint(Len(m.c)) \o m.c)
\* generic reader: sequence of [field, wt, val (varint value or bytes)]; ok = FALSE on malformed input
RECURSIVE ReadVarint(_, _, _, _)
\* returns [ok, v, next]; a varint is at most 10 bytes; values >= 2^31 saturate at Huge (TLC integers are 32-bit)
ReadVarint(w, p, n, acc) ==
  IF p > Len(w) \/ n >= 10 THEN [ok |-> FALSE, v |-> 0, next |-> p]
  ELSE LET b == w[p] d == b % 128
           v == IF acc = Huge \/ n > 4 \/ (n = 4 /\ d >= 8) THEN (IF d = 0 THEN acc ELSE Huge)
                ELSE acc + d * (2 ^ (7 * n)) IN
       IF b < 128 THEN [ok |-> TRUE, v |-> v, next |-> p + 1] ELSE ReadVarint(w, p + 1, n + 1, v)
RECURSIVE ProtoFields(_, _, _)
ProtoFields(w, p, acc) ==
  IF p > Len(w) THEN [ok |-> TRUE, fields |-> acc]
  ELSE LET k == ReadVarint(w, p, 0, 0) IN
       IF ~k.ok THEN [ok |-> FALSE, fields |-> acc]
       ELSE LET f == k.v \div 8 wt == k.v % 8 IN
            IF wt = 0 THEN LET v == ReadVarint(w, k.next, 0, 0) IN
                           IF ~v.ok THEN [ok |-> FALSE, fields |-> acc]
                           ELSE ProtoFields(w, v.next, Append(acc, [field |-> f, wt |-> 0, val |-> v.v, bytes |-> <<>>]))
            ELSE IF wt = 2 THEN LET n == ReadVarint(w, k.next, 0, 0) IN
                           IF ~n.ok \/ n.v = Huge \/ n.next + n.v - 1 > Len(w) THEN [ok |-> FALSE, fields |-> acc]
                           ELSE ProtoFields(w, n.next + n.v, Append(acc, [field |-> f, wt |-> 2, val |-> 0, bytes |-> SubSeq(w, n.next, n.next + n.v - 1)]))
            ELSE [ok |-> FALSE, fields |-> acc]
ProtoParse(w) == ProtoFields(w, 1, <<>>)

(* ---------------------------------------------------------------- decimal digit strings (most significant first) *)
StripZeros(d) == LET nz == SelectInSeq(d, LAMBDA x : x # 0) IN IF nz = 0 THEN <<0>> ELSE SubSeq(d, nz, Len(d))
DropLast(d, k) == IF Len(d) <= k THEN <<0>> ELSE SubSeq(d, 1, Len(d) - k)
DivSmall(d, m) == LET st == FoldLeft(LAMBDA acc, x : LET cur == acc.r * 10 + x IN [q |-> Append(acc.q, cur \div m), r |-> cur % m],
                                      [q |-> <<>>, r |-> 0], d)
                  IN StripZeros(st.q)
RECURSIVE NatDigits(_)
NatDigits(n) == IF n < 10 THEN <<n>> ELSE NatDigits(n \div 10) \o <<n % 10>>
MulSmall(d, m) ==
   LET st == FoldLeft(LAMBDA acc, i : LET x == d[Len(d) + 1 - i] cur == x * m + acc.c IN [q |-> <<cur % 10>> \o acc.q, c |-> cur \div 10],
                      [q |-> <<>>, c |-> 0], [i \in 1..Len(d) |-> i])
   IN StripZeros((IF st.c = 0 THEN <<>> ELSE NatDigits(st.c)) \o st.q)
PadZeros(d, k) == d \o [i \in 1..k |-> 0]
LeqDigits(a0, b0) == LET a == StripZeros(a0) b == StripZeros(b0) IN
   IF Len(a) # Len(b) THEN Len(a) < Len(b)
   ELSE LET diff == SelectInSeq([i \in 1..Len(a) |-> IF a[i] = b[i] THEN 0 ELSE 1], LAMBDA x : x = 1) IN
        IF diff = 0 THEN TRUE ELSE a[diff] < b[diff]
EqDigits(a, b) == StripZeros(a) = StripZeros(b)
LtDigits(a, b) == LeqDigits(a, b) /\ ~EqDigits(a, b)
\* a + b on digit strings
AddDigits(a0, b0) ==
   LET n == Max2(Len(a0), Len(b0))
       a == [i \in 1..(n - Len(a0)) |-> 0] \o a0
       b == [i \in 1..(n - Len(b0)) |-> 0] \o b0
       st == FoldLeft(LAMBDA acc, i : LET cur == a[n + 1 - i] + b[n + 1 - i] + acc.c IN [q |-> <<cur % 10>> \o acc.q, c |-> cur \div 10],
                      [q |-> <<>>, c |-> 0], [i \in 1..n |-> i])
   IN StripZeros((IF st.c = 0 THEN <<>> ELSE <<st.c>>) \o st.q)

(* ---------------------------------------------------------------- self tests (evaluated whenever the module is loaded by MC_Bytes) *)
BytesSelfTest ==
  /\ PctDecode(<<97,37,50,48,98,37,50,53,99,37,67,51,37,65,57>>) = <<97,32,98,37,99,195,169>>
  /\ Utf8OK(<<97,195,169,240,159,152,128>>) /\ ~Utf8OK(<<255>>) /\ ~Utf8OK(<<195>>) /\ ~Utf8OK(<<237,160,128>>)
  /\ B64Decode(<<65,65,73,68>>) = <<TRUE, <<0,2,3>>>> /\ B64Decode(<<65,65,73>>) = <<TRUE, <<0,2>>>>
  /\ B64Decode(<<65,65,73,61>>) = <<TRUE, <<0,2>>>> /\ B64Decode(<<33>>)[1] = FALSE /\ B64Decode(<<61>>)[1] = FALSE
  /\ B64Decode(<<65,65,61>>)[1] = FALSE /\ B64DecodeLenient(<<65,65,61>>) = <<TRUE, <<0>>>>
  /\ B64EncodeNoPad(<<0,2,3>>) = <<65,65,73,68>> /\ B64EncodeNoPad(<<0,2>>) = <<65,65,73>> /\ B64EncodePad(<<0>>) = <<65,65,61,61>>
  /\ DivSmall(<<3,6,0,0>>, 60) = <<6,0>> /\ DivSmall(<<3,5,9,9>>, 3600) = <<0>> /\ MulSmall(<<9,9>>, 3600) = <<3,5,6,4,0,0>>
  /\ LeqDigits(<<9,9>>, <<1,0,0>>) /\ ~LeqDigits(<<1,0,1>>, <<1,0,0>>) /\ AddDigits(<<9,9>>, <<1>>) = <<1,0,0>>
  /\ ParseFrames(<<0,0,0,0,1,7, 1,0,0,0,0>>).why = "clean" /\ Len(ParseFrames(<<0,0,0,0,1,7, 1,0,0,0,0>>).frames) = 2
  /\ ParseFrames(<<0,0,0>>).why = "trunc_hdr" /\ ParseFrames(<<0,0,0,0,2,1>>).why = "trunc_body"
  /\ Varint(300) = <<172, 2>> /\ ProtoSerTest([a |-> 1, b |-> <<7>>, c |-> <<>>]) = <<8,1,18,1,7>>
  /\ ProtoParse(<<8,1,18,1,7>>).ok /\ Len(ProtoParse(<<8,1,18,1,7>>).fields) = 2
  /\ BE32(258) = <<0,0,1,2>> /\ UnBE32(<<0,0,1,2>>) = 258 /\ DecDigits(16) = <<49,54>>
=============================================================================
