SPECIFICATION Spec
CONSTANTS
  Conns = {1, 2}
  Calls = {1, 2, 3}
  ConnOf <- ConnOfDef
  Items <- ItemsDef
  WaitForConns = TRUE
  Aging = TRUE
  DrainGracefully = FALSE
INVARIANTS ResolveLate NoLoss
PROPERTIES NoAcceptAfter AcceptedCompletes ResolveEventually EndResolves
CHECK_DEADLOCK FALSE
