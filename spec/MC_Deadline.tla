----------------------------- MODULE MC_Deadline -----------------------------
(* Pattern A/B for the grpc-timeout codec (C09): TLC enumerates header values exhaustively *by structure*
   (every unit x 1..8 digits x leading digit class x trailing pattern) and the boundary durations around
   every unit switch, checks the specification's own laws on them (the oracle is self-consistent), and
   exports them as stimuli for Request::set_timeout and for the server's parser.                     *)
EXTENDS Deadline, Json
RECURSIVE SubOne(_)
SubOne(d) == IF d[Len(d)] > 0 THEN [d EXCEPT ![Len(d)] = @ - 1] ELSE Append(SubOne(SubSeq(d, 1, Len(d) - 1)), 9)
Lead == {0, 1, 9}
Fill(n, pat) == CASE pat = "zeros" -> [i \in 1..n |-> 0] [] pat = "nines" -> [i \in 1..n |-> 9] [] OTHER -> [i \in 1..n |-> IF i = n THEN 1 ELSE 0]
Values == { [i \in 1..(nd + 1) |-> IF i = 1 THEN 48 + ld ELSE IF i = nd + 1 THEN u ELSE 48 + Fill(nd - 1, pat)[i - 1]] :
              u \in Units, nd \in 1..8, ld \in Lead, pat \in {"zeros", "nines", "one"} }
Eight9 == [i \in 1..8 |-> 9]
UnitFactors == { UnitNanos(u) : u \in Units }
Boundaries == UNION { LET top == IF f = <<1>> THEN Eight9 ELSE IF f[1] = 1 THEN PadZeros(Eight9, Len(f) - 1)
                                 ELSE PadZeros(MulSmall(Eight9, IF f[1] = 6 THEN 60 ELSE 3600), 9)
                      IN { top, SubOne(top), AddDigits(top, <<1>>), AddDigits(top, f), SubOne(f), f, AddDigits(f, <<1>>) } : f \in UnitFactors }
              \cup { <<0>>, <<1>>, PadZeros(<<5, 9>>, 9), SubOne(PadZeros(<<6>>, 10)), PadZeros(<<3, 5, 9, 9>>, 9) }
\* the largest representable duration: 99 999 999 hours
MaxD == PadZeros(MulSmall(Eight9, 3600), 9)
Durations == { d \in Boundaries : LeqDigits(d, MaxD) }
VARIABLE pick
Init == pick \in ({ [kind |-> "parse", value |-> v] : v \in Values } \cup { [kind |-> "encode", total |-> d] : d \in Durations })
Next == UNCHANGED pick
Spec == Init /\ [][Next]_pick
OracleLaws == /\ pick.kind = "parse" => (ValueOK(pick.value) /\ LeqDigits(Denotes(pick.value), MaxD)
                                         /\ LtDigits(Denotes(pick.value), AddDigits(Denotes(pick.value), UnitNanos(UnitOf(pick.value)))))
              /\ pick.kind = "encode" => LeqDigits(pick.total, MaxD)
              /\ Denotes(<<50, 83>>) = PadZeros(<<2>>, 9) /\ Denotes(<<48, 50, 77>>) = PadZeros(<<1, 2>>, 10) /\ ~ValueOK(<<83>>) /\ ~ValueOK(<<49, 50, 51, 52, 53, 54, 55, 56, 57, 83>>)
Export == PrintT(<<"SCRIPT", ToJson(pick)>>)
=============================================================================
