SPECIFICATION Spec
CONSTANTS
  Sessions <- S3
  BlockingSend = FALSE
INVARIANTS TypeOK Contract
CHECK_DEADLOCK FALSE
