----------------------------- MODULE MC_Codegen -----------------------------
(* Pattern B for C11: TLC enumerates service descriptors (package absent / simple / nested; service and method
   identifier shapes incl. Rust keywords; 1..2 methods over the 4 streaming kinds; builder options) and exports
   them; every one goes through tonic-build's real generator. *)
EXTENDS Codegen, Json
Pkgs == {"", "p", "p.q"}
Svcs == { [name |-> "Svc", proto |-> "Svc"], [name |-> "SvcX", proto |-> "svc_x"], [name |-> "Result", proto |-> "Result"] }
MethNames == { [name |-> "get_it", proto |-> "GetIt"], [name |-> "r#type", proto |-> "Type"], [name |-> "self_", proto |-> "Self"], [name |-> "x9", proto |-> "X9"], [name |-> "get", proto |-> "get"] }
Meths == { [name |-> n.name, proto |-> n.proto, cs |-> c, ss |-> s] : n \in MethNames, c \in BOOLEAN, s \in BOOLEAN }
MethLists == { <<a>> : a \in Meths } \cup { <<a, b>> : a \in Meths, b \in { x \in Meths : x.cs /\ ~x.ss } } \cup { <<a, b>> : a \in { x \in Meths : x.proto = "GetIt" }, b \in Meths }
Opts == [emit_package : BOOLEAN, default_stubs : BOOLEAN, arc_self : BOOLEAN, client : BOOLEAN, server : BOOLEAN]
VARIABLE d
Init == d \in { [package |-> p, service |-> s, methods |-> ms, opts |-> o] : p \in Pkgs, s \in Svcs, ms \in { x \in MethLists : Len(x) = 1 \/ x[1].proto # x[2].proto }, o \in { x \in Opts : x.client \/ x.server } }
Next == UNCHANGED d
Spec == Init /\ [][Next]_d
TableOK == /\ \A i, j \in 1..Len(d.methods) : i # j => Path(d, d.methods[i]) # Path(d, d.methods[j])
           /\ Kind(d.methods[1]) \in {"unary", "server_streaming", "client_streaming", "streaming"}
Export == PrintT(<<"SCRIPT", ToJson(d)>>)
=============================================================================
