--------------------------- MODULE MC_FramingEnc ---------------------------
EXTENDS FramingEnc
M(n) == [k |-> "msg", ser |-> [j \in 1..n |-> 7]]
P == [k |-> "pend"]
Er == [k |-> "err", code |-> 10]
Refuse == [k |-> "encfail", ser |-> <<7>>]
\* message lengths 0,1,2 fit, 9 is over the limit (Limit = 5); Yield = 12 bytes = two 1-byte frames
Base == {<<>>, <<M(1)>>, <<M(9)>>, <<M(1), M(1), M(9)>>, <<M(1), M(9), M(1)>>, <<M(9), M(9)>>, <<M(1), M(9), M(9)>>,
         <<M(0), M(2), M(1), M(1)>>, <<M(1), Er>>, <<Er>>, <<M(1), M(1), M(1), Er>>, <<M(2), M(9), Er>>,
         <<Refuse>>, <<M(1), Refuse, M(1)>>, <<M(1), M(1), Refuse>>, <<Refuse, M(9)>>}
\* every placement of 0..2 Pending markers
Ins(s, p) == SubSeq(s, 1, p) \o <<P>> \o SubSeq(s, p + 1, Len(s))
WithPend == LET a == Base \cup UNION { { Ins(s, p) : p \in 0..Len(s) } : s \in Base }
            IN a \cup UNION { { Ins(s, p) : p \in 0..Len(s) } : s \in a }
ScriptsDef == WithPend
=============================================================================
