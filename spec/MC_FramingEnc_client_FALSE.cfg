SPECIFICATION Spec
CONSTANTS
  Scripts <- ScriptsDef
  Role = "client"
  Limit = 5
  Yield = 12
  MaxPolls = 12
  KeepBatch = FALSE
  StopAfterStatus = FALSE
PROPERTIES ContractHolds Ends
CHECK_DEADLOCK FALSE
