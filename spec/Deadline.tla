------------------------------ MODULE Deadline ------------------------------
(* Contract of the grpc-timeout header codec (C09, first sentence) over decimal digit strings of
   nanoseconds (TLC integers are 32 bit; 99 999 999 H is 3.6e20 ns), written from PROTOCOL-HTTP2.md:
       Timeout = TimeoutValue TimeoutUnit ; TimeoutValue = 1..8 ASCII digits ; Unit in H M S m u n
   and of deadline enforcement (second sentence), plus a small Mechanism model of the timer race in
   tonic::transport::service::GrpcTimeout (ResponseFuture::poll: inner future first, then the sleep). *)
EXTENDS Bytes

Units == {72, 77, 83, 109, 117, 110}      \* H M S m u n
ValueOK(v) == Len(v) >= 2 /\ Len(v) <= 9 /\ v[Len(v)] \in Units /\ \A i \in 1..(Len(v) - 1) : IsDigit(v[i])
DigitsOf(v) == [i \in 1..(Len(v) - 1) |-> v[i] - 48]
UnitOf(v) == v[Len(v)]
\* one unit in nanoseconds, as a digit string
UnitNanos(u) == CASE u = 110 -> <<1>> [] u = 117 -> PadZeros(<<1>>, 3) [] u = 109 -> PadZeros(<<1>>, 6) [] u = 83 -> PadZeros(<<1>>, 9)
                  [] u = 77 -> PadZeros(<<6>>, 10) [] u = 72 -> PadZeros(<<3, 6>>, 11)
\* the duration a conformant value denotes, in nanoseconds
Denotes(v) == LET d == DigitsOf(v) u == UnitOf(v) IN
              CASE u = 110 -> StripZeros(d) [] u = 117 -> StripZeros(PadZeros(d, 3)) [] u = 109 -> StripZeros(PadZeros(d, 6))
                [] u = 83 -> StripZeros(PadZeros(d, 9)) [] u = 77 -> StripZeros(PadZeros(MulSmall(d, 60), 9))
                [] u = 72 -> StripZeros(PadZeros(MulSmall(d, 3600), 9))
\* nanoseconds of a stimulus duration [secs digits, nanos]
Nanos9(n) == LET d == NatDigits(n) IN [i \in 1..(9 - Len(d)) |-> 0] \o d
TotalNanos(secs, nanos) == StripZeros(secs \o Nanos9(nanos))

\* ---- set_timeout(d): conformant, never longer than requested, loses less than one unit of the chosen precision
EncodeClauses(D, v) ==
  << <<"C09.ConformantValue", ValueOK(v)>>,
     <<"C09.NeverLonger", ValueOK(v) => LeqDigits(Denotes(v), D)>>,
     <<"C09.LosesLessThanOneUnit", ValueOK(v) => LtDigits(D, AddDigits(Denotes(v), UnitNanos(UnitOf(v))))>> >>
\* ---- parsing: conformant => exactly what it denotes; malformed => ignored; a single leading '+' is left open
LeadingPlus(v) == Len(v) >= 3 /\ v[1] = 43 /\ ValueOK(Tail(v))
ParseClauses(v, r) ==     \* r = [k |-> "some"|"none"|"err", nanos_total]
  << <<"C09.ConformantParsedExactly", ValueOK(v) => (r.k = "some" /\ EqDigits(r.nanos_total, Denotes(v)))>>,
     <<"C09.MalformedIgnored", (~ValueOK(v) /\ ~LeadingPlus(v)) => r.k \in {"err", "none", "unsendable"}>> >>

\* ---- enforcement: T = set of present timeouts (ms), L = handler latency (ms)
MinOf(T) == CHOOSE t \in T : \A u \in T : t <= u
EnforceOK(T, L, out) ==   \* out = [ok, code, msg, elapsed]
  IF T = {} \/ L < MinOf(T) THEN out.ok /\ out.elapsed = L
  ELSE IF L > MinOf(T) THEN ~out.ok /\ out.code = 1 /\ out.elapsed = MinOf(T)
  ELSE (out.ok /\ out.elapsed = L) \/ (~out.ok /\ out.code = 1 /\ out.elapsed = L)
=============================================================================
