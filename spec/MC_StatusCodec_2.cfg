SPECIFICATION Spec
CONSTANT MaxLen = 2
INVARIANTS OracleLaws Export
CHECK_DEADLOCK FALSE
