SPECIFICATION TSpec
CONSTANTS
  Svcs = {"", "a", "b"}
  Stats = {0, 1, 2}
  MaxOps = 60
  MaxW = 12
  SendOnExisting = TRUE
  Serving <- ServingT
  Default <- DefaultT
CONSTRAINT Progress
INVARIANT MechInv
POSTCONDITION Accepted
CHECK_DEADLOCK FALSE
