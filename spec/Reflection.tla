----------------------------- MODULE Reflection -----------------------------
(* Contract of the reflection service (C19): the symbol table a set of file descriptors declares, computed
   here from the descriptor tree (names are byte strings):
     message pkg.M, nested pkg.M.N, field pkg.M.f, oneof pkg.M.o, enum pkg.E / pkg.M.E, enum value <enum>.V,
     service pkg.S, method pkg.S.m ; an empty package contributes no prefix ; first registration of a file wins. *)
EXTENDS Bytes
Dot == <<46>>
Join(prefix, nb) == IF prefix = <<>> THEN nb ELSE prefix \o Dot \o nb
SeqSet(q) == { q[i] : i \in 1..Len(q) }
EnumNames(prefix, en) == LET e == Join(prefix, en.nb) IN {e} \cup { Join(e, en.values[i].nb) : i \in 1..Len(en.values) }
RECURSIVE MsgNames(_, _)
MsgNames(prefix, m) ==
  LET fq == Join(prefix, m.nb) IN
  {fq} \cup { Join(fq, m.fields[i].nb) : i \in 1..Len(m.fields) } \cup { Join(fq, m.oneofs[i].nb) : i \in 1..Len(m.oneofs) }
       \cup UNION { EnumNames(fq, m.enums[i]) : i \in 1..Len(m.enums) }
       \cup UNION { MsgNames(fq, m.nested[i]) : i \in 1..Len(m.nested) }
SvcNames(prefix, sv) == LET fq == Join(prefix, sv.nb) IN {fq} \cup { Join(fq, sv.methods[i].nb) : i \in 1..Len(sv.methods) }
FileNames(f) == UNION { MsgNames(f.pkgb, f.messages[i]) : i \in 1..Len(f.messages) }
                \cup UNION { EnumNames(f.pkgb, f.enums[i]) : i \in 1..Len(f.enums) }
                \cup UNION { SvcNames(f.pkgb, f.services[i]) : i \in 1..Len(f.services) }
\* files in registration order, first registration of a name wins
Effective(files) == SelectSeq([i \in 1..Len(files) |-> [f |-> files[i], first |-> ~\E j \in 1..(i - 1) : files[j].nb = files[i].nb]], LAMBDA x : x.first)
Decl(files) == LET eff == Effective(files) IN UNION { { [name |-> n, file |-> eff[i].f.nb] : n \in FileNames(eff[i].f) } : i \in 1..Len(eff) }
DeclaredIn(files, n) == { d.file : d \in { x \in Decl(files) : x.name = n } }
Services(files) == LET eff == Effective(files) IN UNION { { Join(eff[i].f.pkgb, eff[i].f.services[j].nb) : j \in 1..Len(eff[i].f.services) } : i \in 1..Len(eff) }
\* "sibling scope" spelling of enum values (protobuf's own scoping rule): left unconstrained
RECURSIVE MsgSiblings(_, _)
EnumSiblings(prefix, en) == { Join(prefix, en.values[i].nb) : i \in 1..Len(en.values) }
MsgSiblings(prefix, m) == LET fq == Join(prefix, m.nb) IN UNION { EnumSiblings(fq, m.enums[i]) : i \in 1..Len(m.enums) } \cup UNION { MsgSiblings(fq, m.nested[i]) : i \in 1..Len(m.nested) }
Siblings(files) == UNION { UNION { EnumSiblings(files[i].pkgb, files[i].enums[j]) : j \in 1..Len(files[i].enums) }
                           \cup UNION { MsgSiblings(files[i].pkgb, files[i].messages[j]) : j \in 1..Len(files[i].messages) } : i \in 1..Len(files) }
=============================================================================
