SPECIFICATION Spec
INVARIANTS OracleLaws Export
CHECK_DEADLOCK FALSE
