SPECIFICATION Spec
CONSTANTS
  Conns = {1, 2}
  Calls = {1, 2, 3}
  ConnOf <- ConnOfDef
  Items <- ItemsDef
  WaitForConns = FALSE
  Aging = TRUE
  DrainGracefully = TRUE
INVARIANTS ResolveLate NoLoss
PROPERTIES NoAcceptAfter AcceptedCompletes ResolveEventually EndResolves
CHECK_DEADLOCK FALSE
