----------------------------- MODULE FramingEnc -----------------------------
(* Mechanism model of tonic's message encoder: EncodedBytes::poll_next + encode_item +
   EncodeBody::poll_frame (tonic/src/codec/encode.rs), driven by a scripted message source
   (messages, Pending, at most one terminal error) and polled to exhaustion, i.e. past
   is_end_stream(), as a generic http_body consumer may do.

   Named deviations (switches; FALSE = the code before the "fix:" commit):
     KeepBatch       : on an encode failure (message over the limit) the half-written frame is
                       rolled back and earlier frames batched in the same poll are yielded first.
     StopAfterStatus : poll_frame returns None once the status has been produced.
   The Contract (FramingContract!EncClauses) is checked as the action property ContractHolds. *)
EXTENDS FramingContract

CONSTANTS Scripts,    \* set of source scripts (sequences of items: [k |-> "msg", ser] / [k |-> "pend"] / [k |-> "err", code])
          Role,       \* "server" | "client"
          Limit,      \* max_encoding_message_size
          Yield,      \* yield_threshold in bytes
          MaxPolls,
          KeepBatch, StopAfterStatus

VARIABLES items,   \* the chosen script
          i,       \* next item
          srcEnded,\* the (fused) source returned None
          buf,     \* EncodedBytes.buf : bytes of complete frames not yet yielded (plus garbage when ~KeepBatch)
          stash,   \* EncodedBytes.error: -1 or a status code
          eos,     \* EncodeState.is_end_stream
          out      \* history of poll_frame results
vars == <<items, i, srcEnded, buf, stash, eos, out>>

Init == items \in Scripts /\ i = 1 /\ srcEnded = FALSE /\ buf = <<>> /\ stash = -1 /\ eos = FALSE /\ out = <<>>

Emit(r) == Len(out) < MaxPolls /\ out' = Append(out, r)
Data(b) == [r |-> "data", bytes |-> b, eos |-> eos]
\* EncodeBody::poll_frame's treatment of Some(Err(status)) from the inner stream
StatusOut(code) == IF Role = "server" THEN Emit([r |-> "trailers", status |-> <<DecDigits(code)>>, eos |-> TRUE]) /\ eos' = TRUE
                   ELSE Emit([r |-> "err", st |-> [code |-> code], eos |-> IF StopAfterStatus THEN TRUE ELSE eos])
                        /\ eos' = (IF StopAfterStatus THEN TRUE ELSE eos)

Live == ~(StopAfterStatus /\ eos)
\* poll_frame once the status is out (repaired body): None, nothing is polled
AfterStatus == /\ StopAfterStatus /\ eos /\ Emit([r |-> "none", eos |-> eos])
               /\ UNCHANGED <<items, i, srcEnded, buf, stash, eos>>

\* poll with a stashed error: yield it
PollStash == /\ Live /\ stash # -1 /\ StatusOut(stash) /\ stash' = -1 /\ UNCHANGED <<items, i, srcEnded, buf>>

Src == Live /\ stash = -1 /\ ~srcEnded
\* source yields a message that fits: encode_item appends a frame; yield if the threshold is reached
ItemOk == /\ Src /\ i <= Len(items) /\ items[i].k = "msg" /\ Len(items[i].ser) <= Limit
          /\ LET nb == buf \o Frame(0, items[i].ser) IN
             IF Len(nb) >= Yield THEN Emit(Data(nb)) /\ buf' = <<>> ELSE buf' = nb /\ UNCHANGED out
          /\ i' = i + 1 /\ UNCHANGED <<items, srcEnded, stash, eos>>
\* encode_item fails: the message is over the limit (finish_encoding) or the codec refuses it (Encoder::encode)
ItemTooBig == /\ Src /\ i <= Len(items) /\ (items[i].k = "encfail" \/ (items[i].k = "msg" /\ Len(items[i].ser) > Limit))
              /\ i' = i + 1
              /\ LET code == IF items[i].k = "encfail" THEN INTERNAL ELSE OUT_OF_RANGE IN
                 IF KeepBatch THEN
                    IF buf = <<>> THEN StatusOut(code) /\ UNCHANGED <<buf, stash>>
                    ELSE Emit(Data(buf)) /\ buf' = <<>> /\ stash' = code /\ UNCHANGED eos
                 ELSE \* as it was: 5 reserved bytes + what was written stay in buf unpatched (modelled as a frame with flag 7), error returned at once
                    /\ buf' = buf \o Frame(7, items[i].ser) /\ StatusOut(code) /\ UNCHANGED stash
              /\ UNCHANGED <<items, srcEnded>>
\* source yields an error: yield the batch first (stash), or the error at once
ItemErr == /\ Src /\ i <= Len(items) /\ items[i].k = "err"
           /\ i' = i + 1
           /\ IF buf = <<>> THEN StatusOut(items[i].code) /\ UNCHANGED <<buf, stash>>
              ELSE Emit(Data(buf)) /\ buf' = <<>> /\ stash' = items[i].code /\ UNCHANGED eos
           /\ UNCHANGED <<items, srcEnded>>
\* source pending: yield what is buffered, else Pending
SrcPending == /\ Src /\ i <= Len(items) /\ items[i].k = "pend"
              /\ i' = i + 1
              /\ IF buf = <<>> THEN Emit([r |-> "pending", eos |-> eos]) ELSE (Emit(Data(buf)))
              /\ buf' = <<>> /\ UNCHANGED <<items, srcEnded, stash, eos>>
\* source ends (Fuse: polled once, afterwards None without polling)
SrcEnd == /\ Live /\ stash = -1 /\ (srcEnded \/ i > Len(items))
          /\ srcEnded' = TRUE
          /\ IF buf # <<>> THEN Emit(Data(buf)) /\ buf' = <<>> /\ UNCHANGED eos
             ELSE /\ UNCHANGED buf
                  /\ IF Role = "server" /\ ~eos THEN Emit([r |-> "trailers", status |-> <<DecDigits(OK)>>, eos |-> TRUE]) /\ eos' = TRUE
                     ELSE Emit([r |-> "none", eos |-> eos]) /\ UNCHANGED eos
          /\ UNCHANGED <<items, i, stash>>

Next == AfterStatus \/ PollStash \/ ItemOk \/ ItemTooBig \/ ItemErr \/ SrcPending \/ SrcEnd
Spec == Init /\ [][Next]_vars /\ WF_vars(Next)

(* ------------------------------------------------------------------ Contract binding *)
Cfg == [role |-> Role, limit |-> Limit, exact |-> TRUE]
Monitor(h) == FoldLeft(LAMBDA s, r : EncStep(s, r), EncInit, h)
ContractStep == \/ UNCHANGED out
                \/ /\ Len(out') = Len(out) + 1 /\ SubSeq(out', 1, Len(out)) = out
                   /\ Failed(EncClauses(Cfg, items, Monitor(out), out'[Len(out')])) = {}
ContractHolds == [][ContractStep]_vars
\* a well-behaved source is one that ends after its error (properties.jsonl C03: "at most one terminal error")
\* liveness: the body reaches its end
Ends == <>(\E k \in 1..Len(out) : out[k].r = "none")
=============================================================================
