---------------------------- MODULE Trace_Status ----------------------------
(* Trace validation for the status lab (C04). Every run is one stimulus:
     rt    : status -> add_header -> from_header_map        (events built, hdrs, parsed)
     parse : arbitrary header list -> from_header_map        (events input, parsed)
     http  : HTTP status with an empty body, no trailers      (event http)
     h2    : HTTP/2 reason -> Status                          (event h2)                      *)
EXTENDS StatusCodec, TraceKit

Fresh(stim) == [stim |-> stim, rejected |-> <<>>, list |-> <<>>, seen |-> {}]
Keys == {"runs", "rt", "parse", "http", "h2", "nonascii_msg", "escaped_msg", "details_mod3_0", "details_mod3_1", "details_mod3_2",
         "undecodable_inputs", "no_status_inputs", "meta_entries"}
Init == InitK(Fresh([kind |-> "none"]), Keys)

Reset == ResetK(Fresh(E.stim)) /\ Count({"runs", E.stim.kind}
            \cup (IF E.stim.kind = "rt" /\ \E i \in 1..Len(E.stim.msg) : E.stim.msg[i] >= 128 THEN {"nonascii_msg"} ELSE {})
            \cup (IF E.stim.kind = "rt" /\ E.stim.details # <<>> THEN {IF Len(E.stim.details) % 3 = 0 THEN "details_mod3_0" ELSE IF Len(E.stim.details) % 3 = 1 THEN "details_mod3_1" ELSE "details_mod3_2"} ELSE {})
            \cup (IF E.stim.kind = "rt" /\ E.stim.meta # <<>> THEN {"meta_entries"} ELSE {}))

\* entries the implementation refused to construct are not part of the status (projection of the built value)
Accepted(meta, rejected) == SelectSeq(meta, LAMBDA m : ~\E j \in 1..Len(rejected) : rejected[j] = m)

Built == /\ Live("built") /\ UNCHANGED stats
         /\ JudgeK(<< <<"RtOnly", s.stim.kind = "rt">> >>, [s EXCEPT !.rejected = E.rejected, !.seen = @ \cup {"built"}])
Hdrs == /\ Live("hdrs")
        /\ LET meta == Accepted(s.stim.meta, s.rejected) IN
           JudgeK(<< <<"HeadersProduced", E.ok>>,
                     <<"LegalValues", AllLegal(E.list)>>,
                     <<"StatusHeader", E.ok => StatusHeaderOK(E.list, s.stim.code)>>,
                     <<"MessageHeader", E.ok => MessageHeaderOK(E.list, s.stim.msg)>>,
                     <<"DetailsHeader", E.ok => DetailsHeaderOK(E.list, s.stim.details)>>,
                     <<"MetadataCarried", E.ok => MetadataCarried(E.list, meta)>> >>,
                  [s EXCEPT !.list = E.list, !.seen = @ \cup {"hdrs"}])
        /\ Count(IF \E i \in 1..Len(E.list) : E.list[i].n = "grpc-message" /\ \E j \in 1..Len(E.list[i].v) : E.list[i].v[j] = 37 THEN {"escaped_msg"} ELSE {})
\* the same status written as the trailers-only response of into_http(): the same headers, HTTP 200,
\* content-type application/grpc, and a body that is already at its end (so that the headers frame ends the stream)
Written == /\ Live("written") /\ UNCHANGED stats
           /\ JudgeK(<< <<"IntoHttpIsATrailersOnlyResponse", E.into_http_same /\ E.http_status = 200 /\ E.ctype = << <<97, 112, 112, 108, 105, 99, 97, 116, 105, 111, 110, 47, 103, 114, 112, 99>> >> /\ E.eos>> >>, s)
Input == /\ Live("input")
         /\ JudgeK(<< <<"AllHeadersUsable", E.skipped = 0>> >>, [s EXCEPT !.list = E.list, !.seen = @ \cup {"input"}])
         /\ Count((IF ~HasName(E.list, "grpc-status") THEN {"no_status_inputs"} ELSE {})
                  \cup (IF ~MsgDecodable(E.list) \/ ~DetStrict(E.list)[1] THEN {"undecodable_inputs"} ELSE {}))
Parsed == /\ Live("parsed") /\ UNCHANGED stats
          /\ IF s.stim.kind = "rt"
             THEN LET meta == Accepted(s.stim.meta, s.rejected) st == E.st IN
                  JudgeK(<< <<"RoundTripSome", st.some>>,
                            <<"RoundTripCode", st.some => st.code = s.stim.code>>,
                            <<"RoundTripMessage", st.some => st.msg = s.stim.msg>>,
                            <<"RoundTripDetails", st.some => st.details = s.stim.details>>,
                            <<"RoundTripMetadata", st.some => MetadataReceived(st.meta, meta)>>,
                            \* "yields an equal status": nothing but the sender's own entries comes back (no transport is involved here),
                            \* in particular none of the three status headers reappears as custom metadata
                            <<"RoundTripNoForeignMetadata", st.some => \A i \in 1..Len(st.meta) : st.meta[i].n \in (MetaNames(meta) \ StatusNames)>>,
                            <<"Order", "hdrs" \in s.seen>> >>, [s EXCEPT !.seen = @ \cup {"parsed"}])
             ELSE JudgeK(ParseClauses(s.list, E.st) \o << <<"Order", "input" \in s.seen>> >>, [s EXCEPT !.seen = @ \cup {"parsed"}])
Http == /\ Live("http") /\ UNCHANGED stats
        /\ JudgeK(<< <<"HttpTable", IF s.stim.status = 200 THEN E.r = "end" ELSE (E.r = "err" /\ E.code = HttpToGrpc(s.stim.status))>> >>,
                  [s EXCEPT !.seen = @ \cup {"http"}])
H2 == /\ Live("h2") /\ UNCHANGED stats
      /\ JudgeK(<< <<"H2Table", H2OK(s.stim.reason, E.code)>> >>,
                [s EXCEPT !.seen = @ \cup {"h2"}])
End == EndK(<< <<"RunComplete", E.outcome = "ok" => (IF s.stim.kind \in {"rt", "parse"} THEN "parsed" \in s.seen \/ (s.stim.kind = "rt" /\ "hdrs" \in s.seen)
                                                     ELSE (s.stim.kind \in s.seen \/ (s.stim.kind = "h2_remote" /\ "h2" \in s.seen)))>> >>)

Known == {"reset", "built", "written", "hdrs", "input", "parsed", "http", "h2", "end"}
Next == Reset \/ Built \/ Written \/ Hdrs \/ Input \/ Parsed \/ Http \/ H2 \/ End \/ UnknownK(Known) \/ DeadSkipK
Spec == Init /\ [][Next]_kvars
=============================================================================
