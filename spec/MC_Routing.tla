----------------------------- MODULE MC_Routing -----------------------------
(* Pattern B for C10: TLC enumerates registered sets (every subset, in several registration orders) x
   request paths derived from the registered and unregistered names by mutation, evaluates the
   Contract's Dispatch on each point, and exports the table as stimuli for the real Routes.       *)
EXTENDS Routing, Json
CONSTANTS SvcU, MethU      \* the services and methods the table is built from (MC_Routing.cfg: the five short-named services; MC_Routing_long.cfg: the long-named one and a.S)
Unknown == <<88>>
Flip(b) == [i \in 1..Len(b) |-> IF IsUpper(b[i]) THEN b[i] + 32 ELSE IF b[i] >= 97 /\ b[i] <= 122 THEN b[i] - 32 ELSE b[i]]
PctDot(b) == FlattenSeq([i \in 1..Len(b) |-> IF b[i] = 46 THEN <<37, 50, 69>> ELSE <<b[i]>>])
\* the same name with its first byte percent-encoded (legal in an HTTP/2 :path, equivalent under RFC 3986 - and still not "exactly /S/M")
HexDigit(d) == IF d < 10 THEN 48 + d ELSE 55 + d
PctFirst(b) == IF b = <<>> THEN b ELSE <<37, HexDigit(b[1] \div 16), HexDigit(b[1] % 16)>> \o Tail(b)
MethAll == { MethBytes[m] : m \in MethU } \cup {Unknown}
PathsFor(s, me) ==
                 { Slash \o s \o Slash \o me, Slash \o s \o Slash \o me \o Slash, Slash \o Slash \o s \o Slash \o me,
                   Slash \o s \o Slash \o Slash \o me, Slash \o s \o Slash \o me \o Slash \o <<120>>, Slash \o s \o me,
                   Slash \o Flip(s) \o Slash \o me, Slash \o s \o Slash \o Flip(me), Slash \o s \o <<50>> \o Slash \o me,
                   Slash \o s \o <<37, 50, 70>> \o me, Slash \o PctDot(s) \o Slash \o me, Slash \o s \o Slash \o me \o <<63, 113, 61, 49>>,
                   Slash \o <<120, 46>> \o s \o Slash \o me, Slash \o s \o <<46, 120>> \o Slash \o me, Slash \o s \o Slash \o me \o <<50>>,
                   Slash \o s \o Slash \o <<32>> \o me,
                   Slash \o s \o Slash \o PctFirst(me), Slash \o PctFirst(s) \o Slash \o me, Slash \o s \o Slash \o me \o <<37, 51, 70, 120>> }
Paths == UNION { PathsFor(SvcBytes[sv], me) : sv \in SvcU, me \in MethAll }
         \cup UNION { { Slash \o SvcBytes[sv], Slash \o SvcBytes[sv] \o Slash } : sv \in SvcU }
         \cup { Slash, <<42>>, Slash \o Slash, Slash \o <<88>> \o Slash \o <<77>> }
\* registration orders: ascending, descending and one rotation of every subset
Orders(S) == LET a == SetToSeq(S) IN {a, Reverse(a)} \cup (IF Len(a) > 2 THEN {Tail(a) \o <<Head(a)>>} ELSE {})
VARIABLE pt
Init == \E S \in SUBSET SvcU : \E o \in Orders(S) : \E p \in Paths : pt = [reg |-> o, path |-> p]
Next == UNCHANGED pt
Spec == Init /\ [][Next]_pt
RegSet == { pt.reg[i] : i \in 1..Len(pt.reg) }
TableOK == Cardinality(Target(pt.path, RegSet)) <= 1       \* Dispatch is a function: no path names two methods
Export == PrintT(<<"SCRIPT", ToJson([reg |-> pt.reg, path |-> pt.path, dispatches |-> Target(pt.path, RegSet) # {}])>>)
=============================================================================
