------------------------------ MODULE TraceKit ------------------------------
(* Shared skeleton of the trace-validation specifications (pattern C).
   The trace is an ndjson file named by the environment variable TRACE. A `reset` event starts a
   run and carries the stimulus; each further event is consumed by exactly one action of the
   including module, which evaluates named Contract clauses on it. A violated clause marks the
   run dead (its remaining events are skipped) and is recorded in `bad`; validation then goes on
   with the next run, so one pass reports every violating run.  Acceptance = all events consumed. *)
EXTENDS Naturals, Sequences, FiniteSets, TLC, Json, IOUtils

Rec == ndJsonDeserialize(IOEnv.TRACE)
ASSUME TLCSet(1, <<>>)

VARIABLES l,      \* index of the next event
          run,    \* id of the current run
          dead,   \* the current run already violated a clause
          bad,    \* sequence of [run, ev, clauses]
          s,      \* per-run monitor state (module specific record)
          stats   \* [key -> count] non-triviality counters
kvars == <<l, run, dead, bad, s, stats>>

E == Rec[l]
Has(r, f) == f \in DOMAIN r
\* Clauses listed (one JSON record {"c": name} per line) in the file named by the environment variable SKIPFILE are not judged: a
\* property's check first validates with every clause; if a run was ended by clauses of sibling properties only, the rest of
\* that run has not been judged for the property itself, and the driver validates again with those sibling clauses skipped.
SkipRec == ndJsonDeserialize(IOEnv.SKIPFILE)
SkipSet == { SkipRec[i].c : i \in 1..Len(SkipRec) }
FailedOf(cl) == { cl[i][1] : i \in { j \in 1..Len(cl) : ~cl[j][2] } } \ SkipSet

InitK(fresh, keys) == l = 1 /\ run = 0 /\ dead = FALSE /\ bad = <<>> /\ s = fresh /\ stats = [k \in keys |-> 0]
Count(keys) == stats' = [k \in DOMAIN stats |-> stats[k] + (IF k \in keys THEN 1 ELSE 0)]
Live(e) == l <= Len(Rec) /\ ~dead /\ E.e = e /\ l' = l + 1 /\ UNCHANGED run
\* evaluate clauses (sequence of <<name, holds>>); on success move the monitor to `news`
JudgeK(cl, news) ==
  LET f == FailedOf(cl) IN
  IF f = {} THEN s' = news /\ UNCHANGED <<dead, bad>>
  ELSE dead' = TRUE /\ bad' = Append(bad, [run |-> run, ev |-> l, clauses |-> f]) /\ UNCHANGED s
ResetK(fresh) == /\ l <= Len(Rec) /\ E.e = "reset"
                 /\ run' = E.run /\ dead' = FALSE /\ s' = fresh /\ l' = l + 1 /\ UNCHANGED bad
UnknownK(known) == /\ l <= Len(Rec) /\ ~dead /\ E.e \notin known
                   /\ dead' = TRUE /\ bad' = Append(bad, [run |-> run, ev |-> l, clauses |-> {"UnknownEvent"}]) /\ l' = l + 1
                   /\ UNCHANGED <<run, s, stats>>
DeadSkipK == l <= Len(Rec) /\ dead /\ E.e # "reset" /\ l' = l + 1 /\ UNCHANGED <<run, dead, bad, s, stats>>
\* every run ends with an `end` event whose outcome is data: a panic or hang of the code under test is a violation
EndK(extra) == /\ Live("end") /\ UNCHANGED stats
               /\ JudgeK(<< <<"NoPanic", E.outcome # "panic">>, <<"NoHang", E.outcome # "hang">> >> \o extra, s)

AtEnd == l = Len(Rec) + 1 => TLCSet(1, <<l - 1, bad, stats>>)
Post == LET r == TLCGet(1) IN
        PrintT(<<"TRACE_RESULT", ToJson([consumed |-> IF r = <<>> THEN 0 ELSE r[1], total |-> Len(Rec),
                                         bad |-> IF r = <<>> THEN <<>> ELSE r[2],
                                         stats |-> IF r = <<>> THEN [runs |-> 0] ELSE r[3]])>>)
=============================================================================
