--------------------------- MODULE Trace_Intercept ---------------------------
(* C12: interceptors change only what they change and can veto a call.
   Contract (Accept): the wrapped service receives the interceptor's metadata and extensions together
   with the original URI, method, version, every header the interceptor did not touch (reserved names
   included, repeated values in order) and the untouched body.  Contract (Reject): the wrapped service
   is never invoked and the caller receives exactly that status as a trailers-only gRPC response.
   The header multimap after the interceptor is computed here by folding the recorded actions over the
   recorded request headers (per-name ordered multimap; binary values compared after base64 decoding). *)
EXTENDS Call, TraceKit

\* expected entries: [n, v, raw]  raw = TRUE: v are the bytes of a binary value (wire carries base64 of them)
Lift(list) == [i \in 1..Len(list) |-> [n |-> list[i].n, v |-> list[i].v, raw |-> FALSE]]
Without(x, n) == SelectSeq(x, LAMBDA h : h.n # n)
Apply(x, a) == CASE a.op \in {"insert"}       -> Append(Without(x, a.n), [n |-> a.n, v |-> a.v, raw |-> FALSE])
                 [] a.op \in {"append"}       -> Append(x, [n |-> a.n, v |-> a.v, raw |-> FALSE])
                 [] a.op \in {"insert_bin"}   -> Append(Without(x, a.n), [n |-> a.n, v |-> a.v, raw |-> TRUE])
                 [] a.op \in {"append_bin"}   -> Append(x, [n |-> a.n, v |-> a.v, raw |-> TRUE])
                 [] a.op = "remove"           -> Without(x, a.n)
                 [] OTHER                     -> x
\* actions actually applied (construction of an invalid key/value is refused by the metadata API: projection flag)
AppliedActs(actions, flags) == LET idx == SelectSeq([i \in 1..Len(flags) |-> i], LAMBDA i : flags[i]) IN [j \in 1..Len(idx) |-> actions[idx[j]]]
Expected(list, acts) == FoldLeft(Apply, Lift(list), acts)
NamesX(x) == { x[i].n : i \in 1..Len(x) }
SameMultimap(got, exp) ==
  /\ { got[i].n : i \in 1..Len(got) } = NamesX(exp)
  /\ \A n \in NamesX(exp) :
       LET e == SelectSeq(exp, LAMBDA h : h.n = n) g == Values(got, n) IN
       /\ Len(g) = Len(e)
       /\ \A i \in 1..Len(e) : IF e[i].raw THEN B64Decode(g[i]) = <<TRUE, e[i].v>> ELSE g[i] = e[i].v
Rejecting(acts) == \E i \in 1..Len(acts) : acts[i].op = "reject"
RejectOf(acts) == acts[CHOOSE i \in 1..Len(acts) : acts[i].op = "reject"]
WantsExt(acts) == \E i \in 1..Len(acts) : acts[i].op = "ext"
\* the two extension slots after the interceptor: ExtA (5 if the request carried it) and ExtB, folded over the actions
ExtStep(x, a) == CASE a.op = "ext" -> [x EXCEPT !.b = 7] [] a.op = "ext_remove" -> [x EXCEPT !.a = -1]
                   [] a.op = "ext_replace" -> [x EXCEPT !.a = 9] [] a.op = "fresh" -> [a |-> -1, b |-> -1] [] OTHER -> x
ExtAfter(stim, acts) == FoldLeft(ExtStep, [a |-> IF stim.req.ext_a THEN 5 ELSE -1, b |-> -1], acts)

Fresh(stim) == [stim |-> stim, sent |-> [none |-> TRUE], acts |-> <<>>, icpt |-> FALSE, inner |-> 0, resp |-> FALSE]
Keys == {"runs", "accept", "reject", "with_reserved_headers", "with_repeated_headers", "non_post", "http11", "with_binary_action"}
Init == InitK(Fresh([class |-> "none"]), Keys)
ReservedIn(list) == \E i \in 1..Len(list) : list[i].n \in Reserved
RepeatedIn(list) == \E i, j \in 1..Len(list) : i # j /\ list[i].n = list[j].n
Reset == ResetK(Fresh(E.stim))
         /\ Count({"runs"} \cup (IF Rejecting(E.stim.actions) THEN {"reject"} ELSE {"accept"})
                  \cup (IF ReservedIn(E.stim.req.headers) THEN {"with_reserved_headers"} ELSE {})
                  \cup (IF RepeatedIn(E.stim.req.headers) THEN {"with_repeated_headers"} ELSE {})
                  \cup (IF E.stim.req.method # "POST" THEN {"non_post"} ELSE {})
                  \cup (IF E.stim.req.version # "HTTP/2.0" THEN {"http11"} ELSE {})
                  \cup (IF \E i \in 1..Len(E.stim.actions) : E.stim.actions[i].op \in {"insert_bin", "append_bin"} THEN {"with_binary_action"} ELSE {}))
Sent == /\ Live("sent") /\ UNCHANGED stats
        /\ JudgeK(<< <<"HarnessOK", E.skipped = 0>> >>, [s EXCEPT !.sent = E])
Icpt == /\ Live("icpt") /\ UNCHANGED stats
        /\ JudgeK(<< <<"C12.InterceptorSeesExtensions", (E.saw_ext_a # -1) <=> s.stim.req.ext_a>>,
                     <<"C12.InterceptorRunsOnce", ~s.icpt>> >>,
                  [s EXCEPT !.acts = AppliedActs(s.stim.actions, E.applied), !.icpt = TRUE])
Inner == /\ Live("inner_req") /\ UNCHANGED stats
         /\ JudgeK(<< <<"C12.VetoedCallNeverReachesService", ~Rejecting(s.acts)>>,
                      <<"C12.ServiceInvokedOnce", s.inner = 0>>,
                      <<"C12.UriMethodVersionKept", E.uri = s.sent.uri /\ E.method = s.stim.req.method /\ E.version = s.stim.req.version>>,
                      <<"C12.BodyUntouched", E.body = s.stim.req.body>>,
                      <<"C12.HeadersAreInterceptorsResult", SameMultimap(E.list, Expected(s.sent.list, s.acts))>>,
                      <<"C12.ExtensionsAreInterceptorsResult", E.ext_a = ExtAfter(s.stim, s.acts).a /\ E.ext_b = ExtAfter(s.stim, s.acts).b>>,
                      <<"C12.InterceptorConsultedBeforeService", s.icpt>> >>,
                   [s EXCEPT !.inner = @ + 1])
Resp == /\ Live("resp") /\ UNCHANGED stats
        /\ IF Rejecting(s.acts)
           THEN LET r == RejectOf(s.acts) IN
                JudgeK(<< <<"C12.VetoIsTrailersOnlyGrpcResponse", E.status = 200 /\ Values(E.list, "content-type") = <<S_appgrpc>> /\ E.body = <<>> /\ E.trailers = 0 /\ E.eos>>,   \* eos: the body reports its end before it is polled, so the headers frame carries END_STREAM
                          <<"C12.VetoCarriesExactlyThatStatus", /\ StatusHeaderOK(E.list, r.code) /\ MessageHeaderOK(E.list, r.msg) /\ DetailsHeaderOK(E.list, r.details)
                                                                /\ MetadataCarried(E.list, r.meta) /\ AllLegal(E.list)>>,
                          <<"C12.VetoedCallNeverReachesService", s.inner = 0>> >>, [s EXCEPT !.resp = TRUE])
           ELSE JudgeK(<< <<"C12.AcceptedCallReachesService", s.inner = 1>> >>, [s EXCEPT !.resp = TRUE])
End == EndK(<< <<"RunComplete", E.outcome = "ok" => s.resp>> >>)
Known == {"reset", "sent", "icpt", "inner_req", "resp", "end"}
Next == Reset \/ Sent \/ Icpt \/ Inner \/ Resp \/ End \/ UnknownK(Known) \/ DeadSkipK
Spec == Init /\ [][Next]_kvars
=============================================================================
