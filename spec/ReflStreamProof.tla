--------------------------- MODULE ReflStreamProof ---------------------------
(* TLAPS proof that the Mechanism model of one ServerReflectionInfo stream (ReflStream.tla) keeps the answers in the order of
   the queries and lets nothing follow an error answer, for sessions of ANY length (TLC explores sessions of up to 5 queries):
     THEOREM Safety == Spec => [](AnswersInOrder /\ NothingAfterError)
   under the assumption that the worker waits for room in the channel (BlockingSend = TRUE).                            *)
EXTENDS ReflStream, SequenceTheorems, TLAPS

ASSUME ConstAssump == Sessions \subseteq Seq({"H", "M"}) /\ BlockingSend = TRUE

ItemRec == [k : {"ans", "err"}, i : Nat]
\* how many queries the worker has taken
P == Len(got) + Len(chan) + (IF w.pc = "send" THEN 1 ELSE 0)
TypeInv == /\ qs \in Seq({"H", "M"}) /\ sent \in 0..Len(qs) /\ inq \in Seq(Nat) /\ closed \in BOOLEAN /\ ended \in BOOLEAN
           /\ got \in Seq(ItemRec) /\ chan \in Seq(ItemRec) /\ Len(chan) <= 1
           /\ w \in [pc : {"recv", "send", "done"}, item : ItemRec \cup {None}]
Aux == /\ \A k \in 1..Len(got) : got[k] = Item(k)
       /\ \A j \in 1..Len(chan) : chan[j] = Item(Len(got) + j)
       /\ w.pc = "send" => w.item = Item(P)
       /\ P <= sent
       /\ w.pc # "done" => (Len(inq) = sent - P /\ \A j \in 1..Len(inq) : inq[j] = P + j)
       /\ \A k \in 1..P : qs[k] = "M" => (k = P /\ w.pc \in {"send", "done"})
IndInv == TypeInv /\ Aux

LEMMA ItemType == ASSUME TypeInv, NEW i \in 1..Len(qs) PROVE Item(i) \in ItemRec
  BY DEF TypeInv, Item, ItemRec

LEMMA InitInv == Init => IndInv
  BY ConstAssump DEF Init, IndInv, TypeInv, Aux, P, None, ItemRec

LEMMA Step == ASSUME IndInv, Next PROVE IndInv'
<1> USE ConstAssump DEF IndInv
<1>0. P \in Nat /\ Len(got) \in Nat /\ Len(chan) \in Nat /\ Len(inq) \in Nat /\ Len(qs) \in Nat BY DEF TypeInv, P
<1>1. CASE ClientSend
  <2>1. sent' = sent + 1 /\ inq' = Append(inq, sent + 1) /\ UNCHANGED <<qs, closed, w, chan, got, ended>> /\ sent < Len(qs) BY <1>1 DEF ClientSend
  <2>2. P' = P BY <2>1 DEF P
  <2>3. TypeInv' BY <2>1 DEF TypeInv
  <2>4. Aux'
    <3>1. w.pc # "done" => (Len(inq') = sent' - P' /\ \A j \in 1..Len(inq') : inq'[j] = P' + j)
      BY <2>1, <2>2, <1>0 DEF Aux, TypeInv
    <3> QED BY <2>1, <2>2, <3>1, <1>0 DEF Aux, TypeInv, Item
  <2> QED BY <2>3, <2>4
<1>2. CASE ClientClose
  BY <1>2 DEF ClientClose, TypeInv, Aux, P, Item
<1>3. CASE WorkerTake
  <2>1. w.pc = "recv" /\ inq # <<>> /\ w' = [pc |-> "send", item |-> Item(Head(inq))] /\ inq' = Tail(inq) /\ UNCHANGED <<qs, sent, closed, chan, got, ended>>
    BY <1>3 DEF WorkerTake
  <2>2. Len(inq) >= 1 /\ Head(inq) = P + 1 /\ Len(inq) = sent - P BY <2>1, <1>0 DEF Aux, TypeInv
  <2>3. P' = P + 1 BY <2>1, <1>0 DEF P, TypeInv
  <2>4. P + 1 \in 1..Len(qs) BY <2>2, <1>0 DEF TypeInv
  <2>5. TypeInv' BY <2>1, <2>2, <2>4, ItemType DEF TypeInv
  <2>6. Aux'
    <3>1. \A j \in 1..Len(inq') : inq'[j] = P' + j BY <2>1, <2>2, <2>3, <1>0 DEF Aux, TypeInv
    <3>2. Len(inq') = sent' - P' BY <2>1, <2>2, <2>3, <1>0 DEF TypeInv
    <3>3. \A k \in 1..P' : qs'[k] = "M" => (k = P' /\ w'.pc \in {"send", "done"})
      BY <2>1, <2>3, <1>0 DEF Aux
    <3>4. \A k \in 1..Len(got') : got'[k] = Item(k) BY <2>1 DEF Aux, Item
    <3>5. \A j \in 1..Len(chan') : chan'[j] = Item(Len(got') + j) BY <2>1 DEF Aux, Item
    <3>6. w'.pc = "send" => w'.item = Item(P') BY <2>1, <2>2, <2>3 DEF Item
    <3>7. P' <= sent' BY <2>1, <2>2, <2>3, <1>0 DEF TypeInv
    <3>8. w'.pc # "done" => (Len(inq') = sent' - P' /\ \A j \in 1..Len(inq') : inq'[j] = P' + j) BY <3>1, <3>2
    <3> QED BY <2>1, <3>3, <3>4, <3>5, <3>6, <3>7, <3>8 DEF Aux, Item
  <2> QED BY <2>5, <2>6
<1>4. CASE WorkerEof
  BY <1>4 DEF WorkerEof, TypeInv, Aux, P, Item, None, ItemRec
<1>5. CASE WorkerSend
  <2>1. w.pc = "send" /\ Len(chan) < 1 /\ chan' = Append(chan, w.item) /\ w' = [pc |-> IF w.item.k = "err" THEN "done" ELSE "recv", item |-> None]
        /\ UNCHANGED <<qs, sent, inq, closed, got, ended>>
    BY <1>5 DEF WorkerSend
  <2>2. chan = <<>> /\ w.item = Item(P) /\ P = Len(got) + 1 BY <2>1, <1>0 DEF Aux, TypeInv, P
  <2>3. P' = P
    <3>1. Len(chan') = 1 BY <2>1, <2>2
    <3>2. w'.pc # "send" BY <2>1
    <3> QED BY <2>1, <2>2, <3>1, <3>2, <1>0 DEF P
  <2>4. w.item \in ItemRec /\ P \in 1..Len(qs) BY <2>1, <2>2, <1>0, ItemType DEF Aux, TypeInv
  <2>5. TypeInv' BY <2>1, <2>2, <2>4 DEF TypeInv, None
  <2>6. Aux'
    <3>1. (w.item.k = "err") <=> qs[P] = "M" BY <2>2, <2>4 DEF Item, TypeInv
    <3>2. Len(chan') = 1 /\ chan'[1] = Item(P) BY <2>1, <2>2, <2>4
    <3>3. \A k \in 1..Len(got') : got'[k] = Item(k) BY <2>1 DEF Aux, Item
    <3>4. \A j \in 1..Len(chan') : chan'[j] = Item(Len(got') + j) BY <2>1, <2>2, <3>2, <1>0 DEF Item
    <3>5. w'.pc # "send" BY <2>1
    <3>6. P' <= sent' BY <2>1, <2>3 DEF Aux
    <3>7. w'.pc # "done" => (Len(inq') = sent' - P' /\ \A j \in 1..Len(inq') : inq'[j] = P' + j) BY <2>1, <2>3 DEF Aux
    <3>8. \A k \in 1..P' : qs'[k] = "M" => (k = P' /\ w'.pc \in {"send", "done"}) BY <2>1, <2>3, <3>1 DEF Aux
    <3> QED BY <2>1, <3>3, <3>4, <3>5, <3>6, <3>7, <3>8 DEF Aux, Item
  <2> QED BY <2>5, <2>6
<1>6. CASE WorkerGiveUp
  BY <1>6 DEF WorkerGiveUp
<1>7. CASE ClientRecv
  <2>1. ~ended /\ chan # <<>> /\ got' = Append(got, Head(chan)) /\ chan' = Tail(chan) /\ UNCHANGED <<qs, sent, inq, closed, w, ended>>
    BY <1>7 DEF ClientRecv
  <2>2. Len(chan) = 1 /\ Head(chan) = Item(Len(got) + 1) /\ Head(chan) \in ItemRec BY <2>1, <1>0 DEF Aux, TypeInv
  <2>3. P' = P BY <2>1, <2>2, <1>0 DEF P, TypeInv
  <2>4. TypeInv' BY <2>1, <2>2 DEF TypeInv
  <2>5. Aux'
    <3>0. chan' = <<>> /\ Len(got') = Len(got) + 1 /\ got'[Len(got) + 1] = Item(Len(got) + 1) /\ (\A k \in 1..Len(got) : got'[k] = got[k])
      BY <2>1, <2>2, <1>0 DEF TypeInv
    <3>1. \A k \in 1..Len(got') : got'[k] = Item(k) BY <2>1, <3>0, <1>0 DEF Aux, Item
    <3>2. \A j \in 1..Len(chan') : chan'[j] = Item(Len(got') + j) BY <3>0
    <3>3. w'.pc = "send" => w'.item = Item(P') BY <2>1, <2>3 DEF Aux, Item
    <3>4. P' <= sent' BY <2>1, <2>3 DEF Aux
    <3>5. w'.pc # "done" => (Len(inq') = sent' - P' /\ \A j \in 1..Len(inq') : inq'[j] = P' + j) BY <2>1, <2>3 DEF Aux
    <3>6. \A k \in 1..P' : qs'[k] = "M" => (k = P' /\ w'.pc \in {"send", "done"}) BY <2>1, <2>3 DEF Aux
    <3> QED BY <2>1, <3>1, <3>2, <3>3, <3>4, <3>5, <3>6 DEF Aux, Item
  <2> QED BY <2>4, <2>5
<1>8. CASE ClientSeesEnd
  BY <1>8 DEF ClientSeesEnd, TypeInv, Aux, P, Item
<1> QED BY <1>1, <1>2, <1>3, <1>4, <1>5, <1>6, <1>7, <1>8 DEF Next

LEMMA Stutter == IndInv /\ UNCHANGED vars => IndInv'
  BY DEF IndInv, TypeInv, Aux, P, Item, vars

LEMMA Implies == IndInv => (AnswersInOrder /\ NothingAfterError)
<1> SUFFICES ASSUME IndInv PROVE AnswersInOrder /\ NothingAfterError OBVIOUS
<1>1. AnswersInOrder BY DEF IndInv, Aux, AnswersInOrder
<1>2. NothingAfterError
  <2> SUFFICES ASSUME NEW k \in 1..Len(got), got[k].k = "err" PROVE k = Len(got) BY DEF NothingAfterError
  <2>1. got[k] = Item(k) /\ Len(got) \in Nat /\ Len(chan) \in Nat BY DEF IndInv, Aux, TypeInv
  <2>3. k \in 1..P BY <2>1 DEF P, IndInv, TypeInv
  <2>5. k \in 1..Len(qs) /\ qs[k] \in {"H", "M"} BY <2>1, <2>3 DEF IndInv, Aux, TypeInv, P
  <2>2. qs[k] = "M" BY <2>1, <2>5 DEF Item
  <2>4. k = P BY <2>2, <2>3 DEF IndInv, Aux
  <2> QED BY <2>1, <2>4 DEF P
<1> QED BY <1>1, <1>2

THEOREM Inductive == Spec => []IndInv
<1>1. IndInv /\ [Next]_vars => IndInv' BY Step, Stutter
<1> QED BY <1>1, InitInv, PTL DEF Spec

THEOREM Safety == Spec => [](AnswersInOrder /\ NothingAfterError)
<1> QED BY Implies, Inductive, PTL
=============================================================================
