SPECIFICATION Spec
CONSTANTS
  SvcU = {"long", "a.S"}
  MethU = {"M", "m", "L63", "L64", "L65", "L128", "L129", "L300"}
INVARIANTS TableOK Export
CHECK_DEADLOCK FALSE
