--------------------------- MODULE ShutdownProof ---------------------------
(* TLAPS proof that the Mechanism model of graceful shutdown (Shutdown.tla) satisfies the safety part of the C13 Contract
   for ANY number of connections and calls, any assignment of calls to connections and any stream lengths - i.e. beyond
   the three topologies TLC explores exhaustively.  Checked by `tlapm ShutdownProof.tla` (bin/check C13 --tier thorough).
     THEOREM Safety:  Spec => [](NoLoss /\ ResolveLate)   and   Spec => NoAcceptAfter
   under the assumptions that the code's two mechanisms are in place (WaitForConns, DrainGracefully).             *)
EXTENDS Shutdown, TLAPS

ASSUME ConstAssump == /\ ConnOf \in [Calls -> Conns]
                      /\ Items \in [Calls -> Nat]
                      /\ WaitForConns = TRUE /\ DrainGracefully = TRUE /\ Aging \in BOOLEAN

Phase == {"unsent", "sent", "accepted", "done", "failed"}
CallRec == [ph : Phase, left : Nat, acc : BOOLEAN]
TypeOK == /\ sig \in {"idle", "fired", "observed"}
          /\ conn \in [Conns -> {"none", "offered", "open", "draining", "closed"}]
          /\ call \in [Calls -> CallRec]
          /\ bcast \in BOOLEAN /\ resolved \in BOOLEAN /\ dropped \subseteq Conns /\ ended \in BOOLEAN
NotYetAccepted == \A k \in Calls : call[k].ph \in {"unsent", "sent"} => ~call[k].acc
BcastAfterObserve == bcast => sig = "observed"
ResolvedMeans == resolved => (bcast /\ \A c \in Conns : conn[c] \in {"none", "offered", "closed"})
IndInv == TypeOK /\ NotYetAccepted /\ NoLoss /\ BcastAfterObserve /\ ResolvedMeans

LEMMA InitInv == Init => IndInv
  BY ConstAssump DEF Init, IndInv, TypeOK, NotYetAccepted, NoLoss, BcastAfterObserve, ResolvedMeans, CallRec, Phase

LEMMA EnvStep == IndInv /\ Env => IndInv'
<1> SUFFICES ASSUME IndInv, Env PROVE IndInv' OBVIOUS
<1> USE ConstAssump DEF IndInv, TypeOK, NotYetAccepted, NoLoss, BcastAfterObserve, ResolvedMeans, CallRec, Phase
<1>1. ASSUME NEW c \in Conns, Offer(c) PROVE IndInv' BY <1>1 DEF Offer
<1>2. ASSUME NEW c \in Conns, ClientDrop(c) PROVE IndInv' BY <1>2 DEF ClientDrop
<1>3. ASSUME NEW c \in Conns, Age(c) PROVE IndInv' BY <1>3 DEF Age
<1>4. ASSUME NEW k \in Calls, Send(k) PROVE IndInv' BY <1>4 DEF Send
<1>5. ASSUME NEW k \in Calls, Release(k) PROVE IndInv' BY <1>5 DEF Release
<1>6. ASSUME Fire PROVE IndInv' BY <1>6 DEF Fire
<1>7. ASSUME EndIncoming PROVE IndInv' BY <1>7 DEF EndIncoming
<1> QED BY <1>1, <1>2, <1>3, <1>4, <1>5, <1>6, <1>7 DEF Env

LEMMA SysStep == IndInv /\ Sys => IndInv'
<1> SUFFICES ASSUME IndInv, Sys PROVE IndInv' OBVIOUS
<1> USE ConstAssump DEF IndInv, TypeOK, NotYetAccepted, NoLoss, BcastAfterObserve, ResolvedMeans, CallRec, Phase
<1>1. ASSUME NEW c \in Conns, Accept(c) PROVE IndInv' BY <1>1 DEF Accept
<1>2. ASSUME NEW c \in Conns, SeeSignal(c) PROVE IndInv' BY <1>2 DEF SeeSignal
<1>3. ASSUME NEW c \in Conns, Close(c) PROVE IndInv' BY <1>3 DEF Close
<1>4. ASSUME NEW c \in Conns, DeadClose(c) PROVE IndInv' BY <1>4 DEF DeadClose
<1>5. ASSUME NEW c \in Conns, Teardown(c) PROVE IndInv' BY <1>5 DEF Teardown
<1>6. ASSUME NEW c \in Conns, Abandon(c) PROVE IndInv' BY <1>6 DEF Abandon
<1>7. ASSUME NEW k \in Calls, ServerAccept(k) PROVE IndInv' BY <1>7 DEF ServerAccept
<1>8. ASSUME NEW k \in Calls, LateStream(k) PROVE IndInv' BY <1>8 DEF LateStream
<1>9. ASSUME Observe PROVE IndInv' BY <1>9 DEF Observe
<1>10. ASSUME ObserveEnd PROVE IndInv' BY <1>10 DEF ObserveEnd
<1>11. ASSUME Broadcast PROVE IndInv' BY <1>11 DEF Broadcast
<1>12. ASSUME Resolve PROVE IndInv' BY <1>12 DEF Resolve
<1> QED BY <1>1, <1>2, <1>3, <1>4, <1>5, <1>6, <1>7, <1>8, <1>9, <1>10, <1>11, <1>12 DEF Sys

LEMMA Stutter == IndInv /\ UNCHANGED vars => IndInv'
  BY DEF IndInv, TypeOK, NotYetAccepted, NoLoss, BcastAfterObserve, ResolvedMeans, vars

THEOREM Inductive == Spec => []IndInv
<1>1. IndInv /\ [Next]_vars => IndInv' BY EnvStep, SysStep, Stutter DEF Next
<1> QED BY <1>1, InitInv, PTL DEF Spec

THEOREM Safety == Spec => [](NoLoss /\ ResolveLate)
<1>1. IndInv => NoLoss /\ ResolveLate BY DEF IndInv, ResolvedMeans, ResolveLate
<1> QED BY <1>1, Inductive, PTL

\* no connection is accepted once the loop has observed the signal: only Accept opens a connection, and it needs sig # "observed"
THEOREM NoAccept == Spec => NoAcceptAfter
<1>1. IndInv /\ [Next]_vars => [\A c \in Conns : (sig = "observed" /\ conn[c] = "offered") => conn'[c] # "open"]_vars
  <2> SUFFICES ASSUME IndInv, Next, NEW c \in Conns, sig = "observed", conn[c] = "offered" PROVE conn'[c] # "open"
      BY DEF vars
  <2> USE ConstAssump DEF IndInv, TypeOK
  <2>1. CASE Env BY <2>1 DEF Env, Offer, ClientDrop, Age, Send, Release, Fire, EndIncoming
  <2>2. CASE Sys BY <2>2 DEF Sys, Accept, SeeSignal, Close, DeadClose, Teardown, Abandon, ServerAccept, LateStream, Observe, ObserveEnd, Broadcast, Resolve
  <2> QED BY <2>1, <2>2 DEF Next
<1> QED BY <1>1, Inductive, PTL DEF Spec, NoAcceptAfter
=============================================================================
