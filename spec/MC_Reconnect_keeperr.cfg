SPECIFICATION Spec
CONSTANTS
  Scripts <- ScriptsDef
  Lazy = TRUE
  MaxCalls = 5
  TakeError = FALSE
  SetConnected = TRUE
INVARIANTS Contract EagerOK
PROPERTY AlwaysAnswers
CHECK_DEADLOCK FALSE
