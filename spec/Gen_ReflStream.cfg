SPECIFICATION GSpec
CONSTANTS
  Sessions <- S3
  BlockingSend = TRUE
INVARIANT Export
CHECK_DEADLOCK FALSE
