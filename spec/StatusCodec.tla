---------------------------- MODULE StatusCodec ----------------------------
(* Contract of the status <-> header codec and of the classification tables (C04; reused by C02,
   C12, C20).  Written from PROTOCOL-HTTP2.md ("Status", "Status-Message" = percent-encoded UTF-8,
   binary headers = base64) and http-grpc-status-mapping.md, not from tonic.
   A header list is a sequence of [n (name, string), v (value bytes)].                           *)
EXTENDS Bytes

CodeNames == 0..16
UNKNOWN == 2
\* grpc-status value -> code: exactly the 17 canonical decimal spellings, everything else UNKNOWN
CodeOf(v) == IF \E c \in CodeNames : v = DecDigits(c) THEN CHOOSE c \in CodeNames : v = DecDigits(c) ELSE UNKNOWN

\* HTTP status -> gRPC code when no grpc-status is available (http-grpc-status-mapping.md)
HttpToGrpc(h) == CASE h = 400 -> 13 [] h = 401 -> 16 [] h = 403 -> 7 [] h = 404 -> 12
                   [] h \in {429, 502, 503, 504} -> 14 [] OTHER -> UNKNOWN
\* HTTP/2 error code -> gRPC code (PROTOCOL-HTTP2.md "Errors"); strict where the property names the code
H2Strict == (0 :> 13) @@ (1 :> 13) @@ (2 :> 13) @@ (3 :> 13) @@ (4 :> 13) @@ (9 :> 13) @@ (10 :> 13)
            @@ (7 :> 14) @@ (8 :> 1) @@ (11 :> 8) @@ (12 :> 7)
H2OK(reason, code) == IF reason \in DOMAIN H2Strict THEN code = H2Strict[reason] ELSE code \in {13, UNKNOWN}

Values(list, name) == LET sel == SelectSeq(list, LAMBDA h : h.n = name) IN [i \in 1..Len(sel) |-> sel[i].v]
HasName(list, name) == \E i \in 1..Len(list) : list[i].n = name

\* ---- writing a status
StatusHeaderOK(list, code) == Values(list, "grpc-status") = << DecDigits(code) >>
MessageHeaderOK(list, msg) ==
  LET ms == Values(list, "grpc-message") IN
  IF msg = <<>> THEN ms = <<>> \/ (Len(ms) = 1 /\ PctDecode(ms[1]) = <<>>)
  ELSE Len(ms) = 1 /\ PctWireOK(ms[1]) /\ PctStrictEscapes(ms[1]) /\ PctDecode(ms[1]) = msg
DetailsHeaderOK(list, details) ==
  LET ds == Values(list, "grpc-status-details-bin") IN
  IF details = <<>> THEN ds = <<>> \/ (Len(ds) = 1 /\ B64Decode(ds[1]) = <<TRUE, <<>>>>)
  ELSE Len(ds) = 1 /\ B64Decode(ds[1]) = <<TRUE, details>>
AllLegal(list) == \A i \in 1..Len(list) : HeaderValueLegal(list[i].v)

\* ---- metadata entries: [n, bin, v]; on the wire binary values are base64 (padded or not)
Reserved == {"te", "user-agent", "content-type", "grpc-status", "grpc-message", "grpc-message-type"}
StatusNames == {"grpc-status", "grpc-message", "grpc-status-details-bin"}
MetaNames(meta) == { meta[i].n : i \in 1..Len(meta) }
MetaVals(meta, name) == LET sel == SelectSeq(meta, LAMBDA m : m.n = name) IN [i \in 1..Len(sel) |-> sel[i].v]
WireCarries(list, meta, name, bin) ==
  LET want == MetaVals(meta, name) got == Values(list, name) IN
  /\ Len(got) = Len(want)
  /\ \A i \in 1..Len(want) : IF bin THEN B64Decode(got[i]) = <<TRUE, want[i]>> ELSE got[i] = want[i]
IsBinOf(meta, name) == \E i \in 1..Len(meta) : meta[i].n = name /\ meta[i].bin
MetadataCarried(list, meta) == \A n \in MetaNames(meta) \ (Reserved \cup StatusNames) : WireCarries(list, meta, n, IsBinOf(meta, n))
\* decoded metadata on the receiving side contains the sender's entries (superset: transports add headers)
MetadataReceived(got, meta) == \A n \in MetaNames(meta) \ (Reserved \cup StatusNames) :
                                  /\ MetaVals(got, n) = MetaVals(meta, n)
                                  /\ \A i \in 1..Len(got) : got[i].n = n => (got[i].ok /\ got[i].bin = IsBinOf(meta, n))

\* ---- reading arbitrary headers
FirstOr(list, name, dflt) == LET vs == Values(list, name) IN IF vs = <<>> THEN dflt ELSE vs[1]
MsgDecodable(list) == Utf8OK(PctDecode(FirstOr(list, "grpc-message", <<>>)))
DetStrict(list) == B64Decode(FirstOr(list, "grpc-status-details-bin", <<>>))
DetLenient(list) == B64DecodeLenient(FirstOr(list, "grpc-status-details-bin", <<>>))
ParsedExactly(list, st, det) == /\ st.code = CodeOf(FirstOr(list, "grpc-status", <<>>))
                                /\ st.msg = PctDecode(FirstOr(list, "grpc-message", <<>>))
                                /\ st.details = det
ParseClauses(list, st) ==
  << <<"NoneIffNoStatus", st.some <=> HasName(list, "grpc-status")>>,
     <<"DecodableIsExact", (st.some /\ MsgDecodable(list) /\ DetStrict(list)[1]) => ParsedExactly(list, st, DetStrict(list)[2])>>,
     <<"UndecodableDegrades", (st.some /\ (~MsgDecodable(list) \/ ~DetLenient(list)[1])) => st.code # 0>>,
     <<"LenientOrDegrades", (st.some /\ MsgDecodable(list) /\ ~DetStrict(list)[1] /\ DetLenient(list)[1]) =>
                               (st.code # 0 \/ ParsedExactly(list, st, DetLenient(list)[2]))>> >>

StatusCodecSelfTest ==
  /\ CodeOf(<<49, 54>>) = 16 /\ CodeOf(<<48, 48>>) = 2 /\ CodeOf(<<>>) = 2 /\ CodeOf(<<55>>) = 7
  /\ HttpToGrpc(503) = 14 /\ HttpToGrpc(418) = 2 /\ H2OK(8, 1) /\ ~H2OK(8, 13) /\ H2OK(6, 2) /\ H2OK(6, 13)
=============================================================================
