SPECIFICATION Spec
CONSTANTS
  Keys = {"k1", "k2"}
  Srvs = {"a", "b"}
  None = "-"
  MaxSteps = 6
  DrainAll = TRUE
  PromoteAll = TRUE
INVARIANTS TypeOK Contract
CHECK_DEADLOCK FALSE
