---------------------------- MODULE DeadlineRace ----------------------------
(* Mechanism model of GrpcTimeout: the effective timer is the shorter of the caller's grpc-timeout and
   the configured timeout; ResponseFuture::poll polls the inner future first and the Sleep second.
   Time is discrete; at each instant the handler completion and the timer expiry that are due become
   ready in either order, and the task may be polled between them (all wake-up orders). *)
EXTENDS Naturals, FiniteSets, TLC
CONSTANTS Tcs, Tss, Ls, MinInsteadOfMax      \* candidate caller / server timeouts (0 = none), latencies; deviation switch
VARIABLES tc, ts, lat, clock, handlerReady, timerReady, out
vars == <<tc, ts, lat, clock, handlerReady, timerReady, out>>
Present == {t \in {tc, ts} : t # 0}
Pick(S) == IF MinInsteadOfMax THEN CHOOSE t \in S : \A u \in S : t <= u ELSE CHOOSE t \in S : \A u \in S : t >= u
Eff == IF Present = {} THEN 0 ELSE Pick(Present)
Init == tc \in Tcs /\ ts \in Tss /\ lat \in Ls /\ clock = 0 /\ handlerReady = FALSE /\ timerReady = FALSE /\ out = [done |-> FALSE]
HandlerFires == ~handlerReady /\ clock = lat /\ handlerReady' = TRUE /\ UNCHANGED <<tc, ts, lat, clock, timerReady, out>>
TimerFires == ~timerReady /\ Eff # 0 /\ clock = Eff /\ timerReady' = TRUE /\ UNCHANGED <<tc, ts, lat, clock, handlerReady, out>>
\* the response future is polled: inner first, then the sleep
Poll == /\ ~out.done /\ (handlerReady \/ timerReady)
        /\ out' = IF handlerReady THEN [done |-> TRUE, ok |-> TRUE, at |-> clock] ELSE [done |-> TRUE, ok |-> FALSE, at |-> clock]
        /\ UNCHANGED <<tc, ts, lat, clock, handlerReady, timerReady>>
\* time advances only when everything due at this instant has been delivered and the woken task has run
Due == (clock = lat /\ ~handlerReady) \/ (Eff # 0 /\ clock = Eff /\ ~timerReady)
Tick == /\ ~out.done /\ ~Due /\ ~(handlerReady \/ timerReady) /\ clock < 6 /\ clock' = clock + 1
        /\ UNCHANGED <<tc, ts, lat, handlerReady, timerReady, out>>
Next == HandlerFires \/ TimerFires \/ Poll \/ Tick
Spec == Init /\ [][Next]_vars /\ WF_vars(Next)
\* Contract (C09, second sentence)
M == IF Present = {} THEN 0 ELSE CHOOSE t \in Present : \A u \in Present : t <= u
ShortestDeadline == out.done =>
    IF M = 0 \/ lat < M THEN out.ok /\ out.at = lat
    ELSE IF lat > M THEN ~out.ok /\ out.at = M
    ELSE out.at = lat
Completes == <>(out.done)
=============================================================================
