--------------------------- MODULE Trace_HealthMech ---------------------------
(* Mechanism-level trace validation for C18: every operation the harness applied to tonic-health's reporter and to the
   generated Health client, with the result it returned, must be the corresponding action of Health.tla with the same
   result.  tonic-health is a sequential library as far as this lab is concerned (operations are applied at quiescent
   points), so the linearisation point of an operation is its return and no hook is needed.
   Parked watchers (a task that keeps awaiting its stream) take NextItem steps on their own: those are the silent Drain
   steps below, forced to happen before the next operation (the harness waits for quiescence), which makes the trace
   spec deterministic.  A trace the model cannot follow is reported as DRIFT.                                     *)
EXTENDS Health, Json, IOUtils
Rec == ndJsonDeserialize(IOEnv.TRACE)
ASSUME TLCSet(1, 1)
ServingT == 1
DefaultT == ""
VARIABLES l,
          wmap,      \* harness watcher number -> index in `watchers`
          parked,    \* model watcher indices whose stream is owned by a parked task
          queue      \* per parked watcher: what its task has forwarded and the harness has not popped yet
tvars == <<vars, l, wmap, parked, queue>>
E == Rec[l]
Is(op) == l <= Len(Rec) /\ E.e = "op" /\ E.op = op /\ l' = l + 1
Enabled(m) == m \in 1..Len(watchers) /\ ~watchers[m].ended /\ (watchers[m].seen < ver[watchers[m].id] \/ closed[watchers[m].id])
Drained == \A m \in parked : ~Enabled(m)
Keep == UNCHANGED <<wmap, parked, queue>>
TInit == Init /\ l = 1 /\ wmap = <<>> /\ parked = {} /\ queue = <<>>
Reset == /\ l <= Len(Rec) /\ E.e = "reset" /\ l' = l + 1 /\ wmap' = <<>> /\ parked' = {} /\ queue' = <<>>
         /\ chan' = [s \in Svcs |-> IF s = Default THEN 1 ELSE 0] /\ val' = [i \in 1..MaxChan |-> IF i = 1 THEN Serving ELSE "none"]
         /\ ver' = [i \in 1..MaxChan |-> IF i = 1 THEN 1 ELSE 0] /\ closed' = [i \in 1..MaxChan |-> FALSE] /\ nchan' = 1
         /\ watchers' = <<>> /\ setlog' = [s \in Svcs |-> IF s = Default THEN {Serving} ELSE {}] /\ cleared' = {} /\ ops' = 0 /\ checks' = <<>>
\* a parked task polls its stream as soon as it is woken
Drain == /\ l <= Len(Rec) /\ \E m \in parked : /\ Enabled(m) /\ NextItem(m)
                                              /\ queue' = [queue EXCEPT ![m] = Append(@, IF watchers'[m].ended THEN "end" ELSE watchers'[m].got[Len(watchers'[m].got)])]
         /\ UNCHANGED <<l, wmap, parked>>
EvSet == Is("set") /\ Drained /\ Keep /\ Set(E.sn, E.v) /\ E.res.r = "done"
EvClear == Is("clear") /\ Drained /\ Keep /\ E.res.r = "done" /\ (IF chan[E.sn] # 0 THEN Clear(E.sn) ELSE UNCHANGED vars)
EvCheck == Is("check") /\ Drained /\ Keep /\ Check(E.sn)
           /\ IF chan[E.sn] = 0 THEN E.res.r = "err" /\ E.res.code = 5 ELSE E.res.r = "status" /\ E.res.status = val[chan[E.sn]]
EvWatch == Is("watch") /\ Drained /\ UNCHANGED parked
           /\ IF chan[E.sn] = 0 THEN E.res.r = "err" /\ E.res.code = 5 /\ UNCHANGED <<vars, wmap, queue>>
              ELSE /\ E.res.r = "subscribed" /\ Watch(E.sn)
                   /\ wmap' = (E.w :> (Len(watchers) + 1)) @@ wmap /\ queue' = Append(queue, <<>>)
EvPark == Is("park") /\ Drained /\ UNCHANGED <<vars, wmap, queue>>
          /\ IF E.w \in DOMAIN wmap /\ wmap[E.w] \notin parked THEN E.res.r = "parked" /\ parked' = parked \cup {wmap[E.w]}
             ELSE E.res.r = "nostream" /\ UNCHANGED parked
\* next on a stream the harness polls itself: exactly one poll of the stream
EvNextDirect == /\ Is("next") /\ Drained /\ Keep /\ E.w \in DOMAIN wmap /\ wmap[E.w] \notin parked
                /\ LET m == wmap[E.w] IN
                   CASE E.res.r = "item" -> NextItem(m) /\ ~watchers'[m].ended /\ watchers'[m].got[Len(watchers'[m].got)] = E.res.status
                     [] E.res.r = "end" -> IF watchers[m].ended THEN UNCHANGED vars ELSE NextItem(m) /\ watchers'[m].ended
                     [] E.res.r = "pending" -> ~Enabled(m) /\ ~watchers[m].ended /\ UNCHANGED vars
                     [] OTHER -> FALSE
\* next on a parked stream: pop what the task has forwarded
EvNextParked == /\ Is("next") /\ Drained /\ UNCHANGED <<vars, wmap, parked>> /\ E.w \in DOMAIN wmap /\ wmap[E.w] \in parked
                /\ LET m == wmap[E.w] IN
                   CASE E.res.r = "item" -> queue[m] # <<>> /\ Head(queue[m]) = E.res.status /\ queue' = [queue EXCEPT ![m] = Tail(@)]
                     [] E.res.r = "end" -> IF queue[m] = <<>> THEN watchers[m].ended /\ UNCHANGED queue
                                           ELSE Head(queue[m]) = "end" /\ queue' = [queue EXCEPT ![m] = Tail(@)]
                     [] E.res.r = "pending" -> queue[m] = <<>> /\ ~watchers[m].ended /\ UNCHANGED queue
                     [] OTHER -> FALSE
EvNextNone == Is("next") /\ Drained /\ Keep /\ E.w \notin DOMAIN wmap /\ E.res.r = "nostream" /\ UNCHANGED vars
EvEnd == l <= Len(Rec) /\ E.e = "end" /\ l' = l + 1 /\ Keep /\ UNCHANGED vars
TNext == Reset \/ Drain \/ EvSet \/ EvClear \/ EvCheck \/ EvWatch \/ EvPark \/ EvNextDirect \/ EvNextParked \/ EvNextNone \/ EvEnd
TSpec == TInit /\ [][TNext]_tvars
Progress == TLCSet(1, IF l > TLCGet(1) THEN l ELSE TLCGet(1))
MechInv == OnlySetValues /\ EndsOnlyAfterClear
Accepted == PrintT(<<"MECH_RESULT", ToJson([matched |-> TLCGet(1) - 1, total |-> Len(Rec),
                                            next |-> IF TLCGet(1) <= Len(Rec) THEN Rec[TLCGet(1)] ELSE [e |-> "none"]])>>)
=============================================================================
