---- MODULE MC_ReflStream_TTrace_1791091190 ----
EXTENDS Sequences, TLCExt, Toolbox, Naturals, TLC, MC_ReflStream

_expression ==
    LET MC_ReflStream_TEExpression == INSTANCE MC_ReflStream_TEExpression
    IN MC_ReflStream_TEExpression!expression
----

_trace ==
    LET MC_ReflStream_TETrace == INSTANCE MC_ReflStream_TETrace
    IN MC_ReflStream_TETrace!trace
----

_inv ==
    ~(
        TLCGet("level") = Len(_TETrace)
        /\
        qs = (<<"H", "H">>)
        /\
        w = ([pc |-> "done", item |-> [k |-> "none", i |-> 0]])
        /\
        ended = (TRUE)
        /\
        closed = (FALSE)
        /\
        chan = (<<>>)
        /\
        sent = (2)
        /\
        inq = (<<>>)
        /\
        got = (<<[k |-> "ans", i |-> 1]>>)
    )
----

_init ==
    /\ ended = _TETrace[1].ended
    /\ closed = _TETrace[1].closed
    /\ sent = _TETrace[1].sent
    /\ w = _TETrace[1].w
    /\ inq = _TETrace[1].inq
    /\ got = _TETrace[1].got
    /\ qs = _TETrace[1].qs
    /\ chan = _TETrace[1].chan
----

_next ==
    /\ \E i,j \in DOMAIN _TETrace:
        /\ \/ /\ j = i + 1
              /\ i = TLCGet("level")
        /\ ended  = _TETrace[i].ended
        /\ ended' = _TETrace[j].ended
        /\ closed  = _TETrace[i].closed
        /\ closed' = _TETrace[j].closed
        /\ sent  = _TETrace[i].sent
        /\ sent' = _TETrace[j].sent
        /\ w  = _TETrace[i].w
        /\ w' = _TETrace[j].w
        /\ inq  = _TETrace[i].inq
        /\ inq' = _TETrace[j].inq
        /\ got  = _TETrace[i].got
        /\ got' = _TETrace[j].got
        /\ qs  = _TETrace[i].qs
        /\ qs' = _TETrace[j].qs
        /\ chan  = _TETrace[i].chan
        /\ chan' = _TETrace[j].chan

\* Uncomment the ASSUME below to write the states of the error trace
\* to the given file in Json format. Note that you can pass any tuple
\* to `JsonSerialize`. For example, a sub-sequence of _TETrace.
    \* ASSUME
    \*     LET J == INSTANCE Json
    \*         IN J!JsonSerialize("MC_ReflStream_TTrace_1791091190.json", _TETrace)

=============================================================================

 Note that you can extract this module `MC_ReflStream_TEExpression`
  to a dedicated file to reuse `expression` (the module in the 
  dedicated `MC_ReflStream_TEExpression.tla` file takes precedence 
  over the module `MC_ReflStream_TEExpression` below).

---- MODULE MC_ReflStream_TEExpression ----
EXTENDS Sequences, TLCExt, Toolbox, Naturals, TLC, MC_ReflStream

expression == 
    [
        \* To hide variables of the `MC_ReflStream` spec from the error trace,
        \* remove the variables below.  The trace will be written in the order
        \* of the fields of this record.
        ended |-> ended
        ,closed |-> closed
        ,sent |-> sent
        ,w |-> w
        ,inq |-> inq
        ,got |-> got
        ,qs |-> qs
        ,chan |-> chan
        
        \* Put additional constant-, state-, and action-level expressions here:
        \* ,_stateNumber |-> _TEPosition
        \* ,_endedUnchanged |-> ended = ended'
        
        \* Format the `ended` variable as Json value.
        \* ,_endedJson |->
        \*     LET J == INSTANCE Json
        \*     IN J!ToJson(ended)
        
        \* Lastly, you may build expressions over arbitrary sets of states by
        \* leveraging the _TETrace operator.  For example, this is how to
        \* count the number of times a spec variable changed up to the current
        \* state in the trace.
        \* ,_endedModCount |->
        \*     LET F[s \in DOMAIN _TETrace] ==
        \*         IF s = 1 THEN 0
        \*         ELSE IF _TETrace[s].ended # _TETrace[s-1].ended
        \*             THEN 1 + F[s-1] ELSE F[s-1]
        \*     IN F[_TEPosition - 1]
    ]

=============================================================================



Parsing and semantic processing can take forever if the trace below is long.
 In this case, it is advised to uncomment the module below to deserialize the
 trace from a generated binary file.

\*
\*---- MODULE MC_ReflStream_TETrace ----
\*EXTENDS IOUtils, TLC, MC_ReflStream
\*
\*trace == IODeserialize("MC_ReflStream_TTrace_1791091190.bin", TRUE)
\*
\*=============================================================================
\*

---- MODULE MC_ReflStream_TETrace ----
EXTENDS TLC, MC_ReflStream

trace == 
    <<
    ([qs |-> <<"H", "H">>,w |-> [pc |-> "recv", item |-> [k |-> "none", i |-> 0]],ended |-> FALSE,closed |-> FALSE,chan |-> <<>>,sent |-> 0,inq |-> <<>>,got |-> <<>>]),
    ([qs |-> <<"H", "H">>,w |-> [pc |-> "recv", item |-> [k |-> "none", i |-> 0]],ended |-> FALSE,closed |-> FALSE,chan |-> <<>>,sent |-> 1,inq |-> <<1>>,got |-> <<>>]),
    ([qs |-> <<"H", "H">>,w |-> [pc |-> "recv", item |-> [k |-> "none", i |-> 0]],ended |-> FALSE,closed |-> FALSE,chan |-> <<>>,sent |-> 2,inq |-> <<1, 2>>,got |-> <<>>]),
    ([qs |-> <<"H", "H">>,w |-> [pc |-> "send", item |-> [k |-> "ans", i |-> 1]],ended |-> FALSE,closed |-> FALSE,chan |-> <<>>,sent |-> 2,inq |-> <<2>>,got |-> <<>>]),
    ([qs |-> <<"H", "H">>,w |-> [pc |-> "recv", item |-> [k |-> "none", i |-> 0]],ended |-> FALSE,closed |-> FALSE,chan |-> <<[k |-> "ans", i |-> 1]>>,sent |-> 2,inq |-> <<2>>,got |-> <<>>]),
    ([qs |-> <<"H", "H">>,w |-> [pc |-> "send", item |-> [k |-> "ans", i |-> 2]],ended |-> FALSE,closed |-> FALSE,chan |-> <<[k |-> "ans", i |-> 1]>>,sent |-> 2,inq |-> <<>>,got |-> <<>>]),
    ([qs |-> <<"H", "H">>,w |-> [pc |-> "done", item |-> [k |-> "none", i |-> 0]],ended |-> FALSE,closed |-> FALSE,chan |-> <<[k |-> "ans", i |-> 1]>>,sent |-> 2,inq |-> <<>>,got |-> <<>>]),
    ([qs |-> <<"H", "H">>,w |-> [pc |-> "done", item |-> [k |-> "none", i |-> 0]],ended |-> FALSE,closed |-> FALSE,chan |-> <<>>,sent |-> 2,inq |-> <<>>,got |-> <<[k |-> "ans", i |-> 1]>>]),
    ([qs |-> <<"H", "H">>,w |-> [pc |-> "done", item |-> [k |-> "none", i |-> 0]],ended |-> TRUE,closed |-> FALSE,chan |-> <<>>,sent |-> 2,inq |-> <<>>,got |-> <<[k |-> "ans", i |-> 1]>>])
    >>
----


=============================================================================

---- CONFIG MC_ReflStream_TTrace_1791091190 ----
CONSTANTS
    Sessions <- S3
    BlockingSend = FALSE

INVARIANT
    _inv

CHECK_DEADLOCK
    \* CHECK_DEADLOCK off because of PROPERTY or INVARIANT above.
    FALSE

INIT
    _init

NEXT
    _next

CONSTANT
    _TETrace <- _trace

ALIAS
    _expression
=============================================================================
\* Generated on Sun Oct 04 05:19:51 UTC 2026