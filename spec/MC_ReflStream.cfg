SPECIFICATION Spec
CONSTANTS
  Sessions <- S5
  BlockingSend = TRUE
INVARIANTS TypeOK Contract
CHECK_DEADLOCK FALSE
