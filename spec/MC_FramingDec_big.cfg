SPECIFICATION Spec
CONSTANTS
  Inputs <- InputsDef
  Limit = 2
  HasEnc = TRUE
  MaxChunk = 6
  MaxPolls = 7
  Latch = TRUE
INVARIANTS Shape NoPollAfterEnd
PROPERTIES ContractHolds Terminates
CHECK_DEADLOCK FALSE
