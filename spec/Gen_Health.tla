----------------------------- MODULE Gen_Health----------------------------
EXTENDS Health, Json
VARIABLE oplog
GInit == Init /\ oplog = <<>>
GNext == \/ \E s \in Svcs, v \in Stats : Set(s, v) /\ oplog' = Append(oplog, [op |-> "set", s |-> s, v |-> v, w |-> 0])
         \/ \E s \in Svcs : Clear(s) /\ oplog' = Append(oplog, [op |-> "clear", s |-> s, v |-> "-", w |-> 0])
         \/ \E s \in Svcs : Check(s) /\ oplog' = Append(oplog, [op |-> "check", s |-> s, v |-> "-", w |-> 0])
         \/ \E s \in Svcs : Watch(s) /\ oplog' = Append(oplog, [op |-> "watch", s |-> s, v |-> "-", w |-> Len(watchers) + 1])
         \/ \E w \in 1..MaxW : NextItem(w) /\ oplog' = Append(oplog, [op |-> "next", s |-> "-", v |-> "-", w |-> w])
GSpec == GInit /\ [][GNext]_<<vars, oplog>>
GBound == Len(oplog) <= MaxOps + 4
Export == (ops = MaxOps) => PrintT(<<"SCRIPT", ToJson([ops |-> oplog])>>)
=============================================================================
