---------------------------- MODULE Gen_Admission ----------------------------
(* Export of environment schedules of Admission with the model's prediction after every step (pattern B); simulated, the history
   variable lives only here. *)
EXTENDS Admission, Json, TLC
VARIABLE script
SetToSeq(S) == LET RECURSIVE F(_) F(T) == IF T = {} THEN <<>> ELSE LET m == CHOOSE x \in T : \A y \in T : x <= y IN <<m>> \o F(T \ {m}) IN F(S)
Snap == [running |-> SetToSeq({ k \in Calls : st'[k] = "running" }), queued |-> SetToSeq({ k \in Calls : st'[k] = "queued" }),
         ok |-> SetToSeq({ k \in Calls : st'[k] = "ok" }), cut |-> SetToSeq({ k \in Calls : st'[k] = "cut" })]
GInit == Init /\ script = <<>>
GNext == /\ ~Done
         /\ \/ \E k \in Calls : Send(k) /\ script' = Append(script, [op |-> "send", k |-> k, after |-> Snap])
            \/ \E k \in Calls : Release(k) /\ script' = Append(script, [op |-> "release", k |-> k, after |-> Snap])
            \/ Tick /\ script' = Append(script, [op |-> "tick", k |-> 0, after |-> Snap])
GSpec == GInit /\ [][GNext]_<<vars, script>>
Export == Done => PrintT(<<"SCRIPT", ToJson([limit |-> Limit, srv |-> srvTmo, calls |-> [k \in Calls |-> [k |-> k, c |-> conn[k], tmo |-> tmo[k]]], steps |-> script])>>)
=============================================================================
