--------------------------- MODULE MC_Negotiation ---------------------------
(* Pattern B decision table for C05: every combination of
     server send-enabled set x server accept-enabled set x grpc-accept-encoding header value
     x request grpc-encoding x compressed-flag
   TLC enumerates the table (distinct states = its size), evaluates the Contract's expected outcome
   class for each point (so the table itself is checked for totality / consistency), and prints
   each point as a raw-request stimulus for the real server::Grpc.                                *)
EXTENDS Call, Json
Encs == {"gzip", "deflate", "zstd"}
B(e) == IF e = "identity" THEN S_identity ELSE IF e = "br" THEN <<98, 114>> ELSE EncBytes[e]
Sep == {<<44>>, <<44, 32>>, <<32, 44>>}
Tok == {"gzip", "deflate", "zstd", "identity", "br"}
\* header values: absent, single tokens, ordered pairs with spacing variants, a triple, hostile values
Offers == {<<"absent">>}
          \cup { <<"v", B(a)>> : a \in Tok }
          \cup { <<"v", B(a) \o s \o B(b)>> : a \in Tok, b \in Tok \ {"identity"}, s \in Sep }
          \cup { <<"v", B("zstd") \o <<44>> \o B("br") \o <<44, 32>> \o B("gzip")>>, <<"v", <<>> >>, <<"v", <<44>> >>,
                 <<"v", <<103, 122, 105, 112, 255>> >>, <<"v", <<71, 90, 73, 80>> >>, <<"v", B("gzip") \o <<59, 113, 61, 49>> >> }
ReqEncs == { <<"absent">>, <<"v", S_identity>>, <<"v", B("gzip")>>, <<"v", B("deflate")>>, <<"v", B("zstd")>>, <<"v", B("br")>>, <<"v", <<255>> >>, <<"v", <<71, 122, 105, 112>> >> }
VARIABLE pt
Init == pt \in [send : SUBSET Encs, accept : SUBSET Encs, offer : Offers, reqenc : ReqEncs, flag : {0, 1}]
Next == UNCHANGED pt
Spec == Init /\ [][Next]_pt
\* expected class of the request side (same definitions as Trace_Call!RawClauses)
ReqName == IF pt.reqenc[1] = "absent" \/ pt.reqenc[2] = S_identity THEN "" ELSE EncOfBytes(pt.reqenc[2])
Class == IF ReqName # "" /\ ReqName \notin pt.accept THEN "refused_unimplemented"
         ELSE IF ReqName = "" /\ pt.flag = 1 THEN "flag_without_encoding_internal" ELSE "served"
OfferSet == IF pt.offer[1] = "absent" THEN {} ELSE { e \in Encs : EncBytes[e] \in TokenSet(pt.offer[2]) }
Allowed == (pt.send \cap OfferSet) \cup {"identity"}
TableOK == /\ Class \in {"refused_unimplemented", "flag_without_encoding_internal", "served"}
           /\ Allowed # {} /\ (pt.send = {} => Allowed = {"identity"})
SetSeq(S) == SetToSeq(S)
Export == PrintT(<<"SCRIPT", ToJson([send |-> SetSeq(pt.send), accept |-> SetSeq(pt.accept), offer |-> pt.offer, reqenc |-> pt.reqenc,
                                     flag |-> pt.flag, class |-> Class, allowed |-> SetSeq(Allowed)])>>)
=============================================================================
