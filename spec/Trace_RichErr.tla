---------------------------- MODULE Trace_RichErr ----------------------------
(* C20: rich error details round-trip through a status.  A detail is a record in canonical form
   [kind, s (scalar strings), ll (list of string tuples), has, secs (digits), nanos]; the harness applies the same
   projection to what it attached and to what the StatusExt API returned, TLC compares - and parses the raw
   details bytes with its own protobuf reader (Bytes!ProtoParse) to check the embedded google.rpc.Status. *)
EXTENDS Bytes, TraceKit
Prefix == <<116, 121, 112, 101, 46, 103, 111, 111, 103, 108, 101, 97, 112, 105, 115, 46, 99, 111, 109, 47, 103, 111, 111, 103, 108, 101, 46, 114, 112, 99, 46>>
TypeName == ("retry_info" :> <<82, 101, 116, 114, 121, 73, 110, 102, 111>>) @@ ("debug_info" :> <<68, 101, 98, 117, 103, 73, 110, 102, 111>>)
         @@ ("quota_failure" :> <<81, 117, 111, 116, 97, 70, 97, 105, 108, 117, 114, 101>>) @@ ("error_info" :> <<69, 114, 114, 111, 114, 73, 110, 102, 111>>)
         @@ ("precondition_failure" :> <<80, 114, 101, 99, 111, 110, 100, 105, 116, 105, 111, 110, 70, 97, 105, 108, 117, 114, 101>>)
         @@ ("bad_request" :> <<66, 97, 100, 82, 101, 113, 117, 101, 115, 116>>) @@ ("request_info" :> <<82, 101, 113, 117, 101, 115, 116, 73, 110, 102, 111>>)
         @@ ("resource_info" :> <<82, 101, 115, 111, 117, 114, 99, 101, 73, 110, 102, 111>>) @@ ("help" :> <<72, 101, 108, 112>>)
         @@ ("localized_message" :> <<76, 111, 99, 97, 108, 105, 122, 101, 100, 77, 101, 115, 115, 97, 103, 101>>)
KindOrder == <<"retry_info", "debug_info", "quota_failure", "error_info", "precondition_failure", "bad_request", "request_info", "resource_info", "help", "localized_message">>
Kinds(ds) == [i \in 1..Len(ds) |-> ds[i].kind]
\* the set form keeps one detail per kind, reported in the fixed order of the message catalogue; the last one set wins
FirstOfKind(ds, k) == LET i == SelectInSeq(ds, LAMBDA d : d.kind = k) IN IF i = 0 THEN <<>> ELSE <<ds[i]>>
LastOfKind(ds, k) == LET idx == { i \in 1..Len(ds) : ds[i].kind = k } IN IF idx = {} THEN <<>> ELSE <<ds[CHOOSE i \in idx : \A j \in idx : i >= j]>>
SetView(ds) == FlattenSeq([j \in 1..Len(KindOrder) |-> LastOfKind(ds, KindOrder[j])])
FirstView(ds) == FlattenSeq([j \in 1..Len(KindOrder) |-> FirstOfKind(ds, KindOrder[j])])
\* embedded google.rpc.Status { int32 code = 1; string message = 2; repeated Any details = 3 }, Any { type_url = 1; value = 2 }
Embedded(bytes) == LET p == ProtoParse(bytes)
                       f(n) == SelectSeq(p.fields, LAMBDA x : x.field = n)
                       anys == [i \in 1..Len(f(3)) |-> ProtoParse(f(3)[i].bytes)]
                   IN [ok |-> p.ok /\ \A i \in 1..Len(anys) : anys[i].ok,
                       code |-> IF f(1) = <<>> THEN 0 ELSE f(1)[1].val,
                       msg |-> IF f(2) = <<>> THEN <<>> ELSE f(2)[1].bytes,
                       urls |-> [i \in 1..Len(anys) |-> LET u == SelectSeq(anys[i].fields, LAMBDA x : x.field = 1) IN IF u = <<>> THEN <<>> ELSE u[1].bytes]]
Fresh(stim) == [stim |-> stim, seen |-> {}]
Keys == {"runs", "vec", "set", "hostile", "with_repeated_kinds", "empty_lists", "hostile_decoded", "hostile_refused"}
Init == InitK(Fresh([form |-> "none"]), Keys)
Attached(stim) == IF stim.form = "set" THEN SetView(stim.details) ELSE stim.details
Reset == ResetK(Fresh(E.stim)) /\ Count({"runs", E.stim.form} \cup (IF E.stim.form = "vec" /\ Cardinality({ E.stim.details[i].kind : i \in 1..Len(E.stim.details) }) < Len(E.stim.details) THEN {"with_repeated_kinds"} ELSE {})
                                         \cup (IF E.stim.form # "hostile" /\ E.stim.details = <<>> THEN {"empty_lists"} ELSE {}))
\* a valid encoding cut short or followed by bytes that are no protobuf (the two classes built that way): if this specification's own
\* parser cannot read it as a google.rpc.Status, the library reports an error or nothing - never the details that happened to come first
Damaged(r) == IF s.stim.class \in {"truncated_details", "details_with_garbage_tail"} /\ ~Embedded(s.stim.bytes).ok
              THEN << <<"C20.UndecodableIsAnErrorOrEmpty", ~r.ok \/ r.details = <<>> >> >> ELSE <<>>
Built == /\ Live("built") /\ UNCHANGED stats
         /\ IF s.stim.form = "hostile" THEN JudgeK(<<>>, [s EXCEPT !.seen = @ \cup {"built"}])
            ELSE LET em == Embedded(E.details) want == Attached(s.stim) IN
                 JudgeK(<< <<"C20.EmbeddedStatusParses", em.ok>>,
                           <<"C20.EmbeddedStatusCarriesOuterCodeAndMessage", em.ok => (em.code = s.stim.code /\ em.msg = s.stim.msg)>>,
                           <<"C20.DetailsAreTypedAnysInOrder", em.ok => em.urls = [i \in 1..Len(want) |-> Prefix \o TypeName[want[i].kind]]>> >>,
                        [s EXCEPT !.seen = @ \cup {"built"}])
Travelled == /\ Live("travelled") /\ UNCHANGED stats
             /\ JudgeK(<< <<"C20.StatusSurvivesHeaders", E.code = s.stim.code /\ E.msg = s.stim.msg>> >>, [s EXCEPT !.seen = @ \cup {"travelled"}])
ReadVec == /\ Live("read_vec")
           /\ IF s.stim.form = "hostile" THEN JudgeK(Damaged(E), s) /\ Count(IF E.ok THEN {"hostile_decoded"} ELSE {"hostile_refused"})
              ELSE JudgeK(<< <<"C20.ListRecoveredUnchanged", E.ok /\ E.details = Attached(s.stim)>> >>, [s EXCEPT !.seen = @ \cup {"read_vec"}]) /\ UNCHANGED stats
ReadSet == /\ Live("read_set") /\ UNCHANGED stats
           /\ IF s.stim.form = "hostile" THEN JudgeK(Damaged(E), s)
              ELSE JudgeK(<< <<"C20.SetRecoveredUnchanged", E.ok /\ (s.stim.form = "set" => E.details = Attached(s.stim))>>,
                             <<"C20.SetOfAListHasItsKinds", E.ok => { E.details[i].kind : i \in 1..Len(E.details) } = { s.stim.details[i].kind : i \in 1..Len(s.stim.details) }>> >>,
                          [s EXCEPT !.seen = @ \cup {"read_set"}])
Getters == /\ Live("getters") /\ UNCHANGED stats
           /\ IF s.stim.form = "hostile" THEN JudgeK(<<>>, [s EXCEPT !.seen = @ \cup {"getters"}])
              ELSE JudgeK(<< <<"C20.GettersReturnFirstOfKind", E.details = FirstView(Attached(s.stim))>>,
                             <<"C20.LenientReadersAgree", E.lenient_vec = Attached(s.stim)>> >>, [s EXCEPT !.seen = @ \cup {"getters"}])
End == EndK(<< <<"RunComplete", E.outcome = "ok" => "getters" \in s.seen>> >>)
Known == {"reset", "built", "travelled", "read_vec", "read_set", "getters", "end"}
Next == Reset \/ Built \/ Travelled \/ ReadVec \/ ReadSet \/ Getters \/ End \/ UnknownK(Known) \/ DeadSkipK
Spec == Init /\ [][Next]_kvars
=============================================================================
