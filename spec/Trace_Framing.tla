---------------------------- MODULE Trace_Framing ----------------------------
(* Trace validation for the framing lab (C01, C03 body clauses, C06, C07, C05 flag clauses):
   executions of the real EncodeBody and Streaming, recorded as ndjson, are checked event
   by event against the FramingContract operators.  One `reset` event starts a run and
   carries the stimulus; a run whose event violates a clause is marked dead, the violated
   clause names are collected in `bad`, and validation continues with the next run.       *)
EXTENDS FramingContract, Json, IOUtils

Rec == ndJsonDeserialize(IOEnv.TRACE)
ASSUME TLCSet(1, <<>>)

VARIABLES l, run, dead, bad, s, stats
vars == <<l, run, dead, bad, s, stats>>

E == Rec[l]
Has(r, f) == f \in DOMAIN r

(* ---- stimulus projection *)
\* -1: not configured (the default); -2, -3, -4: limits of 2^32 and more, which TLC's integers cannot hold: larger than any message here
Lim(n) == IF n = -1 THEN DefaultLimit ELSE IF n < -1 THEN 2147483647 ELSE n
SerOfItem(it, codec) == IF it.k = "pmsg" THEN ProtoSerTest([a |-> it.a, b |-> it.b, c |-> it.c]) ELSE it.b
Items(stim) == [i \in 1..Len(stim.items) |->
                  LET it == stim.items[i] IN
                  IF it.k = "pend" THEN [k |-> "pend"]
                  ELSE IF it.k = "err" THEN [k |-> "err", code |-> it.code]
                  ELSE IF it.k = "encfail" THEN [k |-> "encfail"]
                  \* 2^32 + it.extra bytes (1 <= extra): over the limit unless none is configured (-1), or it is usize::MAX (-4) or 2^32 + 16 (-3) with extra <= 16
                  ELSE IF it.k = "huge" THEN [k |-> "huge", over |-> ~(stim.limit_enc \in {-1, -4} \/ (stim.limit_enc = -3 /\ it.extra <= 16))]
                  ELSE IF Has(it, "wl") /\ stim.enc # "identity" /\ ~stim.override THEN [k |-> "msg", ser |-> SerOfItem(it, stim.codec), wl |-> it.wl]
                  ELSE [k |-> "msg", ser |-> SerOfItem(it, stim.codec)]]
Compressed(stim) == stim.enc # "identity" /\ ~stim.override
EncCfg(stim) == [role |-> stim.role, limit |-> Lim(stim.limit_enc), exact |-> ~Compressed(stim)]

(* ---- decoder view from delivered bytes and decompression hints *)
HintFor(hints, off) == LET c == { i \in 1..Len(hints) : hints[i].off = off } IN IF c = {} THEN [off |-> -1] ELSE hints[CHOOSE i \in c : TRUE]
NoDecomp == [ok |-> FALSE, v |-> <<>>]
DecompOf(h, enc) == IF enc = "gzip" /\ Has(h, "gzip") THEN h.gzip ELSE IF enc = "deflate" /\ Has(h, "deflate") THEN h.deflate
                    ELSE IF enc = "zstd" /\ Has(h, "zstd") THEN h.zstd ELSE NoDecomp
ProstOK(ser) == LET p == ProtoParse(ser) IN p.ok /\ \A i \in 1..Len(p.fields) :
                   \/ (p.fields[i].field = 1 /\ p.fields[i].wt = 0)
                   \/ (p.fields[i].field \in {2, 3} /\ p.fields[i].wt = 2 /\ (p.fields[i].field = 3 => Utf8OK(p.fields[i].bytes)))
Classify(f, hints, decEnc, limit, codec) ==
  IF f.flag > 1 THEN [kind |-> "bad_flag", ser |-> <<>>]
  ELSE IF f.flag = 1 /\ decEnc = "identity" THEN [kind |-> "flag_noenc", ser |-> <<>>]
  ELSE IF f.len > limit THEN [kind |-> "too_large", ser |-> <<>>]
  ELSE IF ~f.complete THEN [kind |-> "trunc_body", ser |-> <<>>]
  ELSE LET d == IF f.flag = 0 THEN [ok |-> TRUE, v |-> f.payload] ELSE DecompOf(HintFor(hints, f.off), decEnc) IN
       IF ~d.ok THEN [kind |-> "undecodable", ser |-> <<>>]
       ELSE IF codec = "prost" /\ ~ProstOK(d.v) THEN [kind |-> "undecodable", ser |-> <<>>]
       ELSE [kind |-> "ok", ser |-> d.v]
ViewOf(bytes, hints, decEnc, limit, codec) ==
  LET p == ParseFrames(bytes)
      cls == [i \in 1..Len(p.frames) |-> Classify(p.frames[i], hints, decEnc, limit, codec)]
      firstBad == SelectInSeq(cls, LAMBDA c : c.kind # "ok")
  IN IF firstBad # 0 THEN SubSeq(cls, 1, firstBad)
     ELSE IF p.why = "trunc_hdr" THEN Append(cls, [kind |-> "trunc_hdr", ser |-> <<>>]) ELSE cls
\* the projection's frame walk must agree with the specification's own parse on every complete frame
HintsAligned(bytes, hints) ==
  LET fr == SelectSeq(ParseFrames(bytes).frames, LAMBDA f : f.complete) IN
  /\ Len(hints) = Len(fr)
  /\ \A i \in 1..Len(fr) : hints[i].off = fr[i].off /\ hints[i].flag = fr[i].flag /\ hints[i].len = fr[i].len

DecEncOf(stim) == IF stim.kind = "dec" THEN stim.dec_enc ELSE stim.enc
\* a transport error that maps to CANCELLED on a request stream (the decoder plays the opposite role of stim.role) is what a
\* client going away looks like: tonic ends such a stream quietly, and the statement does not say otherwise - left unconstrained
TailOf(stim, tail, code) == IF tail = "none" THEN (IF stim.role = "server" THEN "none_resp" ELSE "none_req")
                            ELSE IF tail = "body_err" /\ code = 1 /\ stim.role = "client" THEN "body_cancel_req"
                            ELSE tail

Fresh == [stim |-> [kind |-> "none"], enc |-> EncInit, encDone |-> FALSE, wire |-> <<>>, hints |-> <<>>,
          view |-> <<>>, tail |-> "none_req", tailCode |-> -1, dec |-> DecInit, haveBody |-> FALSE, hang |-> FALSE]

Init == l = 1 /\ run = 0 /\ dead = FALSE /\ bad = <<>> /\ s = Fresh
        /\ stats = [runs |-> 0, msgs |-> 0, errs |-> 0, ends |-> 0, truncClean |-> 0, cutInPrefix |-> 0, compressed |-> 0, afterEndPolls |-> 0]

Judge(cl, news) ==
  LET f == Failed(cl) IN
  IF f = {} THEN s' = news /\ UNCHANGED <<dead, bad>>
  ELSE dead' = TRUE /\ bad' = Append(bad, [run |-> run, ev |-> l, clauses |-> f]) /\ UNCHANGED s

Reset == /\ l <= Len(Rec) /\ E.e = "reset"
         /\ run' = E.run /\ dead' = FALSE /\ s' = [Fresh EXCEPT !.stim = E.stim] /\ l' = l + 1
         /\ stats' = [stats EXCEPT !.runs = @ + 1, !.compressed = @ + (IF E.stim.kind # "dec" /\ Compressed(E.stim) THEN 1 ELSE 0)]
         /\ UNCHANGED bad

Live(e) == l <= Len(Rec) /\ ~dead /\ E.e = e /\ l' = l + 1 /\ UNCHANGED run

EncEv == /\ Live("enc") /\ UNCHANGED stats
         /\ Judge(EncClauses(EncCfg(s.stim), Items(s.stim), s.enc, E) \o << <<"EncBeforeDone", ~s.encDone>> >>,
                  [s EXCEPT !.enc = EncStep(s.enc, E)])
EncDone == /\ Live("enc_done") /\ UNCHANGED stats
           /\ Judge(<< <<"BodyPolledToEnd", s.enc.none = 1>> >>, [s EXCEPT !.encDone = TRUE])

\* full wire: the recorder's concatenation must be what the data events carried; frames must be the
\* expected messages, flagged and compressed exactly as configured (C03 BodyOK, C05 frame clause)
WireClauses(stim, emitted, bytes, hints) ==
  LET p == ParseFrames(bytes)
      good == Good(Items(stim), Lim(stim.limit_enc))
      comp == Compressed(stim)
      payloadOK(i) == LET f == p.frames[i] IN
                      IF comp THEN f.flag = 1 /\ DecompOf(HintFor(hints, f.off), stim.enc) = [ok |-> TRUE, v |-> good[i].ser]
                      ELSE f.flag = 0 /\ f.payload = good[i].ser
  IN << <<"RecorderHonest", stim.kind = "dec" \/ bytes = emitted>>,
        \* C06: a message over the encoding limit is not sent - no frame on the wire is longer than the limit
        <<"NothingOverEncodingLimitOnWire", stim.kind = "dec" \/ \A i \in 1..Len(p.frames) : p.frames[i].len <= Lim(stim.limit_enc)>>,
        <<"HintsAligned", HintsAligned(bytes, hints)>>,
        <<"BodyIsWholeFrames", stim.kind = "dec" \/ p.why = "clean">>,
        <<"FramesAreTheMessages", stim.kind = "dec" \/ (p.why = "clean" =>
              (Len(p.frames) = Len(good) /\ \A i \in 1..Len(p.frames) : payloadOK(i)))>> >>
WireEv == /\ Live("wire") /\ UNCHANGED stats
          /\ Judge(WireClauses(s.stim, s.enc.emitted, E.bytes, E.frames), [s EXCEPT !.wire = E.bytes, !.hints = E.frames])

BodyEv == /\ Live("body")
          /\ LET tail == TailOf(s.stim, E.tail, E.tail_code)
                 v == ViewOf(E.delivered, s.hints, DecEncOf(s.stim), Lim(s.stim.limit_dec), s.stim.codec)
                 \* with an injected body error the delivered prefix may stop inside a frame: that is not the input's fault
                 v2 == IF tail \in {"body_err", "body_cancel_req"} /\ Bad(v) \in Trunc THEN SubSeq(v, 1, Len(v) - 1) ELSE v
                 \* chunk boundaries (offsets recorded by the projection, checked for consistency below)
                 bounds == { E.script[i].at : i \in 1..Len(E.script) }
                 atOK == \A i \in 1..(Len(E.script) - 1) : E.script[i].at + E.script[i].n = E.script[i + 1].at
                 fr == ParseFrames(E.delivered).frames
                 inPrefix == \E k \in 1..Len(fr) : \E d \in 1..4 : (fr[k].off + d) \in bounds
             IN /\ Judge(<< <<"DeliveredIsPrefix", IsPrefix(E.delivered, s.wire)>>, <<"ScriptOffsetsConsistent", atOK>> >>,
                         [s EXCEPT !.view = v2, !.tail = tail, !.tailCode = E.tail_code, !.haveBody = TRUE])
                /\ stats' = [stats EXCEPT !.cutInPrefix = @ + (IF inPrefix THEN 1 ELSE 0)]

DecResult(e) == IF e.r = "msg" THEN [r |-> "msg", ser |-> IF s.stim.codec = "prost" THEN ProtoSerTest(e.m) ELSE e.m]
                ELSE IF e.r = "err" THEN [r |-> "err", code |-> e.st.code]
                ELSE IF e.r = "pending" /\ Has(e, "woken") THEN [r |-> "pending", woken |-> e.woken]
                ELSE [r |-> e.r]
\* C06: an oversize message is refused before memory is reserved for it
AllocClause(e) == <<"RefusedBeforeReserve",
                    (e.r = "err" /\ Bad(s.view) = "too_large" /\ Has(e, "alloc")) => e.alloc < 1048576 + Lim(s.stim.limit_dec)>>
DecEv == /\ Live("dec")
         /\ LET r == DecResult(E)
                \* content equality is only demanded where the serialisation is canonical (raw codec, or valid streams)
                r2 == IF r.r = "msg" /\ s.stim.codec = "prost" /\ s.stim.kind = "dec" /\ s.dec.k < NOk(s.view)
                      THEN [r EXCEPT !.ser = s.view[s.dec.k + 1].ser] ELSE r
            IN /\ Judge(DecClauses(s.view, s.tail, s.dec, r2) \o << <<"BodyBeforeDecode", s.haveBody>>, AllocClause(E),
                             <<"TrueStatus", (r.r = "err" /\ s.tail \in {"trailers_err", "body_err"} /\ Bad(s.view) = "none") => r.code = s.tailCode>> >>,
                        [s EXCEPT !.dec = DecStep(s.dec, r2)])
               /\ stats' = [stats EXCEPT !.msgs = @ + (IF r.r = "msg" THEN 1 ELSE 0), !.errs = @ + (IF r.r = "err" THEN 1 ELSE 0),
                                         !.ends = @ + (IF r.r = "end" THEN 1 ELSE 0),
                                         !.truncClean = @ + (IF r.r = "end" /\ s.dec.phase = "streaming" /\ Bad(s.view) \in Trunc THEN 1 ELSE 0)]
DecDone == /\ Live("dec_done")
           /\ Judge(<< <<"StreamTerminates", s.dec.phase # "streaming">> >>, s)
           /\ stats' = [stats EXCEPT !.afterEndPolls = @ + E.body_polls_after_end]
EndEv == /\ Live("end") /\ UNCHANGED stats
         /\ Judge(<< <<"NoPanic", E.outcome # "panic">>, <<"NoHang", E.outcome # "hang">>,
                     <<"RunComplete", E.outcome = "ok" => (s.stim.kind = "enc" \/ s.dec.phase # "streaming")>> >>, s)

Known == {"reset", "enc", "enc_done", "wire", "body", "dec", "dec_done", "end"}
Unknown == /\ l <= Len(Rec) /\ ~dead /\ E.e \notin Known
           /\ dead' = TRUE /\ bad' = Append(bad, [run |-> run, ev |-> l, clauses |-> {"UnknownEvent"}]) /\ l' = l + 1
           /\ UNCHANGED <<run, s, stats>>
DeadSkip == l <= Len(Rec) /\ dead /\ E.e # "reset" /\ l' = l + 1 /\ UNCHANGED <<run, dead, bad, s, stats>>

Next == Reset \/ EncEv \/ EncDone \/ WireEv \/ BodyEv \/ DecEv \/ DecDone \/ EndEv \/ Unknown \/ DeadSkip
Spec == Init /\ [][Next]_vars

AtEnd == l = Len(Rec) + 1 => TLCSet(1, <<l - 1, bad, stats>>)
Post == LET r == TLCGet(1) IN
        /\ PrintT(<<"TRACE_RESULT", ToJson([consumed |-> IF r = <<>> THEN 0 ELSE r[1], total |-> Len(Rec),
                                            bad |-> IF r = <<>> THEN <<>> ELSE r[2],
                                            stats |-> IF r = <<>> THEN [runs |-> 0] ELSE r[3]])>>)
=============================================================================
