---------------------------- MODULE Trace_Reflect ----------------------------
(* Trace validation for the reflection lab (C19): each `answer` event carries one query and the responses of the
   v1 and the v1alpha service. *)
EXTENDS Reflection, TraceKit
ReflV1 == <<103, 114, 112, 99, 46, 114, 101, 102, 108, 101, 99, 116, 105, 111, 110, 46, 118, 49, 46, 83, 101, 114, 118, 101, 114, 82, 101, 102, 108, 101, 99, 116, 105, 111, 110>>
ReflV1a == <<103, 114, 112, 99, 46, 114, 101, 102, 108, 101, 99, 116, 105, 111, 110, 46, 118, 49, 97, 108, 112, 104, 97, 46, 83, 101, 114, 118, 101, 114, 82, 101, 102, 108, 101, 99, 116, 105, 111, 110>>
Fresh(stim) == [stim |-> stim, n |-> 0]
Keys == {"runs", "symbol_hits", "symbol_misses", "file_hits", "file_misses", "lists", "sibling_spellings", "nested_names", "duplicate_files"}
Init == InitK(Fresh([files |-> <<>>]), Keys)
Reset == ResetK(Fresh(E.stim)) /\ Count({"runs"} \cup (IF E.stim.dup THEN {"duplicate_files"} ELSE {}))
\* files in registration order: the registered sets one after the other (indices are 0-based in the stimulus)
AllFiles(stim) == FlattenSeq([k \in 1..Len(stim.sets) |-> [j \in 1..Len(stim.sets[k]) |-> stim.files[stim.sets[k][j] + 1]]])
FileHit(resp, fileNb) == resp.k = "files" /\ Len(resp.files) >= 1 /\ resp.files[1].decodes /\ resp.files[1].nb = fileNb /\ resp.files[1].same
NotFound(resp) == resp.k = "status" /\ resp.code = 5
InOwnNamespace(nb) == IsPrefix(<<103, 114, 112, 99, 46, 114, 101, 102, 108, 101, 99, 116, 105, 111, 110>>, nb)      \* "grpc.reflection": tonic's own descriptors
Judge1(stim, q, resp, ownSvc) ==
  LET files == AllFiles(stim) IN
  CASE q.kind = "symbol" ->
         LET where == DeclaredIn(files, q.argb) IN
         << <<"C19.DeclaredSymbolResolvesToItsFile", where # {} => \E f \in where : FileHit(resp, f)>>,
            <<"C19.UnknownSymbolIsNotFound", (where = {} /\ q.argb \notin Siblings(files) /\ ~InOwnNamespace(q.argb)) => NotFound(resp)>> >>
    [] q.kind = "file" ->
         LET known == \E i \in 1..Len(files) : files[i].nb = q.argb IN
         << <<"C19.RegisteredFileIsRetrievable", known => FileHit(resp, q.argb)>>,
            <<"C19.UnknownFileIsNotFound", (~known /\ ~InOwnNamespace(q.argb) /\ q.argb # <<>>) => NotFound(resp)>> >>
    [] OTHER ->
         LET want == IF stim.chosen # <<>> THEN { stim.chosen_b[i] : i \in 1..Len(stim.chosen_b) }
                     ELSE Services(files) \cup (IF stim.include_reflection THEN {ownSvc} ELSE {}) IN
         << <<"C19.ServiceListIsExactlyTheDeclaredOrChosen", resp.k = "services" /\ SeqSet(resp.names) = want>> >>
Answer == /\ Live("answer")
          /\ JudgeK(Judge1(s.stim, E.q, E.v1, ReflV1) \o Judge1(s.stim, E.q, E.v1alpha, ReflV1a)
                    \o << <<"C19.V1AndV1alphaAgree", E.q.kind = "list" \/ E.v1 = E.v1alpha>> >>, [s EXCEPT !.n = @ + 1])
          /\ LET files == AllFiles(s.stim) hit == E.q.kind = "symbol" /\ DeclaredIn(files, E.q.argb) # {} IN
             Count((IF E.q.kind = "symbol" THEN (IF hit THEN {"symbol_hits"} ELSE {"symbol_misses"}) ELSE {})
                   \cup (IF E.q.kind = "file" THEN (IF \E i \in 1..Len(files) : files[i].nb = E.q.argb THEN {"file_hits"} ELSE {"file_misses"}) ELSE {})
                   \cup (IF E.q.kind = "list" THEN {"lists"} ELSE {})
                   \cup (IF E.q.kind = "symbol" /\ E.q.argb \in Siblings(files) THEN {"sibling_spellings"} ELSE {})
                   \cup (IF hit /\ Cardinality({ i \in 1..Len(E.q.argb) : E.q.argb[i] = 46 }) >= 3 THEN {"nested_names"} ELSE {}))
End == EndK(<< <<"RunComplete", E.outcome = "ok" => s.n = Len(s.stim.queries)>> >>)
Known == {"reset", "answer", "end"}
Next == Reset \/ Answer \/ End \/ UnknownK(Known) \/ DeadSkipK
Spec == Init /\ [][Next]_kvars
=============================================================================
