---------------------------- MODULE Trace_Reflect ----------------------------
(* Trace validation for the reflection lab (C19): each `answer` event carries one query and the responses of the
   v1 and the v1alpha service. *)
EXTENDS Reflection, TraceKit
ReflV1 == <<103, 114, 112, 99, 46, 114, 101, 102, 108, 101, 99, 116, 105, 111, 110, 46, 118, 49, 46, 83, 101, 114, 118, 101, 114, 82, 101, 102, 108, 101, 99, 116, 105, 111, 110>>
ReflV1a == <<103, 114, 112, 99, 46, 114, 101, 102, 108, 101, 99, 116, 105, 111, 110, 46, 118, 49, 97, 108, 112, 104, 97, 46, 83, 101, 114, 118, 101, 114, 82, 101, 102, 108, 101, 99, 116, 105, 111, 110>>
Fresh(stim) == [stim |-> stim, n |-> 0, ver |-> "", sent |-> <<>>, ngot |-> 0, over |-> FALSE, closed |-> FALSE, nsess |-> 0]
Keys == {"runs", "symbol_hits", "symbol_misses", "file_hits", "file_misses", "lists", "sibling_spellings", "nested_names", "duplicate_files", "sessions", "pipelined_reads", "session_errors", "session_ends"}
Init == InitK(Fresh([files |-> <<>>]), Keys)
Reset == ResetK(Fresh(E.stim)) /\ Count({"runs"} \cup (IF E.stim.dup THEN {"duplicate_files"} ELSE {}))
\* files in registration order: the registered sets one after the other (indices are 0-based in the stimulus)
AllFiles(stim) == FlattenSeq([k \in 1..Len(stim.sets) |-> [j \in 1..Len(stim.sets[k]) |-> stim.files[stim.sets[k][j] + 1]]])
FileHit(resp, fileNb) == resp.k = "files" /\ Len(resp.files) >= 1 /\ resp.files[1].decodes /\ resp.files[1].nb = fileNb /\ resp.files[1].same
NotFound(resp) == resp.k = "status" /\ resp.code = 5
InOwnNamespace(nb) == IsPrefix(<<103, 114, 112, 99, 46, 114, 101, 102, 108, 101, 99, 116, 105, 111, 110>>, nb)      \* "grpc.reflection": tonic's own descriptors
Judge1(stim, q, resp, ownSvc) ==
  LET files == AllFiles(stim) IN
  CASE q.kind = "symbol" ->
         LET where == DeclaredIn(files, q.argb) IN
         << <<"C19.DeclaredSymbolResolvesToItsFile", where # {} => \E f \in where : FileHit(resp, f)>>,
            <<"C19.UnknownSymbolIsNotFound", (where = {} /\ q.argb \notin Siblings(files) /\ ~InOwnNamespace(q.argb)) => NotFound(resp)>> >>
    [] q.kind = "file" ->
         LET known == \E i \in 1..Len(files) : files[i].nb = q.argb IN
         << <<"C19.RegisteredFileIsRetrievable", known => FileHit(resp, q.argb)>>,
            <<"C19.UnknownFileIsNotFound", (~known /\ ~InOwnNamespace(q.argb) /\ q.argb # <<>>) => NotFound(resp)>> >>
    [] OTHER ->
         LET want == IF stim.chosen # <<>> THEN { stim.chosen_b[i] : i \in 1..Len(stim.chosen_b) }
                     ELSE Services(files) \cup (IF stim.include_reflection THEN {ownSvc} ELSE {}) IN
         << <<"C19.ServiceListIsExactlyTheDeclaredOrChosen", resp.k = "services" /\ SeqSet(resp.names) = want>> >>
Answer == /\ Live("answer")
          /\ JudgeK(Judge1(s.stim, E.q, E.v1, ReflV1) \o Judge1(s.stim, E.q, E.v1alpha, ReflV1a)
                    \o << <<"C19.V1AndV1alphaAgree", E.q.kind = "list" \/ E.v1 = E.v1alpha>> >>, [s EXCEPT !.n = @ + 1])
          /\ LET files == AllFiles(s.stim) hit == E.q.kind = "symbol" /\ DeclaredIn(files, E.q.argb) # {} IN
             Count((IF E.q.kind = "symbol" THEN (IF hit THEN {"symbol_hits"} ELSE {"symbol_misses"}) ELSE {})
                   \cup (IF E.q.kind = "file" THEN (IF \E i \in 1..Len(files) : files[i].nb = E.q.argb THEN {"file_hits"} ELSE {"file_misses"}) ELSE {})
                   \cup (IF E.q.kind = "list" THEN {"lists"} ELSE {})
                   \cup (IF E.q.kind = "symbol" /\ E.q.argb \in Siblings(files) THEN {"sibling_spellings"} ELSE {})
                   \cup (IF hit /\ Cardinality({ i \in 1..Len(E.q.argb) : E.q.argb[i] = 46 }) >= 3 THEN {"nested_names"} ELSE {}))
\* ---- one stream carrying several queries (ReflStream.tla): answers come in the order of the queries, one per query, up to and
\* including the first error status, which ends the stream; a closed stream ends after the last answer
SessStart == /\ Live("sess_start") /\ Count({"sessions"})
             /\ JudgeK(<<>>, [s EXCEPT !.ver = E.ver, !.sent = <<>>, !.ngot = 0, !.over = FALSE, !.closed = FALSE, !.nsess = @ + 1])
SessSend == /\ Live("sess") /\ E.op = "send" /\ UNCHANGED stats /\ JudgeK(<<>>, [s EXCEPT !.sent = IF s.closed THEN @ ELSE Append(@, E.q)])
SessClose == /\ Live("sess") /\ E.op = "close" /\ UNCHANGED stats /\ JudgeK(<<>>, [s EXCEPT !.closed = TRUE])
SessOpen == /\ Live("sess") /\ E.op = "open" /\ UNCHANGED stats /\ JudgeK(<< <<"C19.StreamOpens", FALSE>> >>, s)
IsAnswer(resp) == resp.k \in {"files", "services"}
SessRecv ==
  /\ Live("sess") /\ E.op = "recv"
  /\ LET k == s.ngot + 1
         due == ~s.over /\ k <= Len(s.sent)
         own == IF s.ver = "v1" THEN ReflV1 ELSE ReflV1a IN
     /\ JudgeK((IF due THEN Judge1(s.stim, s.sent[k], E.res, own)
                           \o << <<"C19.EveryQueryOnAStreamIsAnswered", E.res.k \in {"files", "services", "status"}>>,
                                  <<"C19.AnswersFollowQueriesInOrder", IsAnswer(E.res) => (E.echo.kind = s.sent[k].kind /\ (E.echo.kind = "list" \/ E.echo.argb = s.sent[k].argb))>> >>
                 ELSE << <<"C19.NothingButTheEndWhenNoAnswerIsDue", E.res.k = "empty">> >>)
                \o << <<"NoHang", E.res.k # "hang">>, <<"HarnessOK", (E.want = "E") <=> ~due>> >>,
                [s EXCEPT !.ngot = IF due THEN k ELSE @, !.over = @ \/ E.res.k \in {"status", "empty"}])
     /\ Count((IF due /\ Len(s.sent) > k THEN {"pipelined_reads"} ELSE {}) \cup (IF E.res.k = "status" THEN {"session_errors"} ELSE {}) \cup (IF E.res.k = "empty" THEN {"session_ends"} ELSE {}))
End == EndK(<< <<"RunComplete", E.outcome = "ok" => s.n = Len(s.stim.queries)>> >>)
Known == {"reset", "answer", "end", "sess_start", "sess"}
Next == Reset \/ Answer \/ SessStart \/ SessSend \/ SessClose \/ SessOpen \/ SessRecv \/ End \/ UnknownK(Known) \/ DeadSkipK
Spec == Init /\ [][Next]_kvars
=============================================================================
