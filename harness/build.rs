// Generated services for the labs (tonic_build::manual: no protoc needed).
use tonic_build::manual::{Builder, Method, Service};

fn four_shapes(name: &str, pkg: &str, codec: &str, ty: &str) -> Service {
    let m = |n: &str, r: &str, cs: bool, ss: bool| {
        let mut b = Method::builder().name(n).route_name(r).input_type(ty).output_type(ty).codec_path(codec);
        if cs { b = b.client_streaming(); }
        if ss { b = b.server_streaming(); }
        b.build()
    };
    Service::builder().name(name).package(pkg)
        .method(m("unary", "Unary", false, false))
        .method(m("cstream", "CStream", true, false))
        .method(m("sstream", "SStream", false, true))
        .method(m("bidi", "Bidi", true, true))
        .build()
}

fn routing(name: &str, pkg: &str) -> Service {
    let m = |n: &str, r: &str| Method::builder().name(n).route_name(r)
        .input_type("Vec<u8>").output_type("Vec<u8>").codec_path("crate::codec::RawCodec").build();
    let b = Service::builder().name(name).package(pkg);
    b.method(m("m_upper", "M")).method(m("m_two", "M2")).method(m("m_lower", "m")).build()
}

/// a service whose full method paths are 63, 64, 65, 128, 129 and 300 bytes long (plus the three short ones)
fn routing_long() -> Service {
    let m = |n: &str, r: &str| Method::builder().name(n).route_name(r)
        .input_type("Vec<u8>").output_type("Vec<u8>").codec_path("crate::codec::RawCodec").build();
    Service::builder().name("ServiceWithAVeryLongName").package("lab.routing.longnames.v1")
        .method(m("m_upper", "M")).method(m("m_two", "M2")).method(m("m_lower", "m"))
        .method(m("l63", "LongMethodNa")).method(m("l64", "LongMethodNam")).method(m("l65", "LongMethodName")).method(m("l128", "LongMethodNameLongMethodNameLongMethodNameLongMethodNameLongMethodNameLongMet")).method(m("l129", "LongMethodNameLongMethodNameLongMethodNameLongMethodNameLongMethodNameLongMeth")).method(m("l300", "LongMethodNameLongMethodNameLongMethodNameLongMethodNameLongMethodNameLongMethodNameLongMethodNameLongMethodNameLongMethodNameLongMethodNameLongMethodNameLongMethodNameLongMethodNameLongMethodNameLongMethodNameLongMethodNameLongMethodNameLongMethodN")).build()
}

fn main() {
    println!("cargo:rerun-if-changed=build.rs");
    Builder::new().compile(&[
        four_shapes("Svc", "p.q", "crate::codec::RawCodec", "Vec<u8>"),
        four_shapes("PSvc", "p.q", "tonic::codec::ProstCodec", "crate::codec::TestMsg"),
        routing("S", "a"),
        routing("S2", "a"),
        routing("S", ""),
        routing("S", "a.b"),
        routing("s", "a"),
        routing_long(),
    ]);
}
