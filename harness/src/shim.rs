//! Counting allocator and a fragmenting / killable IO shim.
use std::pin::Pin;
use std::sync::atomic::{AtomicBool, AtomicUsize, Ordering};
use std::sync::Arc;
use std::task::{Context, Poll};
use tokio::io::{AsyncRead, AsyncWrite, ReadBuf};

pub struct Counting;
pub static MAX_ALLOC: AtomicUsize = AtomicUsize::new(0);
unsafe impl std::alloc::GlobalAlloc for Counting {
    unsafe fn alloc(&self, l: std::alloc::Layout) -> *mut u8 { MAX_ALLOC.fetch_max(l.size(), Ordering::Relaxed); std::alloc::System.alloc(l) }
    unsafe fn dealloc(&self, p: *mut u8, l: std::alloc::Layout) { std::alloc::System.dealloc(p, l) }
    unsafe fn realloc(&self, p: *mut u8, l: std::alloc::Layout, n: usize) -> *mut u8 { MAX_ALLOC.fetch_max(n, Ordering::Relaxed); std::alloc::System.realloc(p, l, n) }
}
pub fn alloc_window_start() { MAX_ALLOC.store(0, Ordering::SeqCst); }
pub fn alloc_window_max() -> usize { MAX_ALLOC.load(Ordering::SeqCst) }

/// Byte pipe end that reads/writes at most `rq`/`wq` bytes per poll, returns a spurious Pending every
/// `pend_every`-th read poll, and can be killed (reads see EOF, writes fail).
pub struct Shim {
    pub inner: tokio::io::DuplexStream,
    pub rq: usize,
    pub wq: usize,
    pub tick: usize,
    pub pend_every: usize,
    pub dead: Arc<AtomicBool>,
    pub wakers: Arc<std::sync::Mutex<Vec<std::task::Waker>>>,
}
/// Kill switch of a shim pair: both ends see EOF on read and errors on write; parked readers are woken.
#[derive(Clone)]
pub struct Kill { pub dead: Arc<AtomicBool>, pub wakers: Arc<std::sync::Mutex<Vec<std::task::Waker>>> }
impl Kill {
    pub fn kill(&self) {
        self.dead.store(true, Ordering::SeqCst);
        for w in self.wakers.lock().unwrap().drain(..) { w.wake(); }
    }
}
impl Shim {
    pub fn pair(cap: usize, rq: usize, wq: usize, pend_every: usize) -> (Shim, Shim, Arc<AtomicBool>) {
        let (a, b) = tokio::io::duplex(cap);
        let dead = Arc::new(AtomicBool::new(false));
        let wakers = Arc::new(std::sync::Mutex::new(vec![]));
        (
            Shim { inner: a, rq, wq, tick: 0, pend_every, dead: dead.clone(), wakers: wakers.clone() },
            Shim { inner: b, rq: wq, wq: rq, tick: 0, pend_every, dead: dead.clone(), wakers: wakers.clone() },
            dead,
        )
    }
    pub fn kill_switch(&self) -> Kill { Kill { dead: self.dead.clone(), wakers: self.wakers.clone() } }
}
impl AsyncRead for Shim {
    fn poll_read(mut self: Pin<&mut Self>, cx: &mut Context<'_>, buf: &mut ReadBuf<'_>) -> Poll<std::io::Result<()>> {
        if self.dead.load(Ordering::SeqCst) { return Poll::Ready(Ok(())); }
        self.tick += 1;
        if self.pend_every > 0 && self.tick % self.pend_every == 0 { cx.waker().wake_by_ref(); return Poll::Pending; }
        let n = self.rq.max(1).min(buf.remaining());
        let mut small = buf.take(n);
        let r = Pin::new(&mut self.inner).poll_read(cx, &mut small);
        if r.is_pending() { self.wakers.lock().unwrap().push(cx.waker().clone()); }
        let filled = small.filled().len();
        if let Poll::Ready(Ok(())) = r { unsafe { buf.assume_init(filled); } buf.advance(filled); }
        r
    }
}
impl AsyncWrite for Shim {
    fn poll_write(mut self: Pin<&mut Self>, cx: &mut Context<'_>, data: &[u8]) -> Poll<std::io::Result<usize>> {
        if self.dead.load(Ordering::SeqCst) { return Poll::Ready(Err(std::io::ErrorKind::BrokenPipe.into())); }
        let n = self.wq.max(1).min(data.len());
        Pin::new(&mut self.inner).poll_write(cx, &data[..n])
    }
    fn poll_flush(mut self: Pin<&mut Self>, cx: &mut Context<'_>) -> Poll<std::io::Result<()>> { Pin::new(&mut self.inner).poll_flush(cx) }
    fn poll_shutdown(mut self: Pin<&mut Self>, cx: &mut Context<'_>) -> Poll<std::io::Result<()>> { Pin::new(&mut self.inner).poll_shutdown(cx) }
}
/// The pipe presents itself to the server as a TCP connection (made-up loopback addresses), so that the accessors of `Request` that
/// only know TCP connect infos (`remote_addr`, `peer_certs`) work over it as they do over a socket.
impl tonic::transport::server::Connected for Shim {
    type ConnectInfo = tonic::transport::server::TcpConnectInfo;
    fn connect_info(&self) -> Self::ConnectInfo {
        tonic::transport::server::TcpConnectInfo { local_addr: Some(([127, 0, 0, 1], 50051).into()), remote_addr: Some(([127, 0, 0, 1], 40000).into()) }
    }
}
