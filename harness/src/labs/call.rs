//! Call lab: one RPC end to end through the generated client and server (C02, C03 head clauses, C05, C08),
//! in-process (generated server struct as the client's transport, both bodies tapped) or over real h2
//! through the fragmenting shim; plus raw http requests into the server stack (C05 request side).
//!
//! Stimulus:
//!   mode: "client" | "raw" | "mock" | "wire"
//!   transport: "inproc" | "h2"; shim: {rq, wq, pend, cap}
//!   shape: "unary" | "cstream" | "sstream" | "bidi"
//!   server: {send:[enc..], accept:[enc..], max_dec, max_enc}
//!   client: {send: enc|"", accept:[enc..], max_dec, max_enc, timeout_ms}
//!   req: {meta:[{n,bin,v}], msgs:[[..]..]}
//!   script: {init_meta:[..], msgs:[[..]..], end:{ok:true}|{ok:false,code,msg,details,meta}, fail_before:bool, no_compress:bool}
//!   raw: {method, version, uri, headers:[{n,v}], body:[..]}           (mode "raw")
use crate::codec::RawCodec;
use crate::labs::status::{build_meta, headers_json, meta_json, status_full_json};
use crate::labs::Rec;
use crate::shim::Shim;
use crate::util::*;
use bytes::Bytes;
use http_body::{Body as HttpBody, Frame};
use rand::{Rng, SeedableRng};
use serde_json::{json, Value};
use std::future::Future;
use std::pin::Pin;
use std::sync::Arc;
use std::task::{Context, Poll};
use tonic::body::Body;
use tonic::codec::CompressionEncoding;
use tonic::{Code, Request, Response, Status, Streaming};
use tower::util::BoxCloneService;
use tower::{Service, ServiceExt};

pub mod gen {
    pub mod svc { include!(concat!(env!("OUT_DIR"), "/p.q.Svc.rs")); }
    pub mod psvc { include!(concat!(env!("OUT_DIR"), "/p.q.PSvc.rs")); }
}
use gen::svc::svc_client::SvcClient;
use gen::svc::svc_server::{Svc, SvcServer};

pub type BoxErr = Box<dyn std::error::Error + Send + Sync>;
pub type Stack = BoxCloneService<http::Request<Body>, http::Response<Body>, BoxErr>;

// ---------------------------------------------------------------- body tap
pub struct TapBody { inner: Body, log: Rec, side: &'static str, done: bool }
impl TapBody { pub fn new(inner: Body, log: Rec, side: &'static str) -> Self { TapBody { inner, log, side, done: false } } }
/// Concatenated DATA bytes per side of a run, with the projection's frame walk (see framing::frames_hint).
pub fn bodies_event(events: &[Value]) -> Value {
    let mut req = vec![]; let mut resp = vec![];
    for e in events { if e["e"] == "frame" && e["k"] == "data" { let b = json_bytes(&e["bytes"]); if e["side"] == "req" { req.extend(b) } else { resp.extend(b) } } }
    json!({"e":"bodies","req":{"bytes":bytes_json(&req),"frames":crate::labs::framing::frames_hint(&req)},
           "resp":{"bytes":bytes_json(&resp),"frames":crate::labs::framing::frames_hint(&resp)}})
}
impl HttpBody for TapBody {
    type Data = Bytes;
    type Error = Status;
    fn poll_frame(mut self: Pin<&mut Self>, cx: &mut Context<'_>) -> Poll<Option<Result<Frame<Bytes>, Status>>> {
        let r = Pin::new(&mut self.inner).poll_frame(cx);
        match &r {
            Poll::Pending => {}
            Poll::Ready(None) => { if !self.done { self.done = true; self.log.ev(json!({"e":"frame","side":self.side,"k":"end"})); } }
            Poll::Ready(Some(Err(s))) => self.log.ev(json!({"e":"frame","side":self.side,"k":"err","code":s.code() as i32})),
            Poll::Ready(Some(Ok(f))) => {
                if let Some(d) = f.data_ref() { self.log.ev(json!({"e":"frame","side":self.side,"k":"data","bytes":bytes_json(d)})); }
                else if let Some(t) = f.trailers_ref() { self.log.ev(json!({"e":"frame","side":self.side,"k":"trailers","list":headers_json(t)})); }
            }
        }
        r
    }
    fn is_end_stream(&self) -> bool { self.inner.is_end_stream() }
}

// ---------------------------------------------------------------- capturing transport (in-process)
#[derive(Clone)]
pub struct Capture { pub inner: Stack, pub log: Rec }
impl Service<http::Request<Body>> for Capture {
    type Response = http::Response<Body>;
    type Error = BoxErr;
    type Future = Pin<Box<dyn Future<Output = Result<Self::Response, BoxErr>> + Send>>;
    fn poll_ready(&mut self, cx: &mut Context<'_>) -> Poll<Result<(), BoxErr>> { self.inner.poll_ready(cx) }
    fn call(&mut self, req: http::Request<Body>) -> Self::Future {
        let (parts, body) = req.into_parts();
        self.log.ev(json!({"e":"req_head","method":parts.method.as_str(),"version":format!("{:?}", parts.version),
            "path": str_json(parts.uri.path()), "uri": str_json(&parts.uri.to_string()), "list": headers_json(&parts.headers)}));
        let body = Body::new(TapBody::new(body, self.log.clone(), "req"));
        let fut = self.inner.call(http::Request::from_parts(parts, body));
        let log = self.log.clone();
        Box::pin(async move {
            let resp = fut.await?;
            let (parts, body) = resp.into_parts();
            // eos: the body reports its end before it is polled (in-process: what the transport would ask before writing the HEADERS
            // frame; over h2: END_STREAM was on the HEADERS frame)
            log.ev(json!({"e":"resp_head","status":parts.status.as_u16(),"list":headers_json(&parts.headers),"eos":HttpBody::is_end_stream(&body)}));
            Ok(http::Response::from_parts(parts, Body::new(TapBody::new(body, log, "resp"))))
        })
    }
}

// ---------------------------------------------------------------- scripted handler
#[derive(Clone)]
pub struct Handler { pub script: Arc<Value>, pub log: Rec }
type BoxStream = Pin<Box<dyn tokio_stream::Stream<Item = Result<Vec<u8>, Status>> + Send>>;
/// The caller's request stream: not fused either (polled after its end it produces a message nobody sent), Pending once
/// before the positions in `pend_before`.
struct StrictReq { items: std::collections::VecDeque<Vec<u8>>, ended: bool, complained: bool, pend_before: Vec<usize>, k: usize, pended: bool }
impl StrictReq { fn new(msgs: &[Vec<u8>], pend_before: Vec<usize>) -> Self { StrictReq { items: msgs.iter().cloned().collect(), ended: false, complained: false, pend_before, k: 0, pended: false } } }
impl tokio_stream::Stream for StrictReq {
    type Item = Vec<u8>;
    fn poll_next(mut self: Pin<&mut Self>, cx: &mut Context<'_>) -> Poll<Option<Vec<u8>>> {
        if self.ended { if self.complained { return Poll::Ready(None); } self.complained = true; return Poll::Ready(Some(b"request stream polled after it had ended".to_vec())); }
        if !self.pended && self.pend_before.contains(&self.k) { self.pended = true; cx.waker().wake_by_ref(); return Poll::Pending; }
        self.pended = false; self.k += 1;
        match self.items.pop_front() { Some(x) => Poll::Ready(Some(x)), None => { self.ended = true; Poll::Ready(None) } }
    }
    // like an iterator-backed stream, it knows its exact length when it never pends (some code paths look at the hint)
    fn size_hint(&self) -> (usize, Option<usize>) { if self.pend_before.is_empty() && !self.ended { (self.items.len(), Some(self.items.len())) } else { (0, None) } }
}
/// The handler's response stream: every item ready at once, and NOT fused - if it is polled again after it has ended it says so
/// with an error item (a stream is allowed to do anything then), so that such a poll becomes visible to the caller.
struct StrictStream { items: std::collections::VecDeque<Result<Vec<u8>, Status>>, ended: bool, complained: bool, pend_before: Vec<usize>, k: usize, pended: bool }
impl tokio_stream::Stream for StrictStream {
    type Item = Result<Vec<u8>, Status>;
    fn poll_next(mut self: Pin<&mut Self>, cx: &mut Context<'_>) -> Poll<Option<Self::Item>> {
        if self.ended { if self.complained { return Poll::Ready(None); } self.complained = true; return Poll::Ready(Some(Err(Status::data_loss("handler stream polled after it had ended")))); }
        // script.stream_pend: positions (item indices, the end counts as one more) before which the stream is Pending once
        if !self.pended && self.pend_before.contains(&self.k) { self.pended = true; cx.waker().wake_by_ref(); return Poll::Pending; }
        self.pended = false; self.k += 1;
        match self.items.pop_front() { Some(x) => Poll::Ready(Some(x)), None => { self.ended = true; Poll::Ready(None) } }
    }
    // like an iterator-backed stream, it knows its exact length when it never pends (some code paths look at the hint)
    fn size_hint(&self) -> (usize, Option<usize>) { if self.pend_before.is_empty() && !self.ended { (self.items.len(), Some(self.items.len())) } else { (0, None) } }
}
/// An application error that carries a Status as its `source()` (a gateway wrapping a downstream failure).
#[derive(Debug)]
struct Wrapped(Status);
impl std::fmt::Display for Wrapped { fn fmt(&self, f: &mut std::fmt::Formatter<'_>) -> std::fmt::Result { write!(f, "wrapped") } }
impl std::error::Error for Wrapped { fn source(&self) -> Option<&(dyn std::error::Error + 'static)> { Some(&self.0) } }
/// script.latency_ms (+ script.latency_us for sub-millisecond values): how long the handler takes before it answers
fn latency_of(sc: &Value) -> Option<std::time::Duration> {
    match (sc["latency_ms"].as_u64(), sc["latency_us"].as_u64()) { (None, None) => None, (a, b) => Some(std::time::Duration::from_micros(a.unwrap_or(0) * 1000 + b.unwrap_or(0))) }
}
fn dur_of(v: &Value, ms: &str, us: &str) -> Option<std::time::Duration> {
    match (v[ms].as_u64(), v[us].as_u64()) { (None, None) => None, (a, b) => Some(std::time::Duration::from_micros(a.unwrap_or(0) * 1000 + b.unwrap_or(0))) }
}
fn script_status(end: &Value) -> Status {
    let (meta, _) = build_meta(&end["meta"]);
    let st = Status::with_details_and_metadata(Code::from_i32(end["code"].as_i64().unwrap_or(2) as i32),
        String::from_utf8_lossy(&json_bytes(&end["msg"])).into_owned(), json_bytes(&end["details"]).into(), meta);
    // end.via: how the handler hands its status over - directly, as a boxed error (Status::from_error), or one / two levels down the
    // source chain of its own error type: the caller must see the same status either way
    match end["via"].as_str().unwrap_or("direct") {
        "boxed" => Status::from_error(Box::new(st)),
        "source" => Status::from_error(Box::new(Wrapped(st))),
        "source2" => Status::from_error(Box::new(std::io::Error::other(Wrapped(st)))),
        _ => st,
    }
}
impl Handler {
    fn log_req(&self, md: &tonic::metadata::MetadataMap, msgs: Vec<Vec<u8>>, err: Option<&Status>) {
        // the warm-up call is not part of the judged run, wherever and whenever the server gets to it
        if md.contains_key("x-lab-warmup") { return; }
        self.log.ev(json!({"e":"srv_req","meta":meta_json(md),"msgs":msgs.iter().map(|m| bytes_json(m)).collect::<Vec<_>>(),
            "err": err.map(|e| e.code() as i32).unwrap_or(-1)}));
    }
    async fn collect(s: &mut Streaming<Vec<u8>>) -> (Vec<Vec<u8>>, Option<Status>) {
        let mut v = vec![];
        loop { match s.message().await { Ok(Some(m)) => v.push(m), Ok(None) => return (v, None), Err(e) => return (v, Some(e)) } }
    }
    fn single(&self) -> Result<Response<Vec<u8>>, Status> {
        let sc = &self.script;
        if !sc["end"]["ok"].as_bool().unwrap_or(true) { return Err(script_status(&sc["end"])); }
        let msg = sc["msgs"].as_array().and_then(|a| a.first()).map(json_bytes).unwrap_or_default();
        let (m, _) = build_meta(&sc["init_meta"]);
        // likewise for the response: metadata on the finished response, on a placeholder that is map()ped, or through from_parts
        let mut r = match m.len() % 3 {
            1 => { let mut r0 = Response::new(()); *r0.metadata_mut() = m; r0.map(move |_| msg) }
            2 => Response::from_parts(m, msg, tonic::Extensions::default()),
            _ => { let mut r = Response::new(msg); *r.metadata_mut() = m; r }
        };
        if sc["no_compress"].as_bool().unwrap_or(false) { r.disable_compression(); }
        Ok(r)
    }
    fn stream(&self) -> Result<Response<BoxStream>, Status> {
        let sc = &self.script;
        if sc["fail_before"].as_bool().unwrap_or(false) { return Err(script_status(&sc["end"])); }
        let mut items: Vec<Result<Vec<u8>, Status>> = sc["msgs"].as_array().cloned().unwrap_or_default().iter().map(|m| Ok(json_bytes(m))).collect();
        if !sc["end"]["ok"].as_bool().unwrap_or(true) { items.push(Err(script_status(&sc["end"]))); }
        // a successful stream with trailing metadata: the only way a handler can attach custom trailers without failing the call is to end
        // its stream with an OK status that carries them
        else if sc["end"]["meta"].as_array().map(|a| !a.is_empty()).unwrap_or(false) { let (m, _) = build_meta(&sc["end"]["meta"]); items.push(Err(Status::with_metadata(Code::Ok, "", m))); }
        let pend_before: Vec<usize> = sc["stream_pend"].as_array().map(|a| a.iter().filter_map(|x| x.as_u64()).map(|x| x as usize).collect()).unwrap_or_default();
        let mut r = Response::new(Box::pin(StrictStream { items: items.into(), ended: false, complained: false, pend_before, k: 0, pended: false }) as BoxStream);
        let (m, _) = build_meta(&sc["init_meta"]);
        *r.metadata_mut() = m;
        if sc["no_compress"].as_bool().unwrap_or(false) { r.disable_compression(); }
        Ok(r)
    }
}
#[tonic::async_trait]
impl Svc for Handler {
    async fn unary(&self, r: Request<Vec<u8>>) -> Result<Response<Vec<u8>>, Status> {
        self.log_req(r.metadata(), vec![r.get_ref().clone()], None);
        if let Some(d) = latency_of(&self.script) { tokio::time::sleep(d).await; self.log.ev(json!({"e":"srv_done"})); }
        self.single()
    }
    async fn cstream(&self, r: Request<Streaming<Vec<u8>>>) -> Result<Response<Vec<u8>>, Status> {
        let (md, _ext, mut s) = r.into_parts();
        let (msgs, err) = Self::collect(&mut s).await;
        self.log_req(&md, msgs, err.as_ref());
        if let Some(e) = err { return Err(e); }
        if let Some(d) = latency_of(&self.script) { tokio::time::sleep(d).await; self.log.ev(json!({"e":"srv_done"})); }
        self.single()
    }
    type SStreamStream = BoxStream;
    async fn sstream(&self, r: Request<Vec<u8>>) -> Result<Response<BoxStream>, Status> {
        self.log_req(r.metadata(), vec![r.get_ref().clone()], None);
        if let Some(d) = latency_of(&self.script) { tokio::time::sleep(d).await; self.log.ev(json!({"e":"srv_done"})); }
        self.stream()
    }
    type BidiStream = BoxStream;
    async fn bidi(&self, r: Request<Streaming<Vec<u8>>>) -> Result<Response<BoxStream>, Status> {
        let (md, _ext, mut s) = r.into_parts();
        let (msgs, err) = Self::collect(&mut s).await;
        self.log_req(&md, msgs, err.as_ref());
        if let Some(e) = err { return Err(e); }
        if let Some(d) = latency_of(&self.script) { tokio::time::sleep(d).await; self.log.ev(json!({"e":"srv_done"})); }
        self.stream()
    }
}

pub fn enc_of(s: &str) -> Option<CompressionEncoding> { crate::labs::framing::enc_of(s) }
/// -1 = not configured; -2, -3, -4 = limits beyond the 32-bit length prefix (2^32, 2^32 + 16, usize::MAX)
fn lim(v: &Value) -> Option<usize> { match v.as_i64().unwrap_or(-1) { -2 => Some(1usize << 32), -3 => Some((1usize << 32) + 16), -4 => Some(usize::MAX), n if n < 0 => None, n => Some(n as usize) } }

pub fn build_server(stim: &Value, log: &Rec) -> SvcServer<Handler> {
    let mut svc = SvcServer::new(Handler { script: Arc::new(stim["script"].clone()), log: log.clone() });
    for e in stim["server"]["send"].as_array().cloned().unwrap_or_default() { if let Some(e) = enc_of(e.as_str().unwrap_or("")) { svc = svc.send_compressed(e); } }
    for e in stim["server"]["accept"].as_array().cloned().unwrap_or_default() { if let Some(e) = enc_of(e.as_str().unwrap_or("")) { svc = svc.accept_compressed(e); } }
    if let Some(n) = lim(&stim["server"]["max_dec"]) { svc = svc.max_decoding_message_size(n); }
    if let Some(n) = lim(&stim["server"]["max_enc"]) { svc = svc.max_encoding_message_size(n); }
    svc
}
pub fn stack_of(svc: SvcServer<Handler>) -> Stack {
    BoxCloneService::new(tower::ServiceExt::<http::Request<Body>>::map_err(svc, |e: std::convert::Infallible| -> BoxErr { match e {} }))
}

fn client_result_events(log: &Rec, kind: &str, init: Option<&tonic::metadata::MetadataMap>, msgs: &[Vec<u8>], fin: Result<Option<tonic::metadata::MetadataMap>, Status>) {
    let (ok, st, tr) = match fin {
        Ok(t) => (true, json!({"some": false}), t.map(|m| meta_json(&m)).unwrap_or(json!([]))),
        Err(s) => (false, status_full_json(&s), json!([])),
    };
    log.ev(json!({"e":"cli","kind":kind,"got_head": init.is_some(), "init": init.map(meta_json).unwrap_or(json!([])),
        "msgs": msgs.iter().map(|m| bytes_json(m)).collect::<Vec<_>>(), "ok": ok, "st": st, "trailers": tr}));
}

/// Polls a future once; true if it completed.
async fn futures_lite_poll_once<F: std::future::Future>(mut f: Pin<&mut F>) -> bool {
    std::future::poll_fn(|cx| Poll::Ready(f.as_mut().poll(cx).is_ready())).await
}
async fn drive_client<T>(mut cl: SvcClient<T>, stim: &Value, log: &Rec)
where
    T: tonic::client::GrpcService<Body> + Send + Clone,
    T::Error: Into<BoxErr>,
    T::ResponseBody: HttpBody<Data = Bytes> + Send + 'static,
    <T::ResponseBody as HttpBody>::Error: Into<BoxErr> + Send,
    T::Future: Send,
{
    let c = &stim["client"];
    if let Some(e) = enc_of(c["send"].as_str().unwrap_or("")) { cl = cl.send_compressed(e); }
    for e in c["accept"].as_array().cloned().unwrap_or_default() { if let Some(e) = enc_of(e.as_str().unwrap_or("")) { cl = cl.accept_compressed(e); } }
    if let Some(n) = lim(&c["max_dec"]) { cl = cl.max_decoding_message_size(n); }
    if let Some(n) = lim(&c["max_enc"]) { cl = cl.max_encoding_message_size(n); }
    // client.clone: the call is made on a clone of the configured client (generated clients are Clone; a clone must behave
    // like the client it was cloned from)
    if c["clone"].as_bool().unwrap_or(false) { let copy = cl.clone(); drop(cl); cl = copy; }
    let msgs: Vec<Vec<u8>> = stim["req"]["msgs"].as_array().cloned().unwrap_or_default().iter().map(json_bytes).collect();
    let (meta, rejected) = build_meta(&stim["req"]["meta"]);
    // client.warmup: an unrecorded unary call is made first on the same client and connection (it ends however the script says);
    // the judged call is then the client's and the connection's second use and must not be affected
    // client.warmup = "cancel": that first call is dropped by the caller after it has been polled a few times (a cancelled call)
    let warm = if c["warmup"].is_string() { c["warmup"].as_str().unwrap_or("").to_string() } else if c["warmup"].as_bool().unwrap_or(false) { "full".to_string() } else { String::new() };
    if !warm.is_empty() {
        crate::labs::REC_PAUSED.store(true, std::sync::atomic::Ordering::SeqCst);
        {
            let mut wr = Request::new(msgs.first().cloned().unwrap_or_default());
            wr.metadata_mut().insert("x-lab-warmup", tonic::metadata::MetadataValue::from_static("1"));
            let fut = cl.unary(wr);
            if warm == "cancel" {
                let mut fut = std::pin::pin!(fut);
                for _ in 0..3 { if futures_lite_poll_once(fut.as_mut()).await { break; } tokio::task::yield_now().await; }
            } else { let _ = tokio::time::timeout(std::time::Duration::from_secs(30), fut).await; }
        }
        // let the transport and the server see the cancellation / the end of the call before the judged call starts
        for _ in 0..5 { tokio::task::yield_now().await; }
        crate::labs::REC_PAUSED.store(false, std::sync::atomic::Ordering::SeqCst);
    }
    log.ev(json!({"e":"cli_built","rejected":rejected}));
    let tmo = dur_of(c, "timeout_ms", "timeout_us");
    // the request is assembled in one of the ways the API offers, chosen by the number of metadata entries: metadata set on the finished
    // request, on a placeholder that is then map()ped to the payload, or through from_parts
    macro_rules! mkreq { ($payload:expr) => {{
        let mut r = match meta.len() % 3 {
            1 => { let mut r0 = Request::new(()); *r0.metadata_mut() = meta.clone(); let p = $payload; r0.map(move |_| p) }
            2 => Request::from_parts(meta.clone(), tonic::Extensions::default(), $payload),
            _ => { let mut r = Request::new($payload); *r.metadata_mut() = meta.clone(); r }
        };
        if let Some(t) = tmo { r.set_timeout(t); } r }}; }
    let shape = stim["shape"].as_str().unwrap_or("unary");
    let req_pend: Vec<usize> = stim["req"]["pend"].as_array().map(|a| a.iter().filter_map(|x| x.as_u64()).map(|x| x as usize).collect()).unwrap_or_default();
    let t0 = tokio::time::Instant::now();
    let log_t = log.clone();
    let _timing = Defer(Some(move || log_t.ev(json!({"e":"timing","elapsed_ms": t0.elapsed().as_millis() as u64}))));
    // client.noise = n: while the judged call runs, n other (unrecorded, marked) unary calls with 3 kB messages are made one after
    // the other on a clone of the client, so that over h2 the frames of two streams interleave on the connection
    let noise_n = c["noise"].as_u64().unwrap_or(0);
    let mut noise_cl = cl.clone();
    let noise = async move {
        for _ in 0..noise_n {
            let mut wr = Request::new(vec![0x5au8; 3000]);
            wr.metadata_mut().insert("x-lab-warmup", tonic::metadata::MetadataValue::from_static("1"));
            let _ = tokio::time::timeout(std::time::Duration::from_secs(30), noise_cl.unary(wr)).await;
        }
    };
    let judged = async {
        match shape {
            "unary" | "cstream" => {
                let r = if shape == "unary" { cl.unary(mkreq!(msgs.first().cloned().unwrap_or_default())).await }
                        else { cl.cstream(mkreq!(StrictReq::new(&msgs, req_pend.clone()))).await };
                match r {
                    Ok(resp) => { let (md, m, _) = resp.into_parts(); client_result_events(log, "single", Some(&md), &[m], Ok(None)); }
                    Err(s) => client_result_events(log, "single", None, &[], Err(s)),
                }
            }
            _ => {
                let r = if shape == "sstream" { cl.sstream(mkreq!(msgs.first().cloned().unwrap_or_default())).await }
                        else { cl.bidi(mkreq!(StrictReq::new(&msgs, req_pend.clone()))).await };
                match r {
                    Err(s) => client_result_events(log, "stream", None, &[], Err(s)),
                    Ok(resp) => {
                        let (md, mut st, _) = resp.into_parts();
                        let mut got = vec![];
                        let fin = loop {
                            match st.message().await { Ok(Some(m)) => got.push(m), Ok(None) => break st.trailers().await, Err(e) => break Err(e) }
                            if got.len() > 10000 { break Err(Status::internal("harness: runaway stream")); }
                        };
                        client_result_events(log, "stream", Some(&md), &got, fin);
                    }
                }
            }
        }
    };
    tokio::join!(judged, noise);
}

struct Defer<F: FnOnce()>(Option<F>);
impl<F: FnOnce()> Drop for Defer<F> { fn drop(&mut self) { if let Some(f) = self.0.take() { f() } } }

async fn run_client_inproc(stim: &Value, log: &Rec) {
    let svc = build_server(stim, log);
    let cap = Capture { inner: stack_of(svc), log: log.clone() };
    // client.origin: the client is built with `with_origin` and an origin that has a path prefix (a service mounted below /api behind a
    // gateway); the transport plays the gateway and strips the prefix before the request reaches the service
    match stim["client"]["origin"].as_str() {
        Some(o) => drive_client(SvcClient::with_origin(StripPrefix(cap), o.parse::<http::Uri>().expect("origin")), stim, log).await,
        None => drive_client(SvcClient::new(cap), stim, log).await,
    }
}
/// forwards a request whose path contains "/p.q.Svc/" with everything before that removed (a gateway's path rewrite)
#[derive(Clone)]
struct StripPrefix(Capture);
impl Service<http::Request<Body>> for StripPrefix {
    type Response = http::Response<Body>;
    type Error = BoxErr;
    type Future = Pin<Box<dyn Future<Output = Result<Self::Response, BoxErr>> + Send>>;
    fn poll_ready(&mut self, cx: &mut Context<'_>) -> Poll<Result<(), BoxErr>> { self.0.poll_ready(cx) }
    fn call(&mut self, req: http::Request<Body>) -> Self::Future {
        // the request head is recorded as the client made it; the service then sees the method path alone
        let (mut parts, body) = req.into_parts();
        let recorded = http::Request::from_parts(parts.clone(), ());
        let _ = recorded;
        let path = parts.uri.path().to_string();
        let log = self.0.log.clone();
        log.ev(json!({"e":"req_head","method":parts.method.as_str(),"version":format!("{:?}", parts.version),
            "path": str_json(&path), "uri": str_json(&parts.uri.to_string()), "list": headers_json(&parts.headers)}));
        if let Some(i) = path.find("/p.q.Svc/") { parts.uri = path[i..].parse().unwrap_or(parts.uri.clone()); }
        let body = Body::new(TapBody::new(body, log.clone(), "req"));
        let fut = self.0.inner.call(http::Request::from_parts(parts, body));
        Box::pin(async move {
            let resp = fut.await?;
            let (parts, body) = resp.into_parts();
            log.ev(json!({"e":"resp_head","status":parts.status.as_u16(),"list":headers_json(&parts.headers),"eos":HttpBody::is_end_stream(&body)}));
            Ok(http::Response::from_parts(parts, Body::new(TapBody::new(body, log, "resp"))))
        })
    }
}

async fn run_client_h2(stim: &Value, log: &Rec) {
    let sh = &stim["shim"];
    let (c_io, s_io, _dead) = Shim::pair(sh["cap"].as_u64().unwrap_or(65536) as usize, sh["rq"].as_u64().unwrap_or(65536) as usize,
        sh["wq"].as_u64().unwrap_or(65536) as usize, sh["pend"].as_u64().unwrap_or(0) as usize);
    let svc = build_server(stim, log);
    let mut keep_open: Vec<Shim> = vec![];
    let srv = if stim["server"]["blackhole"].as_bool().unwrap_or(false) {
        // a peer that speaks HTTP/2, accepts every request and never answers (and is not tonic: it knows nothing about
        // grpc-timeout), so only the caller's own timer can end the call
        tokio::spawn(async move {
            if let Ok(mut conn) = h2::server::handshake(s_io).await {
                let mut held = vec![];
                while let Some(Ok((req, respond))) = conn.accept().await { held.push((req, respond)); }
            }
        })
    } else {
        // server.earlier_conns: that many other connections are accepted first (their client halves stay open, unused): the
        // connection under test is then not the server's first one
        let mut ios = vec![];
        for _ in 0..stim["server"]["earlier_conns"].as_u64().unwrap_or(0) { let (c0, s0, _d0) = Shim::pair(65536, 65536, 65536, 0); keep_open.push(c0); ios.push(Ok::<_, std::io::Error>(s0)); }
        ios.push(Ok(s_io));
        let incoming = tokio_stream::StreamExt::chain(tokio_stream::iter(ios), tokio_stream::pending());
        let mut sb = tonic::transport::Server::builder();
        // server.h2opts: HTTP/2 transport knobs (small flow-control windows, adaptive window, frame size, one stream at a time, keep-alive
        // pings): they shape how bytes travel and must not change what a call observes
        for o in stim["server"]["h2opts"].as_array().cloned().unwrap_or_default() {
            sb = match o.as_str().unwrap_or("") {
                "small_stream_window" => sb.initial_stream_window_size(Some(1024)),
                "small_conn_window" => sb.initial_connection_window_size(Some(4096)),
                "adaptive_window" => sb.http2_adaptive_window(Some(true)),
                "big_frames" => sb.max_frame_size(Some(1 << 20)),
                "one_stream" => sb.max_concurrent_streams(Some(1)),
                "keepalive" => sb.http2_keepalive_interval(Some(std::time::Duration::from_millis(700))).http2_keepalive_timeout(Some(std::time::Duration::from_secs(5))),
                "header_list" => sb.http2_max_header_list_size(Some(1 << 20)),
                "nodelay" => sb.tcp_nodelay(true).tcp_keepalive(Some(std::time::Duration::from_secs(60))),
                _ => sb,
            };
        }
        // server.layer: a (do-nothing) tower layer added to the builder before or after the timeout is configured - the order of
        // builder calls must not matter
        let tmo = dur_of(&stim["server"], "timeout_ms", "timeout_us");
        match stim["server"]["layer"].as_str().unwrap_or("none") {
            "after_timeout" => {
                if let Some(t) = tmo { sb = sb.timeout(t); }
                let mut sb = sb.layer(tower::layer::util::Identity::new());
                tokio::spawn(async move { let _ = sb.add_service(svc).serve_with_incoming(incoming).await; })
            }
            "before_timeout" => {
                let mut sb = sb.layer(tower::layer::util::Identity::new());
                if let Some(t) = tmo { sb = sb.timeout(t); }
                tokio::spawn(async move { let _ = sb.add_service(svc).serve_with_incoming(incoming).await; })
            }
            _ => {
                if let Some(t) = tmo { sb = sb.timeout(t); }
                tokio::spawn(async move { let _ = sb.add_service(svc).serve_with_incoming(incoming).await; })
            }
        }
    };
    let mut c = Some(c_io);
    let mut ep = tonic::transport::Endpoint::from_static("http://lab.test");
    if let Some(ms) = stim["client"]["endpoint_timeout_ms"].as_u64() { ep = ep.timeout(std::time::Duration::from_millis(ms)); }
    // client.h2opts: the same kind of knobs on the channel
    for o in stim["client"]["h2opts"].as_array().cloned().unwrap_or_default() {
        ep = match o.as_str().unwrap_or("") {
            "small_stream_window" => ep.initial_stream_window_size(Some(1024)),
            "small_conn_window" => ep.initial_connection_window_size(Some(4096)),
            "adaptive_window" => ep.http2_adaptive_window(true),
            "keepalive" => ep.http2_keep_alive_interval(std::time::Duration::from_millis(900)).keep_alive_timeout(std::time::Duration::from_secs(5)).keep_alive_while_idle(true),
            "header_list" => ep.http2_max_header_list_size(1 << 20),
            "nodelay" => ep.tcp_nodelay(true).tcp_keepalive(Some(std::time::Duration::from_secs(60))),
            _ => ep,
        };
    }
    let ch = ep
        .connect_with_connector(tower::service_fn(move |_: http::Uri| { let c = c.take(); async move { c.map(hyper_util::rt::TokioIo::new).ok_or_else(|| std::io::Error::other("no more connections")) } }))
        .await;
    match ch {
        Ok(ch) => {
            // client.idle_ms: the (eagerly connected) channel sits idle for that long before its first call: time that must not count
            // against any call's deadline
            if let Some(ms) = stim["client"]["idle_ms"].as_u64() { tokio::time::sleep(std::time::Duration::from_millis(ms)).await; }
            // client.raw_timeout: the grpc-timeout header is overwritten with these bytes on the way out (malformed values
            // cannot be produced through Request::set_timeout); the channel's own timeout layer and the server both see it
            // client.ctype: the content type is replaced on the way out by another member of the gRPC family (application/grpc+proto: what
            // other stacks send); deadlines apply to such a call like to any other
            if stim["client"]["raw_timeout"].is_array() || stim["client"]["ctype"].is_string() {
                let raw = if stim["client"]["raw_timeout"].is_array() { Some(json_bytes(&stim["client"]["raw_timeout"])) } else { None };
                let ctype = stim["client"]["ctype"].as_str().map(|s| s.to_string());
                let svc = tower::ServiceBuilder::new().map_request(move |mut r: http::Request<Body>| {
                    if let Some(raw) = &raw { if let Ok(v) = http::HeaderValue::from_bytes(raw) { r.headers_mut().insert("grpc-timeout", v); } }
                    if let Some(c) = &ctype { if let Ok(v) = http::HeaderValue::from_str(c) { r.headers_mut().insert("content-type", v); } }
                    r
                }).service(ch);
                drive_client(SvcClient::new(svc), stim, log).await
            } else {
                drive_client(SvcClient::new(ch), stim, log).await
            }
        }
        Err(e) => log.ev(json!({"e":"connect_err","msg":e.to_string()})),
    }
    srv.abort();
    drop(keep_open);
}

/// mode "mock": the generated client talks to a canned http response (C05 response side, C04 classification through the client)
async fn run_mock(stim: &Value, log: &Rec) {
    let m = stim["mock"].clone();
    let svc = tower::service_fn(move |_req: http::Request<Body>| {
        let m = m.clone();
        async move {
            let mut q = std::collections::VecDeque::new();
            for c in m["body_chunks"].as_array().cloned().unwrap_or_default() { q.push_back(crate::labs::framing::BItem::Data(json_bytes(&c))); }
            if m["trailers"].is_array() {
                let mut t = http::HeaderMap::new();
                for h in m["trailers"].as_array().cloned().unwrap_or_default() { if let (Ok(n), Ok(v)) = (http::header::HeaderName::from_bytes(h["n"].as_str().unwrap_or("").as_bytes()), http::HeaderValue::from_bytes(&json_bytes(&h["v"]))) { t.append(n, v); } }
                q.push_back(crate::labs::framing::BItem::Trailers(t));
            }
            let body = crate::labs::framing::ScriptBody { items: q, polls_after_end: Default::default(), ended: false, fused: false };
            let mut b = http::Response::builder().status(m["status"].as_u64().unwrap_or(200) as u16);
            for h in m["headers"].as_array().cloned().unwrap_or_default() { if let (Ok(n), Ok(v)) = (http::header::HeaderName::from_bytes(h["n"].as_str().unwrap_or("").as_bytes()), http::HeaderValue::from_bytes(&json_bytes(&h["v"]))) { b = b.header(n, v); } }
            Ok::<_, BoxErr>(b.body(Body::new(body)).unwrap())
        }
    });
    drive_client(SvcClient::new(svc), stim, log).await;
}

/// server.via_config: the service is tonic::server::Grpc driven directly, its compression configured through the public
/// EnabledCompressionEncodings (what generated code passes to apply_compression_config): every encoding is enabled - the wanted ones first -
/// and the unwanted ones are then removed again with pop()
#[derive(Clone)]
struct DirectH { script: Arc<Value>, log: Rec }
impl DirectH { fn seen(&self, r: &Request<Vec<u8>>) { self.log.ev(json!({"e":"srv_req","meta":meta_json(r.metadata()),"msgs":[bytes_json(r.get_ref())],"err":-1})); } }
impl tonic::server::UnaryService<Vec<u8>> for DirectH {
    type Response = Vec<u8>;
    type Future = std::future::Ready<Result<Response<Vec<u8>>, Status>>;
    fn call(&mut self, r: Request<Vec<u8>>) -> Self::Future { self.seen(&r); std::future::ready(Ok(Response::new(json_bytes(&self.script["msgs"][0])))) }
}
impl tonic::server::ServerStreamingService<Vec<u8>> for DirectH {
    type Response = Vec<u8>;
    type ResponseStream = BoxStream;
    type Future = std::future::Ready<Result<Response<BoxStream>, Status>>;
    fn call(&mut self, r: Request<Vec<u8>>) -> Self::Future {
        self.seen(&r);
        let items: Vec<Result<Vec<u8>, Status>> = self.script["msgs"].as_array().cloned().unwrap_or_default().iter().map(|m| Ok(json_bytes(m))).collect();
        std::future::ready(Ok(Response::new(Box::pin(tokio_stream::iter(items)) as BoxStream)))
    }
}
fn config_of(wanted: &Value) -> tonic::codec::EnabledCompressionEncodings {
    let wanted: Vec<String> = wanted.as_array().cloned().unwrap_or_default().iter().filter_map(|e| e.as_str().map(|s| s.to_string())).collect();
    let mut set = tonic::codec::EnabledCompressionEncodings::default();
    for e in wanted.iter() { if let Some(e) = enc_of(e) { set.enable(e); } }
    let mut extra = 0;
    for e in ["gzip", "deflate", "zstd"] { if !wanted.iter().any(|w| w == e) { if let Some(e) = enc_of(e) { set.enable(e); extra += 1; } } }
    for _ in 0..extra { set.pop(); }
    set
}
fn direct_stack(stim: &Value, log: &Rec) -> Stack {
    let (accept, send) = (config_of(&stim["server"]["accept"]), config_of(&stim["server"]["send"]));
    let h = DirectH { script: Arc::new(stim["script"].clone()), log: log.clone() };
    let sstream = stim["shape"].as_str() == Some("sstream");
    BoxCloneService::new(tower::service_fn(move |req: http::Request<Body>| {
        let h = h.clone();
        async move {
            let mut g = tonic::server::Grpc::new(RawCodec::default()).apply_compression_config(accept, send);
            Ok::<_, BoxErr>(if sstream { g.server_streaming(h, req).await } else { g.unary(h, req).await })
        }
    }))
}

async fn run_raw(stim: &Value, log: &Rec) {
    let mut stack = if stim["server"]["via_config"].as_bool().unwrap_or(false) { direct_stack(stim, log) } else { stack_of(build_server(stim, log)) };
    let raw = &stim["raw"];
    let mut b = http::Request::builder().method(raw["method"].as_str().unwrap_or("POST")).uri(raw["uri"].as_str().unwrap_or("/"))
        .version(match raw["version"].as_str().unwrap_or("HTTP/2.0") { "HTTP/1.1" => http::Version::HTTP_11, "HTTP/1.0" => http::Version::HTTP_10, _ => http::Version::HTTP_2 });
    let mut skipped = 0;
    for h in raw["headers"].as_array().cloned().unwrap_or_default() {
        match (http::header::HeaderName::from_bytes(h["n"].as_str().unwrap_or("").as_bytes()), http::HeaderValue::from_bytes(&json_bytes(&h["v"]))) {
            (Ok(n), Ok(v)) => { b = b.header(n, v); }
            _ => skipped += 1,
        }
    }
    // body: given verbatim, or one frame built from msg / flag / comp (payload compressed with `comp` when flagged)
    let body_bytes = if raw["body"].is_array() { json_bytes(&raw["body"]) } else {
        let msg = json_bytes(&raw["msg"]);
        let flag = raw["flag"].as_u64().unwrap_or(0) as u8;
        let payload = if flag == 1 { crate::labs::framing::compress_with(raw["comp"].as_str().unwrap_or(""), &msg) } else { msg };
        // raw.lead: that many well-formed unflagged one-byte messages come first (a body with more messages than the call shape uses is
        // still a body every frame of which must be acceptable)
        let mut b: Vec<u8> = vec![];
        for _ in 0..raw["lead"].as_u64().unwrap_or(0) { b.extend(crate::labs::framing::frame(0, &[5])); }
        b.extend(crate::labs::framing::frame(flag, &payload));
        b
    };
    // the request body arrives either whole with its exact size announced (like a content-length), or - a third of the time - in two
    // halves with empty DATA frames before, between and after them (legal for any HTTP/2 peer)
    let body = if body_bytes.len() % 3 == 1 {
        let mid = body_bytes.len() / 2;
        let mut q = std::collections::VecDeque::new();
        for c in [&body_bytes[..0], &body_bytes[..mid], &body_bytes[..0], &body_bytes[mid..], &body_bytes[..0]] { q.push_back(crate::labs::framing::BItem::Data(c.to_vec())); }
        Body::new(crate::labs::framing::ScriptBody { items: q, polls_after_end: Default::default(), ended: false, fused: true })
    } else { Body::new(http_body_util::Full::new(Bytes::from(body_bytes))) };
    let req = b.body(body).expect("raw request");
    log.ev(json!({"e":"raw_sent","skipped":skipped,"list":headers_json(req.headers())}));
    let resp = stack.ready().await.unwrap().call(req).await;
    match resp {
        Err(e) => log.ev(json!({"e":"raw_err","msg":e.to_string()})),
        Ok(resp) => {
            let (parts, body) = resp.into_parts();
            log.ev(json!({"e":"resp_head","status":parts.status.as_u16(),"list":headers_json(&parts.headers),"eos":HttpBody::is_end_stream(&body)}));
            let mut tb = TapBody::new(body, log.clone(), "resp");
            let mut n = 0;
            loop {
                let f = std::future::poll_fn(|cx| Pin::new(&mut tb).poll_frame(cx)).await;
                n += 1;
                if f.is_none() || n > 10000 { break; }
            }
        }
    }
}

// ---------------------------------------------------------------- mode "wire": bare h2 client against the whole transport server
/// A layer a user might add with Server::builder().layer(..): it fails the call with a Status in its error chain (fail_code >= 0,
/// the way tower's load-shed / rate-limit style layers do) or passes it on.
#[derive(Clone)]
pub struct FailSvc<S> { inner: S, code: i64, how: String }
impl<S, B> Service<http::Request<B>> for FailSvc<S>
where S: Service<http::Request<B>>, S::Error: Into<BoxErr>, S::Future: Send + 'static {
    type Response = S::Response;
    type Error = BoxErr;
    type Future = Pin<Box<dyn Future<Output = Result<S::Response, BoxErr>> + Send>>;
    fn poll_ready(&mut self, cx: &mut Context<'_>) -> Poll<Result<(), BoxErr>> { self.inner.poll_ready(cx).map_err(Into::into) }
    fn call(&mut self, req: http::Request<B>) -> Self::Future {
        if self.code >= 0 {
            let mut st = Status::new(Code::from_i32(self.code as i32), "refused by a layer");
            st.metadata_mut().insert("x-layer", "1".parse().unwrap());
            let e: BoxErr = match self.how.as_str() { "source" => Box::new(Wrapped(st)), "source2" => Box::new(std::io::Error::other(Wrapped(st))), _ => Box::new(st) };
            return Box::pin(async move { Err(e) });
        }
        let f = self.inner.call(req);
        Box::pin(async move { f.await.map_err(Into::into) })
    }
}

/// mode "wire": the request (stim.raw, one unflagged message) is written by a bare h2 client and answered by everything
/// tonic::transport::Server puts around the service - its timeout (server.timeout_ms and the request's own grpc-timeout), a user
/// layer, the error recovery that turns a failed call into a response. What is recorded is what is on the wire.
async fn run_wire(stim: &Value, log: &Rec) {
    let (c_io, s_io, _dead) = Shim::pair(65536, 65536, 65536, 0);
    let svc = build_server(stim, log);
    let incoming = tokio_stream::StreamExt::chain(tokio_stream::once(Ok::<_, std::io::Error>(s_io)), tokio_stream::pending());
    let mut sb = tonic::transport::Server::builder();
    if let Some(t) = dur_of(&stim["server"], "timeout_ms", "timeout_us") { sb = sb.timeout(t); }
    let (code, how) = (stim["server"]["fail_code"].as_i64().unwrap_or(-1), stim["server"]["fail_how"].as_str().unwrap_or("direct").to_string());
    let mut sb = sb.layer(tower::layer::layer_fn(move |inner| FailSvc { inner, code, how: how.clone() }));
    let srv = tokio::spawn(async move { let _ = sb.add_service(svc).serve_with_incoming(incoming).await; });
    let raw = &stim["raw"];
    let (mut client, conn) = match h2::client::handshake(c_io).await { Ok(x) => x, Err(e) => { log.ev(json!({"e":"connect_err","msg":e.to_string()})); return; } };
    let connt = tokio::spawn(async move { let _ = conn.await; });
    let mut b = http::Request::builder().method("POST").uri(format!("http://lab.test{}", raw["uri"].as_str().unwrap_or("/")));
    let mut skipped = 0;
    for h in raw["headers"].as_array().cloned().unwrap_or_default() {
        match (http::header::HeaderName::from_bytes(h["n"].as_str().unwrap_or("").as_bytes()), http::HeaderValue::from_bytes(&json_bytes(&h["v"]))) {
            (Ok(n), Ok(v)) => { b = b.header(n, v); }
            _ => skipped += 1,
        }
    }
    let req = b.body(()).expect("wire request");
    log.ev(json!({"e":"raw_sent","skipped":skipped,"list":headers_json(req.headers())}));
    let body_bytes = crate::labs::framing::frame(0, &json_bytes(&raw["msg"]));
    let r: Result<(), String> = async {
        let (resp, mut send) = client.send_request(req, false).map_err(|e| e.to_string())?;
        send.send_data(Bytes::from(body_bytes), true).map_err(|e| e.to_string())?;
        let resp = resp.await.map_err(|e| e.to_string())?;
        let (p, mut body) = resp.into_parts();
        log.ev(json!({"e":"resp_head","status":p.status.as_u16(),"list":headers_json(&p.headers),"eos":body.is_end_stream()}));
        while let Some(ch) = body.data().await {
            let ch = ch.map_err(|e| e.to_string())?;
            let _ = body.flow_control().release_capacity(ch.len());
            log.ev(json!({"e":"frame","side":"resp","k":"data","bytes":bytes_json(&ch)}));
        }
        if let Some(t) = body.trailers().await.map_err(|e| e.to_string())? { log.ev(json!({"e":"frame","side":"resp","k":"trailers","list":headers_json(&t)})); }
        log.ev(json!({"e":"frame","side":"resp","k":"end"}));
        Ok(())
    }.await;
    if let Err(m) = r { log.ev(json!({"e":"raw_err","msg":m})); }
    srv.abort(); connt.abort();
}

pub fn run(stim: &Value, rec: &Rec) {
    let mode = stim["mode"].as_str().unwrap_or("client");
    let transport = stim["transport"].as_str().unwrap_or("inproc");
    block_on_paused(async {
        match (mode, transport) {
            ("raw", _) => run_raw(stim, rec).await,
            ("mock", _) => run_mock(stim, rec).await,
            ("wire", _) => run_wire(stim, rec).await,
            (_, "h2") => run_client_h2(stim, rec).await,
            _ => run_client_inproc(stim, rec).await,
        }
    });
    let snapshot = rec.0.lock().unwrap().clone();
    rec.ev(bodies_event(&snapshot));
}

// ---------------------------------------------------------------- seeded generation
/// random message bytes; never starting with 250, the lab codec's marker for scripted refusals and >4 GiB messages
fn rb(rng: &mut impl Rng, n: usize) -> Vec<u8> { let mut v: Vec<u8> = (0..n).map(|_| rng.gen()).collect(); if v.first() == Some(&250) { v[0] = 251; } v }
pub fn rand_script(rng: &mut impl Rng, shape: &str) -> Value {
    let ok = rng.gen_bool(0.5);
    let single = shape == "unary" || shape == "cstream";
    let k = if single { 1 } else { rng.gen_range(0..4) };
    let msgs: Vec<Value> = (0..k).map(|_| { let n = [0usize, 1, 3, 20, 200, 3000][rng.gen_range(0..6)]; bytes_json(&rb(rng, n)) }).collect();
    let end = if ok { if !single && rng.gen_bool(0.4) { json!({"ok":true,"meta":crate::labs::status::rand_meta(rng)}) } else { json!({"ok":true}) } } else {
        // (all-ASCII messages containing '%' - alone, before hex digits, before other characters - are where an escaping shortcut would show)
        let msg = ["", "boom", "bad: é%", "a b\nc", "100% \u{1F600}", "bad query: name=J%C3%BCrgen&path=%2Ftmp%2Fx", "100%", "%41%zz% 7%ff"][rng.gen_range(0..8)];
        let dn = rng.gen_range(0..6);
        let via = ["direct", "direct", "boxed", "source", "source2"][rng.gen_range(0..5)];
        json!({"ok":false,"code":rng.gen_range(1..17),"msg":str_json(msg),"details":bytes_json(&rb(rng, dn)),"meta":crate::labs::status::rand_meta(rng),
               "via": via})
    };
    let stream_pend: Vec<usize> = (0..=k + 1).filter(|_| rng.gen_bool(0.25)).collect();
    json!({"init_meta": crate::labs::status::rand_meta(rng), "msgs": msgs, "end": end, "fail_before": !single && !ok && rng.gen_bool(0.3), "no_compress": rng.gen_bool(0.15), "stream_pend": stream_pend})
}
pub fn gen(seed: u64, tier: &str) -> Vec<Value> {
    let mut rng = rand::rngs::StdRng::seed_from_u64(seed ^ 0xC02);
    let n = if tier == "thorough" { 2500 } else { 360 };
    let encs = ["gzip", "deflate", "zstd"];
    let mut out = vec![];
    // bulk streams over h2: many equal messages, ready at once, sized so that 16384 (the h2 max frame size) falls 1..4 bytes
    // into a length prefix of the coalesced body
    let sizes: Vec<usize> = (50..3000).filter(|l| { let r = 16384 % (l + 5); r >= 1 && r <= 4 }).collect();
    for j in 0..(n / 12).max(6) {
        let l = sizes[rng.gen_range(0..sizes.len())];
        let k = (40000 / (l + 5)).max(3);
        let big: Vec<Value> = (0..k).map(|q| bytes_json(&(0..l).map(|x| (x + q) as u8).collect::<Vec<u8>>())).collect();
        let shape = ["sstream", "bidi", "cstream"][j % 3];
        let req_big = shape != "sstream";
        let ok = rng.gen_bool(0.5);
        let end = if ok { json!({"ok":true}) } else { json!({"ok":false,"code":10,"msg":str_json("gave up"),"details":[1,2,3],"meta":[{"n":"x-seed","bin":false,"v":[99]}]}) };
        let bulk_s: Vec<&str> = [vec![], vec!["small_stream_window"], vec!["small_conn_window", "adaptive_window"], vec!["big_frames"], vec!["one_stream", "keepalive"]][j % 5].clone();
        let bulk_c: Vec<&str> = [vec![], vec![], vec!["small_stream_window", "small_conn_window"], vec!["adaptive_window"], vec!["keepalive"]][(j / 5) % 5].clone();
        out.push(json!({"mode":"client","class":"h2_bulk","transport":"h2","shim":{"cap":65536,"rq":65536,"wq":65536,"pend":0},"shape":shape,
            "server":{"send":[],"accept":[],"max_dec":-1,"max_enc":-1,"h2opts":bulk_s},"client":{"send":"","accept":[],"max_dec":-1,"max_enc":-1,"h2opts":bulk_c},
            "req":{"meta":[],"msgs": if req_big { big.clone() } else { vec![bytes_json(&[1])] }},
            "script":{"init_meta":[],"msgs": if shape == "cstream" { vec![bytes_json(&[2])] } else { big.clone() },"end": if shape == "cstream" { json!({"ok":true}) } else { end },"fail_before":false,"no_compress":false}}));
    }
    // status grid: every error code x {empty, non-empty} message x {no, some} details x {no, some} metadata x k in {0, 1}
    // messages before the status x {status in trailers, status before the stream}, on every shape (the bare statuses -
    // no message, no details, no metadata - are the ones a classification shortcut would swallow)
    for shape in ["unary", "cstream", "sstream", "bidi"] {
        let single = shape == "unary" || shape == "cstream";
        for code in 1..17 { for (mi, msg) in ["", "boom"].iter().enumerate() { for dn in [0usize, 2] { for with_meta in [false, true] { for k in [0usize, 1] { for fail_before in [false, true] {
            if single && (k == 0 || fail_before) { continue; }
            if tier != "thorough" && !(mi == 0 || dn == 0) && with_meta { continue; }
            let h2 = (code + k + dn) % 4 == 0;
            let msgs: Vec<Value> = (0..k).map(|q| bytes_json(&[q as u8, 7])).collect();
            let meta = if with_meta { json!([{"n":"x-why","bin":false,"v":[119]}]) } else { json!([]) };
            let end = json!({"ok":false,"code":code,"msg":str_json(msg),"details":bytes_json(&vec![9u8; dn]),"meta":meta});
            out.push(json!({"mode":"client","class":"status_grid","transport": if h2 {"h2"} else {"inproc"},
                "shim": if h2 { json!({"cap":65536,"rq":64,"wq":9,"pend":0}) } else { json!({"cap":0,"rq":0,"wq":0,"pend":0}) },"shape":shape,
                "server":{"send":[],"accept":[],"max_dec":-1,"max_enc":-1},"client":{"send":"","accept":[],"max_dec":-1,"max_enc":-1},
                "req":{"meta":[],"msgs": if shape == "unary" || shape == "sstream" { vec![bytes_json(&[1])] } else { vec![bytes_json(&[1]), bytes_json(&[2])] }},
                "script":{"init_meta":[],"msgs":msgs,"end":end,"fail_before":fail_before,"no_compress":false}}));
        } } } } } }
    }
    for i in 0..n {
        let shape = ["unary", "cstream", "sstream", "bidi"][i % 4];
        let h2 = i % 3 == 2;
        let nreq = if shape == "unary" || shape == "sstream" { 1 } else { rng.gen_range(0..4) };
        let req_msgs: Vec<Value> = (0..nreq).map(|_| { let n = [0usize, 1, 5, 100, 2000][rng.gen_range(0..5)]; bytes_json(&rb(&mut rng, n)) }).collect();
        let subset = |rng: &mut rand::rngs::StdRng| -> Vec<&str> { encs.iter().filter(|_| rng.gen_bool(0.4)).cloned().collect() };
        let s_send = subset(&mut rng); let s_acc = subset(&mut rng); let c_acc = subset(&mut rng);
        // the client only sends with an encoding the server accepts (otherwise the call is refused: covered by C05's own table)
        let c_send = if !s_acc.is_empty() && rng.gen_bool(0.5) { s_acc[rng.gen_range(0..s_acc.len())] } else { "" };
        let (rq, wq, pe) = ([1usize, 2, 7, 64, 65536][rng.gen_range(0..5)], [1usize, 3, 9, 100, 65536][rng.gen_range(0..5)], [0usize, 0, 2, 3][rng.gen_range(0..4)]);
        let shim = if h2 { json!({"cap": 65536, "rq": rq, "wq": wq, "pend": pe}) } else { json!({"cap":0,"rq":0,"wq":0,"pend":0}) };
        let warmup = ["", "", "", "full", "cancel"][rng.gen_range(0..5)];
        let pick = |rng: &mut rand::rngs::StdRng, all: &[&str]| -> Vec<String> { if rng.gen_bool(0.5) { vec![] } else { all.iter().filter(|_| rng.gen_bool(0.3)).map(|x| x.to_string()).collect() } };
        // (small flow-control windows only over a pipe that moves whole buffers: with a 1 KiB stream window AND a pipe that moves 3-7 bytes per
        // operation AND a request stream that yields Pending, one run stalled below tonic - in h2 / hyper or in the pipe itself, not
        // attributed (DESIGN section 8); the combination is left out rather than judged)
        let whole = rq == 65536 && wq == 65536 && pe == 0;
        let s_h2 = if h2 && whole { pick(&mut rng, &["small_stream_window", "small_conn_window", "adaptive_window", "big_frames", "one_stream", "keepalive", "header_list", "nodelay"]) }
                   else if h2 { pick(&mut rng, &["adaptive_window", "big_frames", "keepalive", "header_list", "nodelay"]) } else { vec![] };
        let c_h2 = if h2 && whole { pick(&mut rng, &["small_stream_window", "small_conn_window", "adaptive_window", "keepalive", "header_list", "nodelay"]) }
                   else if h2 { pick(&mut rng, &["adaptive_window", "keepalive", "header_list", "nodelay"]) } else { vec![] };
        let noise = if h2 { [0u64, 0, 2, 4][rng.gen_range(0..4)] } else { 0 };
        out.push(json!({"mode":"client","class": if h2 {"h2"} else {"inproc"},"transport": if h2 {"h2"} else {"inproc"},"shim":shim,"shape":shape,
            "server":{"send":s_send,"accept":s_acc,"max_dec":-1,"max_enc":-1,"h2opts":s_h2},
            "client":{"send":c_send,"accept":c_acc,"max_dec":-1,"max_enc":-1,"clone":rng.gen_bool(0.3),"warmup":warmup,"noise":noise,"h2opts":c_h2,
                      "origin": if !h2 && i % 7 == 3 { json!(["http://lab.test/api", "http://lab.test/api/", "http://lab.test/v1/grpc/", "http://lab.test"][(i / 7) % 4]) } else { Value::Null },
                      "origin_prefix": if !h2 && i % 7 == 3 { str_json(["/api", "/api/", "/v1/grpc/", ""][(i / 7) % 4]) } else { Value::Null }},
            "req":{"meta":crate::labs::status::rand_meta(&mut rng),"msgs":req_msgs,"pend":(0..=nreq + 1).filter(|_| rng.gen_bool(0.25)).collect::<Vec<usize>>()},
            "script":rand_script(&mut rng, shape)}));
        if let Some(c) = out.last_mut().and_then(|v| v["client"].as_object_mut()) { if c["origin"].is_null() { c.remove("origin"); c.remove("origin_prefix"); } }
    }
    out
}
