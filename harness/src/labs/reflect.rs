//! Reflection lab (C19): descriptor sets -> tonic_reflection v1 and v1alpha services, queried through the generated
//! ServerReflection clients in-process (one stream per query: an error ends the stream).
//! Stimulus: {files:[{name, package, messages:[msg], enums:[en], services:[{name, methods:[..]}]}], dup: bool, encoded: bool,
//!            include_reflection: bool, chosen:[names] (empty = all), queries:[{kind:"symbol"|"file"|"list", arg, argb}]}
//!   msg = {name, fields:[..], oneofs:[..], nested:[msg], enums:[en]} ; en = {name, values:[..]}
use crate::labs::Rec;
use crate::util::*;
use prost::Message;
use prost_types::*;
use serde_json::{json, Value};

fn names(v: &Value) -> Vec<String> { v.as_array().cloned().unwrap_or_default().iter().map(|x| x["name"].as_str().unwrap_or("").to_string()).collect() }
fn en_of(v: &Value) -> EnumDescriptorProto {
    EnumDescriptorProto { name: Some(v["name"].as_str().unwrap().to_string()),
        value: names(&v["values"]).into_iter().enumerate().map(|(i, n)| EnumValueDescriptorProto { name: Some(n), number: Some(i as i32), options: None }).collect(), ..Default::default() }
}
fn msg_of(v: &Value) -> DescriptorProto {
    DescriptorProto { name: Some(v["name"].as_str().unwrap().to_string()),
        // a field marked opt is a proto3 `optional` field: it points at its synthetic oneof `_<name>`, which - as protoc emits it - comes after
        // the real oneofs in oneof_decl
        field: v["fields"].as_array().cloned().unwrap_or_default().iter().enumerate().map(|(i, f)| { let n = f["name"].as_str().unwrap_or("").to_string();
            let syn = if f["opt"].as_bool().unwrap_or(false) { names(&v["oneofs"]).iter().position(|o| *o == format!("_{n}")).map(|p| p as i32) } else { None };
            FieldDescriptorProto { name: Some(n), number: Some(i as i32 + 1), r#type: Some(5), label: Some(1), proto3_optional: syn.map(|_| true), oneof_index: syn, ..Default::default() } }).collect(),
        oneof_decl: names(&v["oneofs"]).into_iter().map(|n| OneofDescriptorProto { name: Some(n), options: None }).collect(),
        nested_type: v["nested"].as_array().cloned().unwrap_or_default().iter().map(msg_of).collect(),
        enum_type: v["enums"].as_array().cloned().unwrap_or_default().iter().map(en_of).collect(), ..Default::default() }
}
fn file_of(v: &Value) -> FileDescriptorProto {
    let pkg = v["package"].as_str().unwrap_or("");
    FileDescriptorProto { name: Some(v["name"].as_str().unwrap().to_string()), package: if pkg.is_empty() { None } else { Some(pkg.to_string()) },
        message_type: v["messages"].as_array().cloned().unwrap_or_default().iter().map(msg_of).collect(),
        enum_type: v["enums"].as_array().cloned().unwrap_or_default().iter().map(en_of).collect(),
        service: v["services"].as_array().cloned().unwrap_or_default().iter().map(|s| ServiceDescriptorProto { name: Some(s["name"].as_str().unwrap().to_string()),
            method: names(&s["methods"]).into_iter().map(|n| MethodDescriptorProto { name: Some(n), input_type: Some(".x".into()), output_type: Some(".x".into()), ..Default::default() }).collect(), options: None }).collect(),
        // what protoc --include_source_info adds (and prost-build / tonic-build always ask for): comments and spans; part of the descriptor
        // that was registered, hence of the one that is served
        source_code_info: if v["name"].as_str().unwrap_or("").len() % 2 == 0 { Some(SourceCodeInfo { location: vec![
            source_code_info::Location { path: vec![4, 0], span: vec![3, 0, 7, 1], leading_comments: Some(" a message\n".into()), trailing_comments: None, leading_detached_comments: vec![" detached\n".into()] },
            source_code_info::Location { path: vec![12], span: vec![0, 0, 18], ..Default::default() }] }) } else { None },
        syntax: Some("proto3".into()), ..Default::default() }
}

macro_rules! parse_item { ($MResp:ident, $files:expr, $m:expr) => {
    match $m {
        Err(s) => json!({"k":"status","code":s.code() as i32}),
        Ok(None) => json!({"k":"empty"}),
        Ok(Some(m)) => match m.message_response {
            Some($MResp::FileDescriptorResponse(f)) => {
                let fs: Vec<Value> = f.file_descriptor_proto.iter().map(|b| match FileDescriptorProto::decode(&b[..]) {
                    Ok(p) => { let same = $files.iter().any(|r: &FileDescriptorProto| *r == p); json!({"nb":str_json(p.name.as_deref().unwrap_or("")),"decodes":true,"same":same}) }
                    Err(_) => json!({"nb":[],"decodes":false,"same":false}) }).collect();
                json!({"k":"files","files":fs})
            }
            Some($MResp::ListServicesResponse(l)) => json!({"k":"services","names":l.service.iter().map(|s| str_json(&s.name)).collect::<Vec<_>>()}),
            Some($MResp::ErrorResponse(e)) => json!({"k":"status","code":e.error_code}),
            _ => json!({"k":"other"}),
        }
    }
}; }

macro_rules! query_impl { ($ver:ident, $client:path, $mkreq:expr, $mreq:path, $mresp:path, $svc:expr, $q:expr, $files:expr) => {{
    use $mreq as MReq; use $mresp as MResp;
    let mut cl = <$client>::new($svc.clone());
    let kind = $q["kind"].as_str().unwrap_or("");
    let arg = $q["arg"].as_str().unwrap_or("").to_string();
    let mreq = match kind { "symbol" => MReq::FileContainingSymbol(arg.clone()), "file" => MReq::FileByFilename(arg.clone()), _ => MReq::ListServices(String::new()) };
    let req = ($mkreq)(mreq);
    let res = block_on(async {
        match cl.server_reflection_info(tokio_stream::iter(vec![req])).await {
            Err(s) => json!({"k":"status","code":s.code() as i32}),
            Ok(r) => { let mut st = r.into_inner(); let m = st.message().await; parse_item!(MResp, $files, m) }
        }
    });
    res
}}; }

/// One ServerReflectionInfo stream driven step by step (C19, stream dimension): steps "S" write the next query (no yield),
/// "R"/"E" read one item, "C" close the request stream, "Y" yield once.  Every read is logged with the echoed original request.
macro_rules! session_impl { ($vname:expr, $client:path, $mkreq:expr, $mreq:path, $mresp:path, $svc:expr, $sess:expr, $files:expr, $rec:expr) => {{
    use $mreq as MReq; use $mresp as MResp;
    let mut cl = <$client>::new($svc.clone());
    let qs: Vec<Value> = $sess["queries"].as_array().cloned().unwrap_or_default();
    let steps: Vec<String> = $sess["script"].as_array().cloned().unwrap_or_default().iter().map(|x| x.as_str().unwrap_or("").to_string()).collect();
    $rec.ev(json!({"e":"sess_start","ver":$vname}));
    let rec2 = $rec.clone();
    block_on_paused(async move {
        let (tx, rx) = tokio::sync::mpsc::unbounded_channel();
        let mut tx = Some(tx);
        let mut next = 0usize;
        let mut pre = 0usize;
        // the call itself only returns once the handler has answered the headers; queries written before that are "S" steps at the front
        while pre < steps.len() && steps[pre] == "S" {
            let q = &qs[next]; next += 1;
            let arg = q["arg"].as_str().unwrap_or("").to_string();
            let mreq = match q["kind"].as_str().unwrap_or("") { "symbol" => MReq::FileContainingSymbol(arg), "file" => MReq::FileByFilename(arg), _ => MReq::ListServices(String::new()) };
            let _ = tx.as_ref().unwrap().send(($mkreq)(mreq));
            rec2.ev(json!({"e":"sess","op":"send","q":q}));
            pre += 1;
        }
        let mut st = match tokio::time::timeout(std::time::Duration::from_secs(20), cl.server_reflection_info(tokio_stream::wrappers::UnboundedReceiverStream::new(rx))).await {
            Err(_) => { rec2.ev(json!({"e":"sess","op":"open","res":{"k":"hang"}})); return; }
            Ok(Err(s)) => { rec2.ev(json!({"e":"sess","op":"open","res":{"k":"status","code":s.code() as i32}})); return; }
            Ok(Ok(r)) => r.into_inner(),
        };
        for step in &steps[pre..] {
            match step.as_str() {
                "S" => {
                    let q = &qs[next]; next += 1;
                    let arg = q["arg"].as_str().unwrap_or("").to_string();
                    let mreq = match q["kind"].as_str().unwrap_or("") { "symbol" => MReq::FileContainingSymbol(arg), "file" => MReq::FileByFilename(arg), _ => MReq::ListServices(String::new()) };
                    if let Some(t) = tx.as_ref() { let _ = t.send(($mkreq)(mreq)); }
                    rec2.ev(json!({"e":"sess","op":"send","q":q}));
                }
                "C" => { tx = None; rec2.ev(json!({"e":"sess","op":"close"})); }
                "Y" => { tokio::task::yield_now().await; }
                _ => {
                    let m = tokio::time::timeout(std::time::Duration::from_secs(20), st.message()).await;
                    let (res, echo) = match m {
                        Err(_) => (json!({"k":"hang"}), json!({"kind":"none","argb":[]})),
                        Ok(m) => {
                            let echo = match &m { Ok(Some(x)) => match x.original_request.as_ref().and_then(|o| o.message_request.clone()) {
                                Some(MReq::FileContainingSymbol(a)) => json!({"kind":"symbol","argb":str_json(&a)}),
                                Some(MReq::FileByFilename(a)) => json!({"kind":"file","argb":str_json(&a)}),
                                Some(MReq::ListServices(_)) => json!({"kind":"list","argb":[]}),
                                _ => json!({"kind":"none","argb":[]}) }, _ => json!({"kind":"none","argb":[]}) };
                            (parse_item!(MResp, $files, m), echo)
                        }
                    };
                    let hang = res["k"] == "hang";
                    rec2.ev(json!({"e":"sess","op":"recv","want":step,"res":res,"echo":echo}));
                    if hang { return; }
                }
            }
        }
    });
}}; }

pub fn run(stim: &Value, rec: &Rec) {
    let files: Vec<FileDescriptorProto> = stim["files"].as_array().cloned().unwrap_or_default().iter().map(file_of).collect();
    // registration plan: "sets" lists, per registered descriptor set, the indices of the files it contains
    let plan: Vec<Vec<usize>> = stim["sets"].as_array().map(|a| a.iter().map(|s| s.as_array().cloned().unwrap_or_default().iter().map(|i| i.as_u64().unwrap() as usize).collect()).collect())
        .unwrap_or_else(|| vec![(0..files.len()).collect()]);
    let sets: Vec<FileDescriptorSet> = plan.iter().map(|idx| FileDescriptorSet { file: idx.iter().map(|i| files[*i].clone()).collect() }).collect();
    let encoded: Vec<Vec<u8>> = sets.iter().map(|s| s.encode_to_vec()).collect();
    let mk = || {
        let mut b = tonic_reflection::server::Builder::configure().include_reflection_service(stim["include_reflection"].as_bool().unwrap_or(true));
        for (i, set) in sets.iter().enumerate() {
            if stim["encoded"].as_bool().unwrap_or(false) { b = b.register_encoded_file_descriptor_set(&encoded[i]); } else { b = b.register_file_descriptor_set(set.clone()); }
        }
        for n in stim["chosen"].as_array().cloned().unwrap_or_default() { b = b.with_service_name(n.as_str().unwrap_or("")); }
        b
    };
    let v1 = mk().build_v1().expect("build_v1");
    let v1a = mk().build_v1alpha().expect("build_v1alpha");
    for (i, q) in stim["queries"].as_array().cloned().unwrap_or_default().iter().enumerate() {
        use tonic_reflection::pb::{v1 as p1, v1alpha as pa};
        let r1 = query_impl!(v1, p1::server_reflection_client::ServerReflectionClient<_>, |m| p1::ServerReflectionRequest { host: "h".into(), message_request: Some(m) }, p1::server_reflection_request::MessageRequest, p1::server_reflection_response::MessageResponse, v1, q, files);
        let ra = query_impl!(v1alpha, pa::server_reflection_client::ServerReflectionClient<_>, |m| pa::ServerReflectionRequest { host: "h".into(), message_request: Some(m) }, pa::server_reflection_request::MessageRequest, pa::server_reflection_response::MessageResponse, v1a, q, files);
        rec.ev(json!({"e":"answer","i":i as u64,"q":q,"v1":r1,"v1alpha":ra}));
    }
    for sess in stim["sessions"].as_array().cloned().unwrap_or_default().iter() {
        use tonic_reflection::pb::{v1 as p1, v1alpha as pa};
        let f1 = files.clone(); let f2 = files.clone();
        session_impl!("v1", p1::server_reflection_client::ServerReflectionClient<_>, |m| p1::ServerReflectionRequest { host: "h".into(), message_request: Some(m) }, p1::server_reflection_request::MessageRequest, p1::server_reflection_response::MessageResponse, v1, sess, f1, rec);
        session_impl!("v1alpha", pa::server_reflection_client::ServerReflectionClient<_>, |m| pa::ServerReflectionRequest { host: "h".into(), message_request: Some(m) }, pa::server_reflection_request::MessageRequest, pa::server_reflection_response::MessageResponse, v1a, sess, f2, rec);
    }
}
