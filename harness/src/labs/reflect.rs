//! Reflection lab (C19): descriptor sets -> tonic_reflection v1 and v1alpha services, queried through the generated
//! ServerReflection clients in-process (one stream per query: an error ends the stream).
//! Stimulus: {files:[{name, package, messages:[msg], enums:[en], services:[{name, methods:[..]}]}], dup: bool, encoded: bool,
//!            include_reflection: bool, chosen:[names] (empty = all), queries:[{kind:"symbol"|"file"|"list", arg, argb}]}
//!   msg = {name, fields:[..], oneofs:[..], nested:[msg], enums:[en]} ; en = {name, values:[..]}
use crate::labs::Rec;
use crate::util::*;
use prost::Message;
use prost_types::*;
use serde_json::{json, Value};

fn names(v: &Value) -> Vec<String> { v.as_array().cloned().unwrap_or_default().iter().map(|x| x["name"].as_str().unwrap_or("").to_string()).collect() }
fn en_of(v: &Value) -> EnumDescriptorProto {
    EnumDescriptorProto { name: Some(v["name"].as_str().unwrap().to_string()),
        value: names(&v["values"]).into_iter().enumerate().map(|(i, n)| EnumValueDescriptorProto { name: Some(n), number: Some(i as i32), options: None }).collect(), ..Default::default() }
}
fn msg_of(v: &Value) -> DescriptorProto {
    DescriptorProto { name: Some(v["name"].as_str().unwrap().to_string()),
        field: names(&v["fields"]).into_iter().enumerate().map(|(i, n)| FieldDescriptorProto { name: Some(n), number: Some(i as i32 + 1), r#type: Some(5), label: Some(1), ..Default::default() }).collect(),
        oneof_decl: names(&v["oneofs"]).into_iter().map(|n| OneofDescriptorProto { name: Some(n), options: None }).collect(),
        nested_type: v["nested"].as_array().cloned().unwrap_or_default().iter().map(msg_of).collect(),
        enum_type: v["enums"].as_array().cloned().unwrap_or_default().iter().map(en_of).collect(), ..Default::default() }
}
fn file_of(v: &Value) -> FileDescriptorProto {
    let pkg = v["package"].as_str().unwrap_or("");
    FileDescriptorProto { name: Some(v["name"].as_str().unwrap().to_string()), package: if pkg.is_empty() { None } else { Some(pkg.to_string()) },
        message_type: v["messages"].as_array().cloned().unwrap_or_default().iter().map(msg_of).collect(),
        enum_type: v["enums"].as_array().cloned().unwrap_or_default().iter().map(en_of).collect(),
        service: v["services"].as_array().cloned().unwrap_or_default().iter().map(|s| ServiceDescriptorProto { name: Some(s["name"].as_str().unwrap().to_string()),
            method: names(&s["methods"]).into_iter().map(|n| MethodDescriptorProto { name: Some(n), input_type: Some(".x".into()), output_type: Some(".x".into()), ..Default::default() }).collect(), options: None }).collect(),
        syntax: Some("proto3".into()), ..Default::default() }
}

macro_rules! query_impl { ($ver:ident, $client:path, $mkreq:expr, $mreq:path, $mresp:path, $svc:expr, $q:expr, $files:expr) => {{
    use $mreq as MReq; use $mresp as MResp;
    let mut cl = <$client>::new($svc.clone());
    let kind = $q["kind"].as_str().unwrap_or("");
    let arg = $q["arg"].as_str().unwrap_or("").to_string();
    let mreq = match kind { "symbol" => MReq::FileContainingSymbol(arg.clone()), "file" => MReq::FileByFilename(arg.clone()), _ => MReq::ListServices(String::new()) };
    let req = ($mkreq)(mreq);
    let res = block_on(async {
        match cl.server_reflection_info(tokio_stream::iter(vec![req])).await {
            Err(s) => json!({"k":"status","code":s.code() as i32}),
            Ok(r) => { let mut st = r.into_inner(); match st.message().await {
                Err(s) => json!({"k":"status","code":s.code() as i32}),
                Ok(None) => json!({"k":"empty"}),
                Ok(Some(m)) => match m.message_response {
                    Some(MResp::FileDescriptorResponse(f)) => {
                        let fs: Vec<Value> = f.file_descriptor_proto.iter().map(|b| match FileDescriptorProto::decode(&b[..]) {
                            Ok(p) => { let same = $files.iter().any(|r: &FileDescriptorProto| *r == p); json!({"nb":str_json(p.name.as_deref().unwrap_or("")),"decodes":true,"same":same}) }
                            Err(_) => json!({"nb":[],"decodes":false,"same":false}) }).collect();
                        json!({"k":"files","files":fs})
                    }
                    Some(MResp::ListServicesResponse(l)) => json!({"k":"services","names":l.service.iter().map(|s| str_json(&s.name)).collect::<Vec<_>>()}),
                    Some(MResp::ErrorResponse(e)) => json!({"k":"status","code":e.error_code}),
                    _ => json!({"k":"other"}),
                } } }
        }
    });
    res
}}; }

pub fn run(stim: &Value, rec: &Rec) {
    let files: Vec<FileDescriptorProto> = stim["files"].as_array().cloned().unwrap_or_default().iter().map(file_of).collect();
    // registration plan: "sets" lists, per registered descriptor set, the indices of the files it contains
    let plan: Vec<Vec<usize>> = stim["sets"].as_array().map(|a| a.iter().map(|s| s.as_array().cloned().unwrap_or_default().iter().map(|i| i.as_u64().unwrap() as usize).collect()).collect())
        .unwrap_or_else(|| vec![(0..files.len()).collect()]);
    let sets: Vec<FileDescriptorSet> = plan.iter().map(|idx| FileDescriptorSet { file: idx.iter().map(|i| files[*i].clone()).collect() }).collect();
    let encoded: Vec<Vec<u8>> = sets.iter().map(|s| s.encode_to_vec()).collect();
    let mk = || {
        let mut b = tonic_reflection::server::Builder::configure().include_reflection_service(stim["include_reflection"].as_bool().unwrap_or(true));
        for (i, set) in sets.iter().enumerate() {
            if stim["encoded"].as_bool().unwrap_or(false) { b = b.register_encoded_file_descriptor_set(&encoded[i]); } else { b = b.register_file_descriptor_set(set.clone()); }
        }
        for n in stim["chosen"].as_array().cloned().unwrap_or_default() { b = b.with_service_name(n.as_str().unwrap_or("")); }
        b
    };
    let v1 = mk().build_v1().expect("build_v1");
    let v1a = mk().build_v1alpha().expect("build_v1alpha");
    for (i, q) in stim["queries"].as_array().cloned().unwrap_or_default().iter().enumerate() {
        use tonic_reflection::pb::{v1 as p1, v1alpha as pa};
        let r1 = query_impl!(v1, p1::server_reflection_client::ServerReflectionClient<_>, |m| p1::ServerReflectionRequest { host: "h".into(), message_request: Some(m) }, p1::server_reflection_request::MessageRequest, p1::server_reflection_response::MessageResponse, v1, q, files);
        let ra = query_impl!(v1alpha, pa::server_reflection_client::ServerReflectionClient<_>, |m| pa::ServerReflectionRequest { host: "h".into(), message_request: Some(m) }, pa::server_reflection_request::MessageRequest, pa::server_reflection_response::MessageResponse, v1a, q, files);
        rec.ev(json!({"e":"answer","i":i as u64,"q":q,"v1":r1,"v1alpha":ra}));
    }
}
