//! Metadata lab (C08): MetadataMap construction, wire form, reception with padded / unpadded base64,
//! typed accessors and iterators.
//! Stimulus: {entries:[{n, nb:[name bytes], bin, v:[..]}], pad: bool}
use crate::labs::Rec;
use crate::util::*;
use rand::{Rng, SeedableRng};
use serde_json::{json, Value};
use tonic::metadata::{Ascii, Binary, Entry, KeyAndMutValueRef, KeyAndValueRef, KeyRef, MetadataKey, MetadataMap, MetadataValue, ValueRef, ValueRefMut};

pub fn run(stim: &Value, rec: &Rec) {
    let mut m = MetadataMap::new();
    let mut accepted = vec![];
    for e in stim["entries"].as_array().cloned().unwrap_or_default() {
        let nb = json_bytes(&e["nb"]);
        let v = json_bytes(&e["v"]);
        let ok = if e["bin"].as_bool().unwrap_or(false) {
            // the binary value is built through each of the constructors the API offers (they must all base64-code the same bytes)
            let val: Option<MetadataValue<Binary>> = match (accepted.len() + v.len() / 4) % 4 {
                0 => Some(MetadataValue::from_bytes(&v)),
                1 => MetadataValue::<Binary>::try_from(bytes::Bytes::from(v.clone())).ok(),
                2 => MetadataValue::<Binary>::try_from(v.clone()).ok(),
                _ => MetadataValue::<Binary>::try_from(&v[..]).ok(),
            };
            // the key is handed over owned, or borrowed (every other entry): `append` takes either
            match (MetadataKey::<Binary>::from_bytes(&nb), val) { (Ok(k), Some(val)) => { if accepted.len() % 2 == 0 { m.append_bin(k, val); } else { m.append_bin(&k, val); } true } _ => false }
        } else {
            match (MetadataKey::<Ascii>::from_bytes(&nb), MetadataValue::<Ascii>::try_from(&v[..])) { (Ok(k), Ok(val)) => { if accepted.len() % 2 == 0 { m.append(k, val); } else { m.append(&k, val); } true } _ => false }
        };
        accepted.push(ok);
    }
    rec.ev(json!({"e":"built","accepted":accepted,"len":m.len() as u64}));
    // sender side view and wire form
    let wire = m.clone().into_headers();
    let list: Vec<Value> = wire.iter().map(|(k, v)| json!({"n": k.as_str(), "nb": bytes_json(k.as_str().as_bytes()), "v": bytes_json(v.as_bytes())})).collect();
    rec.ev(json!({"e":"wire","list":list}));
    // receiving side: same headers, binary values optionally re-padded as a padding peer would send them
    let mut h = http::HeaderMap::new();
    for (k, v) in wire.iter() {
        let mut val = v.as_bytes().to_vec();
        if stim["pad"].as_bool().unwrap_or(false) && k.as_str().ends_with("-bin") { while val.len() % 4 != 0 { val.push(b'='); } }
        h.append(k.clone(), http::HeaderValue::from_bytes(&val).unwrap());
    }
    let r = MetadataMap::from_headers(h);
    let mut names: Vec<String> = vec![];
    for kv in r.iter() { let n = match kv { KeyAndValueRef::Ascii(k, _) => k.as_str().to_string(), KeyAndValueRef::Binary(k, _) => k.as_str().to_string() }; if !names.contains(&n) { names.push(n); } }
    let per: Vec<Value> = names.iter().map(|n| {
        let all: Vec<Value> = r.get_all(n.as_str()).iter().map(|v| bytes_json(v.as_bytes())).collect();
        let all_bin: Vec<Value> = r.get_all_bin(n.as_str()).iter().map(|v| match v.to_bytes() { Ok(b) => json!({"ok":true,"v":bytes_json(&b)}), Err(_) => json!({"ok":false,"v":[]}) }).collect();
        json!({"n": n, "nb": bytes_json(n.as_bytes()), "get": r.get(n.as_str()).is_some(), "get_bin": r.get_bin(n.as_str()).is_some(),
               "all": all, "all_bin": all_bin, "contains": r.contains_key(n.as_str())})
    }).collect();
    let iter: Vec<Value> = r.iter().map(|kv| match kv { KeyAndValueRef::Ascii(k, _) => json!({"nb": bytes_json(k.as_str().as_bytes()), "bin": false}), KeyAndValueRef::Binary(k, _) => json!({"nb": bytes_json(k.as_str().as_bytes()), "bin": true}) }).collect();
    let keys: Vec<Value> = r.keys().map(|k| match k { KeyRef::Ascii(k) => json!({"nb": bytes_json(k.as_str().as_bytes()), "bin": false}), KeyRef::Binary(k) => json!({"nb": bytes_json(k.as_str().as_bytes()), "bin": true}) }).collect();
    let (mut va, mut vb) = (0u64, 0u64);
    for v in r.values() { match v { ValueRef::Ascii(_) => va += 1, ValueRef::Binary(_) => vb += 1 } }
    // the same names looked up in other letter cases (header names are case-insensitive: "X-Data-Bin" names the entry "x-data-bin")
    let variants: Vec<Value> = names.iter().flat_map(|n| {
        let up = n.to_ascii_uppercase();
        let cap: String = { let mut prev = '-'; n.chars().map(|c| { let o = if prev == '-' { c.to_ascii_uppercase() } else { c }; prev = c; o }).collect() };
        vec![(n.clone(), up), (n.clone(), cap)]
    }).filter(|(n, v)| n != v).map(|(n, v)| json!({"nb": bytes_json(n.as_bytes()), "asked": bytes_json(v.as_bytes()),
        "get": r.get(v.as_str()).is_some(), "get_bin": r.get_bin(v.as_str()).is_some(),
        "all": r.get_all(v.as_str()).iter().count() as u64, "all_bin": r.get_all_bin(v.as_str()).iter().count() as u64})).collect();
    // the remaining typed views: mutable iterators, get_mut / get_bin_mut, the entry API, and remove / remove_bin (on a copy)
    let mut r2 = r.clone();
    let iter_mut: Vec<Value> = r2.iter_mut().map(|kv| match kv { KeyAndMutValueRef::Ascii(k, _) => json!({"nb": bytes_json(k.as_str().as_bytes()), "bin": false}), KeyAndMutValueRef::Binary(k, _) => json!({"nb": bytes_json(k.as_str().as_bytes()), "bin": true}) }).collect();
    let (mut vma, mut vmb) = (0u64, 0u64);
    for v in r2.values_mut() { match v { ValueRefMut::Ascii(_) => vma += 1, ValueRefMut::Binary(_) => vmb += 1 } }
    let other: Vec<Value> = names.iter().map(|n| {
        let gm = r2.get_mut(n.as_str()).is_some();
        let gbm = r2.get_bin_mut(n.as_str()).is_some();
        let ent = match r2.entry(n.as_str()) { Ok(Entry::Occupied(_)) => "occupied", Ok(Entry::Vacant(_)) => "vacant", Err(_) => "invalid" };
        let entb = match r2.entry_bin(n.as_str()) { Ok(Entry::Occupied(_)) => "occupied", Ok(Entry::Vacant(_)) => "vacant", Err(_) => "invalid" };
        let mut r3 = r.clone();
        let rm = r3.remove(n.as_str()).is_some();
        let left_after_rm = r3.len() as u64;
        let mut r4 = r.clone();
        let rmb = r4.remove_bin(n.as_str()).is_some();
        let left_after_rmb = r4.len() as u64;
        json!({"nb": bytes_json(n.as_bytes()), "get_mut": gm, "get_bin_mut": gbm, "entry": ent, "entry_bin": entb, "remove": rm, "remove_bin": rmb,
               "left_after_remove": left_after_rm, "left_after_remove_bin": left_after_rmb, "count": r.get_all(n.as_str()).iter().count() as u64 + r.get_all_bin(n.as_str()).iter().count() as u64})
    }).collect();
    rec.ev(json!({"e":"recv","per":per,"iter":iter,"keys":keys,"values_ascii":va,"values_bin":vb,"len":r.len() as u64,"variants":variants,
                  "iter_mut":iter_mut,"values_mut_ascii":vma,"values_mut_bin":vmb,"other":other}));
}

pub fn gen(seed: u64, tier: &str) -> Vec<Value> {
    let mut rng = rand::rngs::StdRng::seed_from_u64(seed ^ 0xC08);
    let names = ["x", "x-bin", "bin", "a-bin-b", "-bin", "k", "k-bin", "te", "user-agent", "content-type", "grpc-status", "grpc-message", "grpc-message-type",
                 "te-bin", "X-Upper", "x-Bin", "x-BIN", "x bad", "", "x-bi", "xbin", "x-bin-bin", "é"];
    let n = if tier == "thorough" { 6000 } else { 900 };
    (0..n).map(|i| {
        let k = rng.gen_range(0..7);
        let entries: Vec<Value> = (0..k).map(|_| {
            let name = names[rng.gen_range(0..names.len())];
            // the kind is chosen independently of the suffix so that construction must enforce the rule
            let bin = if rng.gen_bool(0.85) { name.ends_with("-bin") } else { rng.gen_bool(0.5) };
            let len = rng.gen_range(0..10);
            // (a third of the binary payloads happen to read as base64 text themselves: they are payloads all the same)
            let v: Vec<u8> = if bin && rng.gen_bool(0.33) { [&b"abcd"[..], b"user", b"QUI=", b"0123456789abcdef", b"AAAAA", b"YWJj/+8="][rng.gen_range(0..6)].to_vec() }
                             else if bin { (0..len).map(|_| rng.gen()).collect() } else { match rng.gen_range(0..4) { 0 => (0..len).map(|_| rng.gen_range(0x80..=0xffu8)).collect(), 1 => (0..len).map(|_| rng.gen()).collect(), _ => (0..len).map(|_| rng.gen_range(0x20..0x7fu8)).collect() } };
            json!({"n": name, "nb": bytes_json(name.as_bytes()), "bin": bin, "v": bytes_json(&v)})
        }).collect();
        json!({"class":"metadata_map","entries":entries,"pad": i % 2 == 0})
    }).collect::<Vec<Value>>().into_iter().chain((0..4).map(|j| {
        // scale: maps of 60 entries - 20 values under one ASCII name, 10 under one binary name, 30 distinct names - in shuffled order
        let mut e: Vec<Value> = vec![];
        for v in 0..20u8 { e.push(json!({"n":"x","nb":bytes_json(b"x"),"bin":false,"v":bytes_json(&[b'a' + (v % 26), b'0' + (v % 10)])})); }
        for v in 0..10u8 { e.push(json!({"n":"x-bin","nb":bytes_json(b"x-bin"),"bin":true,"v":bytes_json(&vec![v; (v % 4) as usize])})); }
        for v in 0..30u8 { let name = format!("n{v}{}", if v % 3 == 0 { "-bin" } else { "" }); let bin = v % 3 == 0;
            e.push(json!({"n":name,"nb":bytes_json(name.as_bytes()),"bin":bin,"v":bytes_json(&[b'k', v])})); }
        if j % 2 == 1 { e.reverse(); }
        if j >= 2 { let n = e.len(); for i in 0..n / 2 { if i % 3 == 0 { e.swap(i, n - 1 - i); } } }
        json!({"class":"large_map","entries":e,"pad": j % 2 == 0})
    })).collect()
}
