//! Labs: one per subsystem. `gen` makes seeded stimuli, `run` executes one stimulus and appends events.
use crate::util::Out;
use serde_json::{json, Value};

pub mod framing;
pub mod status;
pub mod call;
pub mod meta;
pub mod intercept;
pub mod routing;
pub mod deadline;
pub mod reconnect;
pub mod shutdown;
pub mod health;
pub mod web;
pub mod richerr;
pub mod reflect;
pub mod codegen;
pub mod tls;
pub mod balance;
pub mod admission;

/// Shared event recorder so that events survive a panic or hang of the run.
#[derive(Clone, Default)]
pub struct Rec(pub std::sync::Arc<std::sync::Mutex<Vec<Value>>>);
/// While set, `Rec::ev` drops events: a warm-up call made before the judged one must leave no trace of its own.
pub static REC_PAUSED: std::sync::atomic::AtomicBool = std::sync::atomic::AtomicBool::new(false);
impl Rec {
    pub fn ev(&self, v: Value) { if REC_PAUSED.load(std::sync::atomic::Ordering::SeqCst) { return; } self.0.lock().unwrap_or_else(|e| e.into_inner()).push(v); }
    pub fn extend(&self, vs: Vec<Value>) { self.0.lock().unwrap_or_else(|e| e.into_inner()).extend(vs); }
    pub fn take(&self) -> Vec<Value> { std::mem::take(&mut *self.0.lock().unwrap_or_else(|e| e.into_inner())) }
}

pub fn gen(lab: &str, seed: u64, tier: &str) -> Vec<Value> {
    match lab {
        "framing" => framing::gen(seed, tier),
        "framing_hostile" => framing::gen_hostile(seed, tier),
        "framing_limits" => framing::gen_limits(seed, tier),
        "status" => status::gen(seed, tier),
        "call" => call::gen(seed, tier),
        "meta" => meta::gen(seed, tier),
        "intercept" => intercept::gen(seed, tier),
        "deadline" => deadline::gen(seed, tier),
        "richerr" => richerr::gen(seed, tier),
        _ => { eprintln!("unknown lab {lab}"); std::process::exit(2) }
    }
}

fn run_one(lab: &str, stim: &Value, rec: &Rec) {
    match lab {
        "framing" | "framing_hostile" | "framing_limits" => framing::run(stim, rec),
        "status" => status::run(stim, rec),
        "call" => call::run(stim, rec),
        "meta" => meta::run(stim, rec),
        "intercept" => intercept::run(stim, rec),
        "routing" => routing::run(stim, rec),
        "deadline" => deadline::run(stim, rec),
        "reconnect" => reconnect::run(stim, rec),
        "shutdown" => shutdown::run(stim, rec),
        "health" => health::run(stim, rec),
        "web" => web::run(stim, rec),
        "richerr" => richerr::run(stim, rec),
        "reflect" => reflect::run(stim, rec),
        "balance" => balance::run(stim, rec),
        "admission" => admission::run(stim, rec),
        "codegen" => codegen::run(stim, rec),
        "tls" => tls::run(stim, rec),
        _ => { eprintln!("unknown lab {lab}"); std::process::exit(2) }
    }
}

/// Runs every stimulus in its own watchdog thread. A panic or a hang inside code under test is *data*:
/// it is recorded as the run's `end` event and judged by the spec.
pub fn run_all(lab: &str, stims: Vec<Value>, out: &mut Out) {
    std::panic::set_hook(Box::new(|_| {}));
    let budget = std::time::Duration::from_secs(std::env::var("VH_HANG_SECS").ok().and_then(|s| s.parse().ok()).unwrap_or(20));
    let mut hangs = 0;
    for (k, stim) in stims.into_iter().enumerate() {
        out.ev(json!({"e":"reset","run":k as u64 + 1,"lab":lab,"stim":stim.clone()}));
        if hangs >= 3 { out.ev(json!({"e":"end","outcome":"skipped"})); continue; }
        REC_PAUSED.store(false, std::sync::atomic::Ordering::SeqCst);
        let (tx, rx) = std::sync::mpsc::channel();
        let lab_s = lab.to_string();
        let st = stim.clone();
        let rec = Rec::default();
        let rec2 = rec.clone();
        std::thread::Builder::new().stack_size(64 << 20).spawn(move || {
            let r = std::panic::catch_unwind(std::panic::AssertUnwindSafe(|| run_one(&lab_s, &st, &rec2)));
            let _ = tx.send(r);
        }).unwrap();
        let res = rx.recv_timeout(budget);
        for e in rec.take() { out.ev(e); }
        match res {
            Ok(Ok(())) => out.ev(json!({"e":"end","outcome":"ok"})),
            Ok(Err(p)) => {
                let msg = p.downcast_ref::<String>().cloned().or_else(|| p.downcast_ref::<&str>().map(|s| s.to_string())).unwrap_or_default();
                out.ev(json!({"e":"end","outcome":"panic","msg":msg}));
            }
            Err(_) => { hangs += 1; out.ev(json!({"e":"end","outcome":"hang"})); }
        }
    }
}
