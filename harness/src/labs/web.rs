//! grpc-web lab (C16 server layer, C17 client layer).
//! Stimulus kinds:
//!   srv_resp : {accept, ctype, chunks:[[..]..] (inner response DATA chunks), trailers:[{n,v}] | null, inner_status}
//!   srv_req  : {ctype, chunks:[[..]..] (request body chunks as sent by the browser), version}
//!   table    : {method, version, ctype|null, accept|null}
//!   cli_resp : {chunks:[[..]..] (encoded grpc-web response body as delivered), inner_trailers: bool}
//!   cli_req  : {chunks:[[..]..], version}
use crate::labs::framing::{BItem, ScriptBody, SegBuf};
use crate::labs::status::headers_json;
use crate::labs::Rec;
use crate::util::*;
use bytes::Bytes;
use http_body::Body as _;
use serde_json::{json, Value};
use std::pin::Pin;
use std::sync::atomic::{AtomicUsize, Ordering};
use std::sync::Arc;
use std::task::{Context, Poll};
use tonic::body::Body;
use tower::{Layer, Service, ServiceExt};

fn script_body(chunks: &Value, trailers: Option<http::HeaderMap>) -> (ScriptBody, Arc<AtomicUsize>) {
    let mut q = std::collections::VecDeque::new();
    for c in chunks.as_array().cloned().unwrap_or_default() { q.push_back(BItem::Data(json_bytes(&c))); }
    if let Some(t) = trailers { q.push_back(BItem::Trailers(t)); }
    let c = Arc::new(AtomicUsize::new(0));
    (ScriptBody { items: q, polls_after_end: c.clone(), ended: false, fused: true }, c)
}
fn header_list(v: &Value) -> http::HeaderMap {
    let mut h = http::HeaderMap::new();
    for e in v.as_array().cloned().unwrap_or_default() {
        if let (Ok(n), Ok(val)) = (http::header::HeaderName::from_bytes(e["n"].as_str().unwrap_or("").as_bytes()), http::HeaderValue::from_bytes(&json_bytes(&e["v"]))) { h.append(n, val); }
    }
    h
}
fn version_of(s: &str) -> http::Version { match s { "HTTP/1.0" => http::Version::HTTP_10, "HTTP/1.1" => http::Version::HTTP_11, "HTTP/3.0" => http::Version::HTTP_3, _ => http::Version::HTTP_2 } }

/// Drain a body with a noop waker, recording every frame; bounded number of polls (a busy loop shows up as "spin").
fn drain<B: http_body::Body<Data = Bytes> + Unpin>(mut body: B, rec: &Rec, side: &str, max_polls: usize) where B::Error: std::fmt::Display {
    // counting waker: a Pending poll that woke nobody has arranged no wake-up (the scripted inner bodies are always ready)
    struct CountWake(std::sync::atomic::AtomicUsize);
    impl std::task::Wake for CountWake { fn wake(self: std::sync::Arc<Self>) { self.0.fetch_add(1, std::sync::atomic::Ordering::SeqCst); } fn wake_by_ref(self: &std::sync::Arc<Self>) { self.0.fetch_add(1, std::sync::atomic::Ordering::SeqCst); } }
    let cw = std::sync::Arc::new(CountWake(std::sync::atomic::AtomicUsize::new(0)));
    let waker = std::task::Waker::from(cw.clone());
    let mut cx = Context::from_waker(&waker);
    let mut polls = 0; let mut pend = 0; let mut after_end = 0;
    loop {
        polls += 1;
        if polls > max_polls { rec.ev(json!({"e":"out","side":side,"k":"spin"})); break; }
        let w0 = cw.0.load(std::sync::atomic::Ordering::SeqCst);
        match Pin::new(&mut body).poll_frame(&mut cx) {
            Poll::Pending => { pend += 1; rec.ev(json!({"e":"out","side":side,"k":"pending","woken": cw.0.load(std::sync::atomic::Ordering::SeqCst) > w0}));
                               if pend > 50 { rec.ev(json!({"e":"out","side":side,"k":"stuck"})); break; } }
            Poll::Ready(None) => { rec.ev(json!({"e":"out","side":side,"k":"end"})); after_end += 1; if after_end >= 2 { break; } }
            Poll::Ready(Some(Err(e))) => { rec.ev(json!({"e":"out","side":side,"k":"err","msg":e.to_string()})); after_end += 1; if after_end >= 3 { break; } }
            Poll::Ready(Some(Ok(f))) => {
                pend = 0;
                if let Some(d) = f.data_ref() { rec.ev(json!({"e":"out","side":side,"k":"data","bytes":bytes_json(d)})); }
                else if let Some(t) = f.trailers_ref() { rec.ev(json!({"e":"out","side":side,"k":"trailers","list":headers_json(t)})); }
            }
        }
    }
}

pub fn run(stim: &Value, rec: &Rec) {
    let kind = stim["kind"].as_str().unwrap_or("");
    match kind {
        "srv_resp" | "srv_req" | "table" => {
            let log = rec.clone();
            let stim2 = stim.clone();
            // inner gRPC service: records what it receives, answers with the scripted response
            let inner = tower::service_fn(move |req: http::Request<Body>| {
                let log = log.clone(); let stim = stim2.clone();
                async move {
                    let (p, b) = req.into_parts();
                    log.ev(json!({"e":"inner_req","method":p.method.as_str(),"version":format!("{:?}", p.version),"list":headers_json(&p.headers)}));
                    // read the request body frame by frame
                    let waker = std::task::Waker::noop(); let mut cx = Context::from_waker(waker);
                    let mut b = b; let mut data = vec![]; let mut n = 0; let mut err = json!("");
                    loop { n += 1; if n > 100000 { break; } match Pin::new(&mut b).poll_frame(&mut cx) {
                        Poll::Ready(Some(Ok(f))) => { if let Some(d) = f.data_ref() { data.extend_from_slice(d); } }
                        Poll::Ready(Some(Err(e))) => { err = json!(e.to_string()); break; }
                        Poll::Ready(None) => break, Poll::Pending => {} } }
                    log.ev(json!({"e":"inner_body","bytes":bytes_json(&data),"err":err}));
                    let tr = if stim["trailers"].is_array() { Some(header_list(&stim["trailers"])) } else { None };
                    let (body, _) = script_body(&stim["chunks_resp"], tr);
                    let resp = http::Response::builder().status(stim["inner_status"].as_u64().unwrap_or(200) as u16)
                        .header("content-type", stim["inner_ctype"].as_str().unwrap_or("application/grpc")).header("x-inner", "1").body(Body::new(body)).unwrap();
                    Ok::<_, std::convert::Infallible>(resp)
                }
            });
            let mut svc = tonic_web::GrpcWebLayer::new().layer(inner);
            let mut b = http::Request::builder().method(stim["method"].as_str().unwrap_or("POST")).version(version_of(stim["version"].as_str().unwrap_or("HTTP/1.1"))).uri("/p.q.Svc/Unary");
            if let Some(ct) = stim["ctype"].as_str() { if ct != "none" { b = b.header("content-type", ct); } }
            if let Some(a) = stim["accept"].as_str() { if a != "none" { b = b.header("accept", a); } }
            // gae: the caller's own grpc-accept-encoding, if it sends one
            if let Some(a) = stim["gae"].as_str() { if a != "none" { b = b.header("grpc-accept-encoding", a); } }
            let (body, _) = script_body(&stim["chunks_req"], None);
            // honest_eos: the request body says so as soon as it has handed out its last chunk (a body with a known length, or HTTP/2
            // END_STREAM on the last DATA frame) instead of leaving its end to be found by one more poll
            let req = if stim["honest_eos"].as_bool().unwrap_or(false) { b.body(Body::new(HonestEos(body))).unwrap() } else { b.body(Body::new(body)).unwrap() };
            let resp = block_on(async { ServiceExt::<http::Request<Body>>::ready(&mut svc).await.unwrap().call(req).await }).unwrap();
            let (p, body) = resp.into_parts();
            rec.ev(json!({"e":"resp","status":p.status.as_u16(),"list":headers_json(&p.headers)}));
            drain(Box::pin(body), rec, "resp", 100000);
        }
        "cli_resp" | "cli_req" => {
            let log = rec.clone();
            let stim2 = stim.clone();
            let after = Arc::new(AtomicUsize::new(0));
            let after2 = after.clone();
            let inner = tower::service_fn(move |req: http::Request<tonic_web::GrpcWebCall<Body>>| {
                let log = log.clone(); let stim = stim2.clone(); let after = after2.clone();
                async move {
                    let (p, b) = req.into_parts();
                    log.ev(json!({"e":"inner_req","method":p.method.as_str(),"version":format!("{:?}", p.version),"list":headers_json(&p.headers)}));
                    drain(Box::pin(b), &log, "req", 100000);
                    let (mut body, cnt) = script_body(&stim["chunks_resp"], None);
                    if stim["truncated_err"].as_bool().unwrap_or(false) { body.items.push_back(BItem::Err(tonic::Status::unavailable("connection reset"))); }
                    let _ = after.fetch_add(0, Ordering::SeqCst);
                    let resp = http::Response::builder().status(200).header("content-type", "application/grpc-web+proto").body(Counted { inner: body, cnt: cnt, out: after, seg: stim["seg"].as_u64().unwrap_or(0) as usize }).unwrap();
                    Ok::<_, std::convert::Infallible>(resp)
                }
            });
            let mut svc = tonic_web::GrpcWebClientLayer::new().layer(inner);
            let (body, _) = script_body(&stim["chunks_req"], None);
            let req = http::Request::builder().method("POST").version(version_of(stim["version"].as_str().unwrap_or("HTTP/2.0"))).uri("/p.q.Svc/Unary")
                .header("content-type", "application/grpc").body(Body::new(body)).unwrap();
            let resp = block_on(async { ServiceExt::<http::Request<Body>>::ready(&mut svc).await.unwrap().call(req).await }).unwrap();
            let (p, body) = resp.into_parts();
            rec.ev(json!({"e":"resp","status":p.status.as_u16(),"list":headers_json(&p.headers)}));
            drain(Box::pin(body), rec, "resp", 20000);
            rec.ev(json!({"e":"inner_polls_after_end","n":after.load(Ordering::SeqCst) as u64}));
        }
        k => panic!("web lab: unknown kind {k}"),
    }
}
/// a scripted body that reports its end honestly
struct HonestEos(ScriptBody);
impl http_body::Body for HonestEos {
    type Data = bytes::Bytes; type Error = tonic::Status;
    fn poll_frame(mut self: Pin<&mut Self>, cx: &mut Context<'_>) -> Poll<Option<Result<http_body::Frame<bytes::Bytes>, tonic::Status>>> { Pin::new(&mut self.0).poll_frame(cx) }
    fn is_end_stream(&self) -> bool { self.0.items.is_empty() }
}
/// forwards to a ScriptBody and publishes its polls-after-end counter
struct Counted { inner: ScriptBody, cnt: Arc<AtomicUsize>, out: Arc<AtomicUsize>, seg: usize }
impl http_body::Body for Counted {
    type Data = SegBuf; type Error = tonic::Status;
    fn poll_frame(mut self: Pin<&mut Self>, cx: &mut Context<'_>) -> Poll<Option<Result<http_body::Frame<SegBuf>, tonic::Status>>> {
        let r = Pin::new(&mut self.inner).poll_frame(cx);
        self.out.store(self.cnt.load(Ordering::SeqCst), Ordering::SeqCst);
        let seg = self.seg;
        r.map(|o| o.map(|r| r.map(|f| f.map_data(|d| SegBuf::split(d, seg)))))
    }
    // a transport that knows the length of the body (content-length, END_STREAM seen) reports the end as soon as it has handed out
    // the last chunk, before it is polled again: every other segmented body does
    fn is_end_stream(&self) -> bool { self.seg % 2 == 1 && self.inner.items.is_empty() }
}
