//! Rich error lab (C20): standard error details attached to a Status (as a list or as a set), sent through the
//! header encoding (Status::add_header / from_header_map) and read back with the StatusExt API.
//! A detail is exchanged in canonical form {kind, s:[strings], ll:[[strings..]..], has, secs:[digits], nanos} with
//! strings as byte arrays; the same projection is applied to what comes back, TLC compares.
//! Stimulus: {form:"vec"|"set", code, msg:[..], details:[detail..]} | {form:"hostile", code, bytes:[..]}
use crate::labs::Rec;
use crate::util::*;
use rand::{Rng, SeedableRng};
use serde_json::{json, Value};
use std::collections::HashMap;
use std::time::Duration;
use tonic::{Code, Status};
use tonic_types::{BadRequest, DebugInfo, ErrorDetail, ErrorDetails, ErrorInfo, FieldViolation, Help, HelpLink, LocalizedMessage,
    PreconditionFailure, PreconditionViolation, QuotaFailure, QuotaViolation, RequestInfo, ResourceInfo, RetryInfo, StatusExt};

fn s(v: &Value) -> String { String::from_utf8_lossy(&json_bytes(v)).into_owned() }
fn sj(x: &str) -> Value { str_json(x) }
fn digits(n: u64) -> Vec<u8> { n.to_string().bytes().map(|b| b - b'0').collect() }
fn undigits(v: &Value) -> u64 { v.as_array().map(|a| a.iter().fold(0u64, |acc, x| acc * 10 + x.as_u64().unwrap_or(0))).unwrap_or(0) }

pub fn from_json(d: &Value) -> ErrorDetail {
    let st: Vec<String> = d["s"].as_array().cloned().unwrap_or_default().iter().map(s).collect();
    let ll: Vec<Vec<String>> = d["ll"].as_array().cloned().unwrap_or_default().iter().map(|t| t.as_array().cloned().unwrap_or_default().iter().map(s).collect()).collect();
    match d["kind"].as_str().unwrap_or("") {
        "retry_info" => RetryInfo::new(if d["has"].as_bool().unwrap_or(false) { Some(Duration::new(undigits(&d["secs"]), d["nanos"].as_u64().unwrap_or(0) as u32)) } else { None }).into(),
        "debug_info" => DebugInfo::new(ll.iter().map(|t| t[0].clone()).collect::<Vec<_>>(), st[0].clone()).into(),
        "quota_failure" => QuotaFailure::new(ll.iter().map(|t| QuotaViolation::new(t[0].clone(), t[1].clone())).collect::<Vec<_>>()).into(),
        "error_info" => ErrorInfo::new(st[0].clone(), st[1].clone(), ll.iter().map(|t| (t[0].clone(), t[1].clone())).collect::<HashMap<_, _>>()).into(),
        "precondition_failure" => PreconditionFailure::new(ll.iter().map(|t| PreconditionViolation::new(t[0].clone(), t[1].clone(), t[2].clone())).collect::<Vec<_>>()).into(),
        "bad_request" => BadRequest::new(ll.iter().map(|t| FieldViolation::new(t[0].clone(), t[1].clone())).collect::<Vec<_>>()).into(),
        "request_info" => RequestInfo::new(st[0].clone(), st[1].clone()).into(),
        "resource_info" => ResourceInfo::new(st[0].clone(), st[1].clone(), st[2].clone(), st[3].clone()).into(),
        "help" => Help::new(ll.iter().map(|t| HelpLink::new(t[0].clone(), t[1].clone())).collect::<Vec<_>>()).into(),
        _ => LocalizedMessage::new(st[0].clone(), st[1].clone()).into(),
    }
}
fn canon(kind: &str, st: Vec<&str>, ll: Vec<Vec<&str>>, has: bool, secs: u64, nanos: u32) -> Value {
    json!({"kind":kind,"s":st.iter().map(|x| sj(x)).collect::<Vec<_>>(),"ll":ll.iter().map(|t| t.iter().map(|x| sj(x)).collect::<Vec<_>>()).collect::<Vec<_>>(),
           "has":has,"secs":digits(secs),"nanos":nanos})
}
pub fn to_json(d: &ErrorDetail) -> Value {
    match d {
        ErrorDetail::RetryInfo(r) => canon("retry_info", vec![], vec![], r.retry_delay.is_some(), r.retry_delay.map(|x| x.as_secs()).unwrap_or(0), r.retry_delay.map(|x| x.subsec_nanos()).unwrap_or(0)),
        ErrorDetail::DebugInfo(x) => canon("debug_info", vec![&x.detail], x.stack_entries.iter().map(|e| vec![e.as_str()]).collect(), false, 0, 0),
        ErrorDetail::QuotaFailure(x) => canon("quota_failure", vec![], x.violations.iter().map(|v| vec![v.subject.as_str(), v.description.as_str()]).collect(), false, 0, 0),
        ErrorDetail::ErrorInfo(x) => { let mut m: Vec<(&String, &String)> = x.metadata.iter().collect(); m.sort(); canon("error_info", vec![&x.reason, &x.domain], m.iter().map(|(k, v)| vec![k.as_str(), v.as_str()]).collect(), false, 0, 0) }
        ErrorDetail::PreconditionFailure(x) => canon("precondition_failure", vec![], x.violations.iter().map(|v| vec![v.r#type.as_str(), v.subject.as_str(), v.description.as_str()]).collect(), false, 0, 0),
        ErrorDetail::BadRequest(x) => canon("bad_request", vec![], x.field_violations.iter().map(|v| vec![v.field.as_str(), v.description.as_str()]).collect(), false, 0, 0),
        ErrorDetail::RequestInfo(x) => canon("request_info", vec![&x.request_id, &x.serving_data], vec![], false, 0, 0),
        ErrorDetail::ResourceInfo(x) => canon("resource_info", vec![&x.resource_type, &x.resource_name, &x.owner, &x.description], vec![], false, 0, 0),
        ErrorDetail::Help(x) => canon("help", vec![], x.links.iter().map(|l| vec![l.description.as_str(), l.url.as_str()]).collect(), false, 0, 0),
        ErrorDetail::LocalizedMessage(x) => canon("localized_message", vec![&x.locale, &x.message], vec![], false, 0, 0),
        _ => canon("unknown_kind", vec![], vec![], false, 0, 0),
    }
}
fn set_of(details: &[ErrorDetail]) -> ErrorDetails {
    let mut e = ErrorDetails::new();
    for d in details { match d.clone() {
        ErrorDetail::RetryInfo(r) => { e.set_retry_info(r.retry_delay); }
        ErrorDetail::DebugInfo(x) => { e.set_debug_info(x.stack_entries, x.detail); }
        ErrorDetail::QuotaFailure(x) => { e.set_quota_failure(x.violations); }
        ErrorDetail::ErrorInfo(x) => { e.set_error_info(x.reason, x.domain, x.metadata); }
        ErrorDetail::PreconditionFailure(x) => { e.set_precondition_failure(x.violations); }
        ErrorDetail::BadRequest(x) => { e.set_bad_request(x.field_violations); }
        ErrorDetail::RequestInfo(x) => { e.set_request_info(x.request_id, x.serving_data); }
        ErrorDetail::ResourceInfo(x) => { e.set_resource_info(x.resource_type, x.resource_name, x.owner, x.description); }
        ErrorDetail::Help(x) => { e.set_help(x.links); }
        ErrorDetail::LocalizedMessage(x) => { e.set_localized_message(x.locale, x.message); }
        _ => {}
    } }
    e
}
/// The same set built the other way the API offers: the first detail through its `with_*` constructor, lists violation by
/// violation through `add_*` (the result must be indistinguishable from `set_*` with the whole list).
fn set_of_incremental(details: &[ErrorDetail]) -> ErrorDetails {
    let mut e: Option<ErrorDetails> = None;
    for d in details {
        let first = e.is_none();
        let mut cur = e.take().unwrap_or_else(ErrorDetails::new);
        match d.clone() {
            ErrorDetail::RetryInfo(r) => { if first { cur = ErrorDetails::with_retry_info(r.retry_delay); } else { cur.set_retry_info(r.retry_delay); } }
            ErrorDetail::DebugInfo(x) => { if first { cur = ErrorDetails::with_debug_info(x.stack_entries, x.detail); } else { cur.set_debug_info(x.stack_entries, x.detail); } }
            ErrorDetail::QuotaFailure(x) => {
                if x.violations.is_empty() { if first { cur = ErrorDetails::with_quota_failure(vec![]); } else { cur.set_quota_failure(vec![]); } }
                for (i, v) in x.violations.into_iter().enumerate() { if first && i == 0 { cur = ErrorDetails::with_quota_failure_violation(v.subject, v.description); } else { cur.add_quota_failure_violation(v.subject, v.description); } }
            }
            ErrorDetail::ErrorInfo(x) => { if first { cur = ErrorDetails::with_error_info(x.reason, x.domain, x.metadata); } else { cur.set_error_info(x.reason, x.domain, x.metadata); } }
            ErrorDetail::PreconditionFailure(x) => {
                if x.violations.is_empty() { if first { cur = ErrorDetails::with_precondition_failure(vec![]); } else { cur.set_precondition_failure(vec![]); } }
                for (i, v) in x.violations.into_iter().enumerate() { if first && i == 0 { cur = ErrorDetails::with_precondition_failure_violation(v.r#type, v.subject, v.description); } else { cur.add_precondition_failure_violation(v.r#type, v.subject, v.description); } }
            }
            ErrorDetail::BadRequest(x) => {
                if x.field_violations.is_empty() { if first { cur = ErrorDetails::with_bad_request(vec![]); } else { cur.set_bad_request(vec![]); } }
                for (i, v) in x.field_violations.into_iter().enumerate() { if first && i == 0 { cur = ErrorDetails::with_bad_request_violation(v.field, v.description); } else { cur.add_bad_request_violation(v.field, v.description); } }
            }
            ErrorDetail::RequestInfo(x) => { if first { cur = ErrorDetails::with_request_info(x.request_id, x.serving_data); } else { cur.set_request_info(x.request_id, x.serving_data); } }
            ErrorDetail::ResourceInfo(x) => { if first { cur = ErrorDetails::with_resource_info(x.resource_type, x.resource_name, x.owner, x.description); } else { cur.set_resource_info(x.resource_type, x.resource_name, x.owner, x.description); } }
            ErrorDetail::Help(x) => {
                if x.links.is_empty() { if first { cur = ErrorDetails::with_help(vec![]); } else { cur.set_help(vec![]); } }
                for (i, l) in x.links.into_iter().enumerate() { if first && i == 0 { cur = ErrorDetails::with_help_link(l.description, l.url); } else { cur.add_help_link(l.description, l.url); } }
            }
            ErrorDetail::LocalizedMessage(x) => { if first { cur = ErrorDetails::with_localized_message(x.locale, x.message); } else { cur.set_localized_message(x.locale, x.message); } }
            _ => {}
        }
        e = Some(cur);
    }
    e.unwrap_or_else(ErrorDetails::new)
}
fn set_json(e: &ErrorDetails) -> Value {
    let mut v = vec![];
    if let Some(x) = e.retry_info() { v.push(to_json(&x.clone().into())); }
    if let Some(x) = e.debug_info() { v.push(to_json(&x.clone().into())); }
    if let Some(x) = e.quota_failure() { v.push(to_json(&x.clone().into())); }
    if let Some(x) = e.error_info() { v.push(to_json(&x.clone().into())); }
    if let Some(x) = e.precondition_failure() { v.push(to_json(&x.clone().into())); }
    if let Some(x) = e.bad_request() { v.push(to_json(&x.clone().into())); }
    if let Some(x) = e.request_info() { v.push(to_json(&x.clone().into())); }
    if let Some(x) = e.resource_info() { v.push(to_json(&x.clone().into())); }
    if let Some(x) = e.help() { v.push(to_json(&x.clone().into())); }
    if let Some(x) = e.localized_message() { v.push(to_json(&x.clone().into())); }
    Value::Array(v)
}
fn getters_json(st: &Status) -> Value {
    let mut v = vec![];
    if let Some(x) = st.get_details_retry_info() { v.push(to_json(&x.into())); }
    if let Some(x) = st.get_details_debug_info() { v.push(to_json(&x.into())); }
    if let Some(x) = st.get_details_quota_failure() { v.push(to_json(&x.into())); }
    if let Some(x) = st.get_details_error_info() { v.push(to_json(&x.into())); }
    if let Some(x) = st.get_details_precondition_failure() { v.push(to_json(&x.into())); }
    if let Some(x) = st.get_details_bad_request() { v.push(to_json(&x.into())); }
    if let Some(x) = st.get_details_request_info() { v.push(to_json(&x.into())); }
    if let Some(x) = st.get_details_resource_info() { v.push(to_json(&x.into())); }
    if let Some(x) = st.get_details_help() { v.push(to_json(&x.into())); }
    if let Some(x) = st.get_details_localized_message() { v.push(to_json(&x.into())); }
    Value::Array(v)
}

pub fn run(stim: &Value, rec: &Rec) {
    let code = Code::from_i32(stim["code"].as_i64().unwrap_or(3) as i32);
    let msg = s(&stim["msg"]);
    let form = stim["form"].as_str().unwrap_or("vec");
    // optional custom metadata on the status (stim.meta, same form as in the status lab): it must not disturb the details
    let meta = if stim["meta"].is_array() { Some(crate::labs::status::build_meta(&stim["meta"]).0) } else { None };
    let built = match (form, meta) {
        ("hostile", None) => Status::with_details(code, msg, json_bytes(&stim["bytes"]).into()),
        ("hostile", Some(m)) => Status::with_details_and_metadata(code, msg, json_bytes(&stim["bytes"]).into(), m),
        (_, m) => {
            let details: Vec<ErrorDetail> = stim["details"].as_array().cloned().unwrap_or_default().iter().map(from_json).collect();
            // stim.build = "incremental": the set is assembled through the with_* constructors and add_* methods instead of set_*
            let set = |d: &[ErrorDetail]| if stim["build"].as_str() == Some("incremental") { set_of_incremental(d) } else { set_of(d) };
            match (form == "set", m) {
                (true, None) => Status::with_error_details(code, msg, set(&details)),
                (true, Some(m)) => Status::with_error_details_and_metadata(code, msg, set(&details), m),
                (false, None) => Status::with_error_details_vec(code, msg, details),
                (false, Some(m)) => Status::with_error_details_vec_and_metadata(code, msg, details, m),
            }
        }
    };
    rec.ev(json!({"e":"built","details":bytes_json(built.details())}));
    // through the header encoding
    let mut h = http::HeaderMap::new();
    built.add_header(&mut h).expect("add_header");
    // every other status travels the way a peer that pads its base64 would send it (receivers must accept both forms)
    if stim["code"].as_i64().unwrap_or(0) % 2 == 0 {
        if let Some(v) = h.get("grpc-status-details-bin").cloned() {
            let mut b = v.as_bytes().to_vec();
            while b.len() % 4 != 0 { b.push(b'='); }
            h.insert("grpc-status-details-bin", http::HeaderValue::from_bytes(&b).unwrap());
        }
    }
    let back = Status::from_header_map(&h).expect("status header present");
    rec.ev(json!({"e":"travelled","code":back.code() as i32,"msg":str_json(back.message()),"details":bytes_json(back.details())}));
    let vecr = back.check_error_details_vec();
    rec.ev(match &vecr { Ok(v) => json!({"e":"read_vec","ok":true,"details":v.iter().map(to_json).collect::<Vec<_>>()}), Err(_) => json!({"e":"read_vec","ok":false,"details":[]}) });
    let setr = back.check_error_details();
    rec.ev(match &setr { Ok(v) => json!({"e":"read_set","ok":true,"details":set_json(v)}), Err(_) => json!({"e":"read_set","ok":false,"details":[]}) });
    rec.ev(json!({"e":"getters","details":getters_json(&back),"lenient_vec":back.get_error_details_vec().iter().map(to_json).collect::<Vec<_>>(),"lenient_set":set_json(&back.get_error_details())}));
}

fn rs(rng: &mut impl Rng) -> String { ["", "a", "field.name", "héllo wörld", "x\ny", "日本語", "100% \"q\"", "long-long-long-long-long-long-long-long-long-long",
    // whitespace at either end is part of the text (an indented cause line, a trailing newline, a message of blanks only)
    "  caused by: lock held", "line\n", "\t", " ",
    // longer than the 64 characters googleapis recommends for some fields (a recommendation, not something the library may enforce by dropping data)
    "k0123456789k0123456789k0123456789k0123456789k0123456789k0123456789k0123456789", "日本語日本語日本語日本語日本語日本語日本語日本語"][rng.gen_range(0..14)].to_string() }
pub fn rand_detail(rng: &mut impl Rng, kind: usize) -> Value {
    let t = |rng: &mut dyn FnMut() -> String, n: usize, k: usize| -> Vec<Vec<String>> { (0..n).map(|_| (0..k).map(|_| rng()).collect()).collect() };
    let mut f = || rs(rng);
    let d: ErrorDetail = match kind {
        0 => { let has = true; let secs = [0u64, 1, 59, 315_576_000_000, 4_000_000_000][(f().len()) % 5]; RetryInfo::new(if has { Some(Duration::new(secs, (f().len() as u32 * 37_000_001) % 1_000_000_000)) } else { None }).into() }
        1 => { let n = f().len() % 4; DebugInfo::new(t(&mut f, n, 1).into_iter().map(|x| x[0].clone()).collect::<Vec<_>>(), f()).into() }
        2 => { let n = f().len() % 4; QuotaFailure::new(t(&mut f, n, 2).into_iter().map(|x| QuotaViolation::new(x[0].clone(), x[1].clone())).collect::<Vec<_>>()).into() }
        3 => { let n = f().len() % 3; ErrorInfo::new(f(), f(), t(&mut f, n, 2).into_iter().map(|x| (x[0].clone(), x[1].clone())).collect::<HashMap<_, _>>()).into() }
        4 => { let n = f().len() % 4; PreconditionFailure::new(t(&mut f, n, 3).into_iter().map(|x| PreconditionViolation::new(x[0].clone(), x[1].clone(), x[2].clone())).collect::<Vec<_>>()).into() }
        5 => { let n = f().len() % 4; BadRequest::new(t(&mut f, n, 2).into_iter().map(|x| FieldViolation::new(x[0].clone(), x[1].clone())).collect::<Vec<_>>()).into() }
        6 => RequestInfo::new(f(), f()).into(),
        7 => ResourceInfo::new(f(), f(), f(), f()).into(),
        8 => { let n = f().len() % 4; Help::new(t(&mut f, n, 2).into_iter().map(|x| HelpLink::new(x[0].clone(), x[1].clone())).collect::<Vec<_>>()).into() }
        _ => LocalizedMessage::new(f(), f()).into(),
    };
    to_json(&d)
}
/// custom metadata for a status: ordinary entries, and in half of the cases an entry named like the details header itself
/// (a proxy copying upstream trailers into its own status metadata) holding some other status's details
fn status_meta(rng: &mut impl Rng) -> Value {
    let mut m = vec![json!({"n":"x-trace","bin":false,"v":bytes_json(b"t1")}), json!({"n":"x-blob-bin","bin":true,"v":[1,2,3]})];
    if rng.gen_bool(0.5) {
        let stale = Status::with_error_details_vec(Code::ResourceExhausted, "upstream", vec![QuotaFailure::new(vec![QuotaViolation::new("s", "d")]).into()]);
        m.push(json!({"n":"grpc-status-details-bin","bin":true,"v":bytes_json(stale.details())}));
    }
    if rng.gen_bool(0.3) { m.push(json!({"n":"grpc-message","bin":false,"v":bytes_json(b"from metadata")})); }
    Value::Array(m)
}
pub fn gen(seed: u64, tier: &str) -> Vec<Value> {
    let mut rng = rand::rngs::StdRng::seed_from_u64(seed ^ 0xC20);
    let mut out = vec![];
    // all 2^10 sets (set form)
    let step = if tier == "thorough" { 1 } else { 5 };
    for mask in (0..1024u32).step_by(step) {
        let details: Vec<Value> = (0..10).filter(|k| mask >> k & 1 == 1).map(|k| rand_detail(&mut rng, k)).collect();
        let mut st = json!({"form":"set","class":"all_sets","code":rng.gen_range(0..17),"msg":str_json(&rs(&mut rng)),"details":details});
        if mask % 3 == 0 { st["meta"] = status_meta(&mut rng); st["class"] = json!("all_sets_with_metadata"); }
        if mask % 2 == 1 { st["build"] = json!("incremental"); }
        out.push(st);
    }
    // ordered lists of length <= 3 over 10 kinds with repetition (1 + 10 + 100 + 1000)
    let mut lists: Vec<Vec<usize>> = vec![vec![]];
    for a in 0..10 { lists.push(vec![a]); for b in 0..10 { lists.push(vec![a, b]); for c in 0..10 { lists.push(vec![a, b, c]); } } }
    for (i, l) in lists.iter().enumerate() {
        if tier != "thorough" && l.len() == 3 && i % 6 != 0 { continue; }
        let details: Vec<Value> = l.iter().map(|k| rand_detail(&mut rng, *k)).collect();
        let mut st = json!({"form":"vec","class":"ordered_lists","code":rng.gen_range(0..17),"msg":str_json(&rs(&mut rng)),"details":details});
        if i % 4 == 0 { st["meta"] = status_meta(&mut rng); st["class"] = json!("ordered_lists_with_metadata"); }
        out.push(st);
    }
    // count: ordered lists of 33, 45 and 120 details (kinds cycling, one RetryInfo only near the end: the set view must still see it)
    for n in [33usize, 45, 120] {
        let mut details: Vec<Value> = (0..n).map(|i| rand_detail(&mut rng, 1 + i % 9)).collect();
        let at = n - 2;
        details[at] = rand_detail(&mut rng, 0);
        out.push(json!({"form":"vec","class":"long_lists","code":rng.gen_range(1..17),"msg":str_json("m"),"details":details}));
    }
    // size: details far larger than any of the above (hundreds of violations / links; 7-12 KB once encoded) - nothing may be cut or dropped
    for (k, n) in [(5usize, 260usize), (8, 300), (2, 280), (4, 200)] {
        let strs = |i: usize| (format!("field.name.{i}"), format!("description of violation number {i}"));
        let d: ErrorDetail = match k {
            5 => BadRequest::new((0..n).map(|i| { let (a, b) = strs(i); FieldViolation::new(a, b) }).collect::<Vec<_>>()).into(),
            8 => Help::new((0..n).map(|i| { let (a, b) = strs(i); HelpLink::new(a, b) }).collect::<Vec<_>>()).into(),
            2 => QuotaFailure::new((0..n).map(|i| { let (a, b) = strs(i); QuotaViolation::new(a, b) }).collect::<Vec<_>>()).into(),
            _ => PreconditionFailure::new((0..n).map(|i| { let (a, b) = strs(i); PreconditionViolation::new("T", a, b) }).collect::<Vec<_>>()).into(),
        };
        let j = to_json(&d);
        out.push(json!({"form":"vec","class":"large_details","code":3,"msg":str_json("m"),"details":[j.clone(), rand_detail(&mut rng, 6)]}));
        out.push(json!({"form":"set","class":"large_details","code":9,"msg":str_json("m"),"details":[j],"build":"incremental"}));
    }
    // field sweep: for every kind, every string field empty / non-empty and every list of length 0..2; RetryInfo with no delay and
    // delays on a grid of seconds x nanos (incl. sub-second, the protobuf maximum and beyond it)
    {
        let mut one = |d: ErrorDetail, out: &mut Vec<Value>| {
            let j = to_json(&d);
            out.push(json!({"form":"vec","class":"field_sweep","code":3,"msg":str_json("m"),"details":[j.clone()]}));
            out.push(json!({"form":"set","class":"field_sweep","code":3,"msg":str_json("m"),"details":[j.clone()]}));
            out.push(json!({"form":"set","class":"field_sweep","code":3,"msg":str_json("m"),"details":[j],"build":"incremental"}));
        };
        one(RetryInfo::new(None).into(), &mut out);
        for secs in [0u64, 1, 59, 315_575_999_999, 315_576_000_000, 315_576_000_001, 4_000_000_000_000] { for nanos in [0u32, 1, 250_000_000, 999_999_999] {
            one(RetryInfo::new(Some(Duration::new(secs, nanos))).into(), &mut out);
        } }
        let sv = ["", "x"];
        for a in sv { for b in sv {
            one(RequestInfo::new(a, b).into(), &mut out);
            one(LocalizedMessage::new(a, b).into(), &mut out);
            one(DebugInfo::new(Vec::<String>::new(), a).into(), &mut out);
            one(DebugInfo::new(vec![a.to_string(), b.to_string()], b).into(), &mut out);
            one(ErrorInfo::new(a, b, HashMap::<String, String>::new()).into(), &mut out);
            one(ErrorInfo::new(a, b, HashMap::from([(a.to_string(), b.to_string())])).into(), &mut out);
            for n in 0..3usize {
                one(QuotaFailure::new((0..n).map(|_| QuotaViolation::new(a, b)).collect::<Vec<_>>()).into(), &mut out);
                one(BadRequest::new((0..n).map(|_| FieldViolation::new(a, b)).collect::<Vec<_>>()).into(), &mut out);
                one(Help::new((0..n).map(|_| HelpLink::new(a, b)).collect::<Vec<_>>()).into(), &mut out);
                one(PreconditionFailure::new((0..n).map(|_| PreconditionViolation::new(a, b, a)).collect::<Vec<_>>()).into(), &mut out);
            }
            for c in sv { for d in sv { one(ResourceInfo::new(a, b, c, d).into(), &mut out); } }
        } }
    }
    // structured hostile details: a well-formed google.rpc.Status whose `details` are Any messages of every shape -
    // type URL empty / without slash / non-ASCII / other host / unknown type / a known type, value empty / valid for
    // another type / garbage, fields present or absent, 0..2 entries, plus a truncated copy of each
    {
        fn varint(mut n: usize, out: &mut Vec<u8>) { loop { let b = (n & 0x7f) as u8; n >>= 7; if n == 0 { out.push(b); break; } out.push(b | 0x80); } }
        fn field(tag: u8, payload: &[u8], out: &mut Vec<u8>) { out.push(tag); varint(payload.len(), out); out.extend_from_slice(payload); }
        let help = Status::with_error_details_vec(Code::Aborted, "m", vec![Help::new(vec![HelpLink::new("d", "u")]).into()]);
        // value bytes of a real Help detail: the `value` field of the first Any inside the encoded Status
        let help_val: Vec<u8> = { let d = help.details(); let i = d.windows(2).rposition(|w| w[0] == 0x12).unwrap_or(0); d[i + 2..].to_vec() };
        let urls: Vec<Vec<u8>> = vec![b"".to_vec(), b"x".to_vec(), "é".as_bytes().to_vec(), "évènement".as_bytes().to_vec(), b"/".to_vec(), b"type.googleapis.com/".to_vec(),
            b"type.googleapis.com/google.rpc.Help".to_vec(), b"example.com/google.rpc.Help".to_vec(), b"google.rpc.Help".to_vec(), b"type.googleapis.com/google.rpc.Nope".to_vec(),
            b"type.googleapis.com/google.rpc.RetryInfo".to_vec(), vec![0xff, 0xfe]];
        let vals: Vec<Vec<u8>> = vec![vec![], help_val.clone(), vec![0xff, 0xff, 0xff], vec![0x0a, 0x05, 0x61]];
        let mut anys: Vec<Vec<u8>> = vec![vec![]];                               // an Any with no field at all
        for u in &urls { for v in &vals { for with_url in [true, false] { for with_val in [true, false] {
            if !with_url && u != &urls[0] { continue; }
            let mut a = vec![]; if with_url { field(0x0a, u, &mut a); } if with_val { field(0x12, v, &mut a); } anys.push(a);
        } } } }
        let mut bodies: Vec<Vec<u8>> = vec![];
        for a in &anys { let mut b = vec![0x08, 0x0a]; field(0x12, b"m", &mut b); field(0x1a, a, &mut b); bodies.push(b);
            let mut b2 = vec![]; field(0x1a, a, &mut b2); bodies.push(b2); }
        for (i, a) in anys.iter().enumerate() { let mut b = vec![]; field(0x1a, a, &mut b); field(0x1a, &anys[(i * 7 + 3) % anys.len()], &mut b); bodies.push(b); }
        let whole = bodies.clone();
        for b in whole { if b.len() > 2 { bodies.push(b[..b.len() - 1].to_vec()); } }
        for b in bodies { out.push(json!({"form":"hostile","class":"hostile_any_shapes","code":10,"msg":str_json("m"),"bytes":bytes_json(&b),"details":[]})); }
    }
    // damaged details: a valid list of two or three details cut short at every length, or followed by bytes that are no protobuf.
    // What begins with a complete detail and is undecodable as a whole is still undecodable: an error or an empty result, not a shorter list
    for q in 0..(if tier == "thorough" { 8 } else { 2 }) {
        let d: Vec<ErrorDetail> = (0..(2 + q % 2)).map(|j| from_json(&rand_detail(&mut rng, (3 * q + 4 * j + 5) % 10))).collect();
        let whole = Status::with_error_details_vec(Code::Aborted, "m", d).details().to_vec();
        for cut in 1..whole.len() { out.push(json!({"form":"hostile","class":"truncated_details","code":10,"msg":str_json("m"),"bytes":bytes_json(&whole[..cut]),"details":[]})); }
        for tail in [&[0xffu8, 0xff, 0xff][..], &[0x1a, 0x7f][..], &[0x0a][..]] { let mut b = whole.clone(); b.extend_from_slice(tail);
            out.push(json!({"form":"hostile","class":"details_with_garbage_tail","code":10,"msg":str_json("m"),"bytes":bytes_json(&b),"details":[]})); }
    }
    // hostile details bytes
    let n = if tier == "thorough" { 4000 } else { 500 };
    for _ in 0..n {
        let mut b: Vec<u8> = match rng.gen_range(0..3) {
            0 => { let k = rng.gen_range(0..40); (0..k).map(|_| rng.gen()).collect() }
            _ => { // a valid encoding, then mutated
                let d: Vec<ErrorDetail> = (0..rng.gen_range(0..3)).map(|_| { let k = rng.gen_range(0..10); from_json(&rand_detail(&mut rng, k)) }).collect();
                Status::with_error_details_vec(Code::Aborted, "m", d).details().to_vec()
            }
        };
        if !b.is_empty() { match rng.gen_range(0..4) { 0 => { let i = rng.gen_range(0..b.len()); b[i] ^= 1 << rng.gen_range(0..8); } 1 => { let i = rng.gen_range(0..b.len()); b.truncate(i); } 2 => { b.extend_from_slice(&[0xff, 0xff, 0xff]); } _ => {} } }
        out.push(json!({"form":"hostile","class":"hostile_bytes","code":rng.gen_range(0..17),"msg":str_json("m"),"bytes":bytes_json(&b),"details":[]}));
    }
    out
}
