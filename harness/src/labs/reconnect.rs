//! Reconnect lab (C14): a generated client over Endpoint::connect_with_connector[_lazy] with a scripted connector.
//! Stimulus: {lazy: bool, script: ["F"|"S"|"D"...], calls: n, connect_timeout: bool}
//!   F / S: result of the next connector invocation (taken in order; exhausted script = F)
//!   D    : the peer drops the established connection at the next quiescent point (before the next call)
use crate::labs::call::{build_server, gen::svc::svc_client::SvcClient};
use crate::labs::Rec;
use crate::shim::{Kill, Shim};
use crate::util::*;
use serde_json::{json, Value};
use std::sync::{Arc, Mutex};
use std::time::Duration;

fn pem(n: &str) -> Vec<u8> { std::fs::read(format!("/verif/tls-data/{n}")).unwrap_or_else(|_| panic!("missing tls-data/{n}")) }
struct Env { script: Vec<String>, pos: usize, consumed: Vec<String>, kills: Vec<Kill>, invocations: u64 }

pub fn run(stim: &Value, rec: &Rec) {
    let script: Vec<String> = stim["script"].as_array().cloned().unwrap_or_default().iter().map(|v| v.as_str().unwrap_or("F").to_string()).collect();
    let lazy = stim["lazy"].as_bool().unwrap_or(true);
    let ncalls = stim["calls"].as_u64().unwrap_or(5);
    let stim_ct = stim["connect_timeout"].as_bool().unwrap_or(false);
    let stim_opts: Vec<String> = stim["ep_opts"].as_array().map(|a| a.iter().filter_map(|x| x.as_str().map(|s| s.to_string())).collect()).unwrap_or_default();
    let stim_zero: Vec<u64> = stim["zero_calls"].as_array().map(|a| a.iter().filter_map(|x| x.as_u64()).collect()).unwrap_or_default();
    let stim_kinds: Vec<String> = stim["fail_kinds"].as_array().map(|a| a.iter().filter_map(|x| x.as_str().map(|s| s.to_string())).collect()).unwrap_or_default();
    // stim.tls: the channel is an https one (the scripted connector's pipe is wrapped in TLS by tonic; the in-process server presents a
    // certificate the client trusts)
    let tls = stim["tls"].as_bool().unwrap_or(false);
    let stim_limited = stim["limited_dialer"].as_bool().unwrap_or(false);
    let env = Arc::new(Mutex::new(Env { script, pos: 0, consumed: vec![], kills: vec![], invocations: 0 }));
    let log = rec.clone();
    let hook_log = rec.clone();
    // only the Reconnect events: the in-process servers of this lab emit accept-loop events too
    tonic::transport::verif_hooks::set_sink(Some(Box::new(move |ev, n| if ev.starts_with("rc_") { hook_log.ev(json!({"e":"hook","ev":ev,"n":n})) })));
    let server_stim = json!({"server":{"send":[],"accept":[]},"script":{"init_meta":[],"msgs":[[7]],"end":{"ok":true},"fail_before":false,"no_compress":false}});
    block_on_paused(async move {
        let env2 = env.clone();
        let log2 = log.clone();
        let fail_kinds0: Vec<String> = stim_kinds.clone();
        let connector = tower::service_fn(move |_: http::Uri| {
            let fail_kinds = fail_kinds0.clone();
            let env = env2.clone();
            let log = log2.clone();
            let server_stim = server_stim.clone();
            async move {
                let inv = env.lock().unwrap().invocations;
                let r = { let mut e = env.lock().unwrap(); e.invocations += 1;
                    let r = if e.pos < e.script.len() && e.script[e.pos] != "D" { let r = e.script[e.pos].clone(); e.pos += 1; r } else { "F".to_string() };
                    e.consumed.push(r.clone()); r };
                log.ev(json!({"e":"connector","r":r}));
                if r == "S" {
                    let (c_io, s_io, _d) = Shim::pair(65536, 65536, 65536, 0);
                    env.lock().unwrap().kills.push(c_io.kill_switch());
                    let svc = build_server(&server_stim, &log);
                    let incoming = tokio_stream::StreamExt::chain(tokio_stream::once(Ok::<_, std::io::Error>(s_io)), tokio_stream::pending());
                    tokio::spawn(async move {
                        let mut b = tonic::transport::Server::builder();
                        if tls { b = b.tls_config(tonic::transport::ServerTlsConfig::new().identity(tonic::transport::Identity::from_pem(pem("server.pem"), pem("server.key")))).expect("server tls"); }
                        let _ = b.add_service(svc).serve_with_incoming(incoming).await;
                    });
                    Ok(hyper_util::rt::TokioIo::new(c_io))
                } else if tls && fail_kinds.get((inv as usize) % fail_kinds.len().max(1)).map(|s| s.as_str()) == Some("handshake_eof") {
                    // the dial succeeds and the peer goes away before the TLS handshake completes (a server that is restarting): still
                    // an attempt that made no connection
                    let (c_io, s_io, _d) = Shim::pair(65536, 65536, 65536, 0);
                    drop(s_io);
                    Ok(hyper_util::rt::TokioIo::new(c_io))
                } else {
                    // stim.fail_kinds: the io::ErrorKind of the n-th failed attempt (cycled); whatever the kind, no connection can be made
                    let kind = match fail_kinds.get((inv as usize) % fail_kinds.len().max(1)).map(|s| s.as_str()).unwrap_or("refused") {
                        "timed_out" => std::io::ErrorKind::TimedOut, "not_found" => std::io::ErrorKind::NotFound, "denied" => std::io::ErrorKind::PermissionDenied,
                        "other" => std::io::ErrorKind::Other, "reset" => std::io::ErrorKind::ConnectionReset, _ => std::io::ErrorKind::ConnectionRefused };
                    Err(std::io::Error::new(kind, "scripted connect failure"))
                }
            }
        });
        let mut ep = tonic::transport::Endpoint::from_static(if tls { "https://good.test" } else { "http://peer.test" });
        if tls { ep = ep.tls_config(tonic::transport::ClientTlsConfig::new().ca_certificate(tonic::transport::Certificate::from_pem(pem("ca_a.pem"))).domain_name("good.test")).expect("client tls"); }
        // stim.connect_timeout: a connect timeout is configured (virtual time: it never fires, the scripted connector answers at once)
        if stim_ct { ep = ep.connect_timeout(Duration::from_secs(5)); }
        // stim.ep_opts: other endpoint options that add tower layers around the connection (they must not change what a call observes)
        for o in stim_opts.iter() {
            match o.as_str() {
                "concurrency_limit" => { ep = ep.concurrency_limit(2); }
                "rate_limit" => { ep = ep.rate_limit(1000, Duration::from_millis(1)); }
                "user_agent" => { ep = ep.user_agent("lab-agent/1").expect("user agent"); }
                "buffer_size" => { ep = ep.buffer_size(1); }
                _ => {}
            }
        }
        // stim.limited_dialer: the dialer is shared through a tower ConcurrencyLimit (one dial at a time), i.e. a connector that relies on
        // tower's contract - poll_ready until it says ready, then call
        let ch = if stim_limited {
            let connector = tower::limit::ConcurrencyLimit::new(connector, 1);
            if lazy { Ok(ep.connect_with_connector_lazy(connector)) } else { ep.connect_with_connector(connector).await }
        } else if lazy { Ok(ep.connect_with_connector_lazy(connector)) } else { ep.connect_with_connector(connector).await };
        let consumed0 = std::mem::take(&mut env.lock().unwrap().consumed);
        let ch = match ch {
            Ok(c) => { log.ev(json!({"e":"connect","res":"ok","consumed":consumed0})); c }
            Err(e) => { log.ev(json!({"e":"connect","res":"err","consumed":consumed0,"msg":e.to_string()})); return; }
        };
        let mut cl = SvcClient::new(ch);
        for i in 0..ncalls {
            // environment: apply pending D entries at the quiescent point
            let mut killed = 0;
            loop {
                let k = { let mut e = env.lock().unwrap(); if e.pos < e.script.len() && e.script[e.pos] == "D" { e.pos += 1; Some(e.kills.last().cloned()) } else { None } };
                match k { Some(Some(k)) => { let was = !k.dead.load(std::sync::atomic::Ordering::SeqCst); if was { killed += 1; } k.kill(); log.ev(json!({"e":"kill","was_alive":was})); }
                          Some(None) => { log.ev(json!({"e":"kill","was_alive":false})); } None => break }
            }
            tokio::time::sleep(Duration::from_millis(1)).await;
            log.ev(json!({"e":"issue","i":i}));
            // stim.zero_calls: these calls carry a deadline that has already expired (grpc-timeout: 0): they may be cut off at once, but
            // they go through the channel like any other call and must leave it in the same state
            let zero = stim_zero.contains(&i);
            let mut rq = tonic::Request::new(vec![1u8]);
            if zero { rq.set_timeout(Duration::ZERO); }
            let r = tokio::time::timeout(Duration::from_secs(3600), cl.unary(rq)).await;
            let consumed = std::mem::take(&mut env.lock().unwrap().consumed);
            match r {
                Err(_) => log.ev(json!({"e":"call","i":i,"res":"hang","code":-1,"consumed":consumed,"killed_before":killed,"zero":zero})),
                Ok(Ok(_)) => log.ev(json!({"e":"call","i":i,"res":"ok","code":0,"consumed":consumed,"killed_before":killed,"zero":zero})),
                Ok(Err(s)) => log.ev(json!({"e":"call","i":i,"res":"err","code":s.code() as i32,"msg":str_json(s.message()),"consumed":consumed,"killed_before":killed,"zero":zero})),
            }
            tokio::time::sleep(Duration::from_millis(1)).await;
        }
        let inv = env.lock().unwrap().invocations;
        log.ev(json!({"e":"summary","connector_invocations":inv}));
    });
    tonic::transport::verif_hooks::set_sink(None);
}
