//! Framing lab: drives the real `EncodeBody` (scripted message source) and the real `Streaming`
//! (scripted body) and records every frame / poll result. Used by C01, C03 (body part), C06, C07.
//!
//! Stimulus (JSON):
//!   kind: "rt" (encode, re-cut, decode) | "dec" (decode a given wire) | "enc" (encode only)
//!   role: "server" | "client"          (who encodes; the decoder is the opposite role)
//!   enc: "identity"|"gzip"|"deflate"|"zstd", override: bool (per-response opt-out)
//!   codec: "raw" | "prost", bufsz, yield, limit_enc (-1 = default), limit_dec (-1 = default)
//!   items: [{k:"msg", b:[..]} | {k:"pmsg", a, b:[..], c:[..]} | {k:"pend"} | {k:"err", code, msg:[..]}]
//!   cuts: [sizes..] (cycled), body_pend: [chunk indices before which the body is Pending once]
//!   wire: [..] (kind "dec"), dec_enc: encoding announced to the decoder (kind "dec")
//!   tail: "none" | "trailers_ok" | "trailers_err" | "body_err"; tail_at: chunk index for body_err; body_err_code: its status code (default 14)
//!   extra_polls: n
use crate::codec::{RawCodec, TestMsg};
use crate::shim;
use crate::util::*;
use bytes::Bytes;
use http_body::{Body, Frame};
use rand::{Rng, SeedableRng};
use serde_json::{json, Value};
use std::pin::Pin;
use std::sync::atomic::{AtomicUsize, Ordering};
use std::sync::Arc;
use std::task::{Context, Poll};
use tonic::codec::{CompressionEncoding, EncodeBody, ProstCodec, Streaming, Codec};
use tonic::Status;

pub fn enc_of(s: &str) -> Option<CompressionEncoding> {
    match s { "gzip" => Some(CompressionEncoding::Gzip), "deflate" => Some(CompressionEncoding::Deflate), "zstd" => Some(CompressionEncoding::Zstd), _ => None }
}

// ---------------------------------------------------------------- scripted source
enum Item<T> { Msg(T), Pend, Err(Status) }
struct Source<T> { items: std::collections::VecDeque<Item<T>>, polls_after_end: Arc<AtomicUsize>, ended: bool }
impl<T: Unpin> tokio_stream::Stream for Source<T> {
    type Item = Result<T, Status>;
    fn poll_next(mut self: Pin<&mut Self>, cx: &mut Context<'_>) -> Poll<Option<Self::Item>> {
        // not fused: a source polled again after it has ended is allowed to do anything; this one reports it as an item, so that
        // an encoder which polls past the end shows up on the wire
        if self.ended { let n = self.polls_after_end.fetch_add(1, Ordering::SeqCst);
            return if n == 0 { Poll::Ready(Some(Err(Status::data_loss("message source polled after it had ended")))) } else { Poll::Ready(None) }; }
        match self.items.pop_front() {
            None => { self.ended = true; Poll::Ready(None) }
            Some(Item::Pend) => { cx.waker().wake_by_ref(); Poll::Pending }
            Some(Item::Msg(m)) => Poll::Ready(Some(Ok(m))),
            Some(Item::Err(s)) => Poll::Ready(Some(Err(s))),
        }
    }
    // exact length when the script consists of messages only (as an iterator-backed stream would report)
    fn size_hint(&self) -> (usize, Option<usize>) {
        if !self.ended && self.items.iter().all(|i| matches!(i, Item::Msg(_))) { (self.items.len(), Some(self.items.len())) } else { (0, None) }
    }
}

// ---------------------------------------------------------------- scripted body
pub enum BItem { Data(Vec<u8>), Pend, Err(Status), Trailers(http::HeaderMap) }
pub struct ScriptBody { pub items: std::collections::VecDeque<BItem>, pub polls_after_end: Arc<AtomicUsize>, pub ended: bool,
    /// fused = keeps answering None after its end (for labs whose own driver polls a wrapping body past its end on purpose)
    pub fused: bool }
impl Body for ScriptBody {
    type Data = Bytes;
    type Error = Status;
    fn poll_frame(mut self: Pin<&mut Self>, cx: &mut Context<'_>) -> Poll<Option<Result<Frame<Bytes>, Status>>> {
        // not fused either: a body polled again after it has ended reports that as an error frame (once)
        if self.ended { let n = self.polls_after_end.fetch_add(1, Ordering::SeqCst);
            return if n == 0 && !self.fused { Poll::Ready(Some(Err(Status::data_loss("http body polled after it had ended")))) } else { Poll::Ready(None) }; }
        match self.items.pop_front() {
            None => { self.ended = true; Poll::Ready(None) }
            Some(BItem::Pend) => { cx.waker().wake_by_ref(); Poll::Pending }
            Some(BItem::Data(d)) => Poll::Ready(Some(Ok(Frame::data(Bytes::from(d))))),
            Some(BItem::Err(s)) => Poll::Ready(Some(Err(s))),
            Some(BItem::Trailers(t)) => Poll::Ready(Some(Ok(Frame::trailers(t)))),
        }
    }
}

/// A waker that counts wake-ups: a poll that returns Pending without the waker having been woken during that poll has
/// arranged no wake-up at all (the scripted sources wake immediately when they are the ones that are pending), i.e. the
/// task would never be polled again.
struct CountWake(AtomicUsize);
impl std::task::Wake for CountWake { fn wake(self: Arc<Self>) { self.0.fetch_add(1, Ordering::SeqCst); } fn wake_by_ref(self: &Arc<Self>) { self.0.fetch_add(1, Ordering::SeqCst); } }

/// -1 = not configured; -2, -3, -4 = limits beyond the 32-bit length prefix (2^32, 2^32 + 16, usize::MAX): larger than any message
fn lim(v: &Value) -> Option<usize> { match v.as_i64().unwrap_or(-1) { -2 => Some(1usize << 32), -3 => Some((1usize << 32) + 16), -4 => Some(usize::MAX), n if n < 0 => None, n => Some(n as usize) } }

fn pmsg(v: &Value) -> TestMsg {
    TestMsg { a: v["a"].as_u64().unwrap_or(0) as u32, b: json_bytes(&v["b"]), c: String::from_utf8_lossy(&json_bytes(&v["c"])).into_owned() }
}
fn pmsg_json(m: &TestMsg) -> Value { json!({"a": m.a, "b": bytes_json(&m.b), "c": str_json(&m.c)}) }

fn status_json(s: &Status) -> Value { json!({"code": s.code() as i32, "msg": str_json(s.message())}) }

/// Poll an http body to exhaustion (past is_end_stream) and record each frame.
fn drain_encoder<B: Body<Data = Bytes, Error = Status> + Unpin>(mut body: B, max_polls: usize, ev: &mut Vec<Value>) -> (Vec<u8>, Option<http::HeaderMap>) {
    let cw = Arc::new(CountWake(AtomicUsize::new(0)));
    let waker = std::task::Waker::from(cw.clone());
    let mut cx = Context::from_waker(&waker);
    let mut wire = vec![];
    let mut first_trailers = None;
    let mut nones = 0;
    let mut polls = 0;
    while polls < max_polls && nones < 3 {
        polls += 1;
        let w0 = cw.0.load(Ordering::SeqCst);
        let r = Pin::new(&mut body).poll_frame(&mut cx);
        let eos = body.is_end_stream();
        match r {
            Poll::Pending => ev.push(json!({"e":"enc","r":"pending","eos":eos,"woken": cw.0.load(Ordering::SeqCst) > w0})),
            Poll::Ready(None) => { nones += 1; ev.push(json!({"e":"enc","r":"none","eos":eos})); }
            Poll::Ready(Some(Err(s))) => ev.push(json!({"e":"enc","r":"err","st":status_json(&s),"eos":eos})),
            Poll::Ready(Some(Ok(f))) => {
                if f.is_data() {
                    let d = f.into_data().unwrap();
                    wire.extend_from_slice(&d);
                    ev.push(json!({"e":"enc","r":"data","bytes":bytes_json(&d),"eos":eos}));
                } else {
                    let t = f.into_trailers().unwrap();
                    let statuses: Vec<Value> = t.get_all("grpc-status").iter().map(|v| bytes_json(v.as_bytes())).collect();
                    let msgs: Vec<Value> = t.get_all("grpc-message").iter().map(|v| bytes_json(v.as_bytes())).collect();
                    ev.push(json!({"e":"enc","r":"trailers","status":statuses,"message":msgs,"n":t.len(),"eos":eos}));
                    if first_trailers.is_none() { first_trailers = Some(t); }
                }
            }
        }
    }
    (wire, first_trailers)
}

fn build_source<T>(items: &Value, f: impl Fn(&Value) -> Option<T>) -> (Source<T>, Arc<AtomicUsize>) {
    let mut q = std::collections::VecDeque::new();
    for it in items.as_array().cloned().unwrap_or_default() {
        match it["k"].as_str().unwrap_or("") {
            "pend" => q.push_back(Item::Pend),
            "err" => q.push_back(Item::Err(Status::new(tonic::Code::from_i32(it["code"].as_i64().unwrap_or(2) as i32), String::from_utf8_lossy(&json_bytes(&it["msg"])).into_owned()))),
            _ => if let Some(m) = f(&it) { q.push_back(Item::Msg(m)) },
        }
    }
    let c = Arc::new(AtomicUsize::new(0));
    (Source { items: q, polls_after_end: c.clone(), ended: false }, c)
}

fn encode(stim: &Value, ev: &mut Vec<Value>) -> (Vec<u8>, Option<http::HeaderMap>) {
    let enc = enc_of(stim["enc"].as_str().unwrap_or("identity"));
    let ovr = if stim["override"].as_bool().unwrap_or(false) { tonic::codec::SingleMessageCompressionOverride::Disable } else { tonic::codec::SingleMessageCompressionOverride::Inherit };
    let limit = lim(&stim["limit_enc"]);
    let server = stim["role"].as_str().unwrap_or("server") == "server";
    let n_items = stim["items"].as_array().map(|a| a.len()).unwrap_or(0);
    // the statement does not say in how many DATA chunks the encoder hands out its output: the budget allows one poll per byte
    let n_bytes: usize = stim["items"].as_array().map(|a| a.iter().map(|it| it["b"].as_array().map(|b| b.len()).unwrap_or(0) + 16).sum()).unwrap_or(0);
    let max_polls = n_items * 2 + 12 + n_bytes * 2;
    let ((wire, tr), after) = if stim["codec"].as_str() == Some("prost") {
        let (src, c) = build_source(&stim["items"], |it| Some(pmsg(it)));
        let mut codec = ProstCodec::<TestMsg, TestMsg>::default();
        let e = codec.encoder();
        if server { (drain_encoder(Box::pin(EncodeBody::new_server(e, src, enc, ovr, limit)), max_polls, ev), c) }
        else { (drain_encoder(Box::pin(EncodeBody::new_client(e, src, enc, limit)), max_polls, ev), c) }
    } else {
        let (src, c) = build_source(&stim["items"], |it| Some(if it["k"] == "huge" { vec![250, 18, it["extra"].as_u64().unwrap_or(1) as u8] } else { json_bytes(&it["b"]) }));
        let e = RawCodec::with(stim["bufsz"].as_u64().unwrap_or(8192) as usize, stim["yield"].as_u64().unwrap_or(32768) as usize);
        if server { (drain_encoder(Box::pin(EncodeBody::new_server(e, src, enc, ovr, limit)), max_polls, ev), c) }
        else { (drain_encoder(Box::pin(EncodeBody::new_client(e, src, enc, limit)), max_polls, ev), c) }
    };
    ev.push(json!({"e":"enc_done","src_polls_after_end": after.load(Ordering::SeqCst) as u64}));
    (wire, tr)
}

/// Lenient frame walk for the projection: offsets/flags/lengths plus a zstd attempt for flagged payloads.
/// The spec re-parses the wire itself and cross-checks these offsets, so a wrong walk here is rejected, not trusted.
pub fn frames_hint(wire: &[u8]) -> Value {
    let mut out = vec![];
    let mut p = 0usize;
    while p + 5 <= wire.len() {
        let flag = wire[p];
        let len = u32::from_be_bytes([wire[p + 1], wire[p + 2], wire[p + 3], wire[p + 4]]) as usize;
        if p + 5 + len > wire.len() { break; }
        let payload = &wire[p + 5..p + 5 + len];
        // an empty payload is not a compressed message in any of the three formats
        let z = if flag == 1 && !payload.is_empty() {
            match zstd::bulk::decompress(payload, 64 << 20) { Ok(v) => json!({"ok":true,"v":bytes_json(&v)}), Err(_) => json!({"ok":false,"v":[]}) }
        } else { json!({"ok":false,"v":[]}) };
        out.push(json!({"off": p as u64, "flag": flag, "len": len as u64, "zstd": z}));
        p += 5 + len;
    }
    Value::Array(out)
}

fn decode_generic<T: 'static>(mut s: Streaming<T>, show: impl Fn(&T) -> Value, extra: usize, max_polls: usize, body_after: Arc<AtomicUsize>, ev: &mut Vec<Value>) {
    use tokio_stream::Stream;
    let cw = Arc::new(CountWake(AtomicUsize::new(0)));
    let waker = std::task::Waker::from(cw.clone());
    let mut cx = Context::from_waker(&waker);
    let mut terminal_seen = 0usize;
    let mut polls = 0usize;
    let mut pend_run = 0usize;
    while polls < max_polls {
        polls += 1;
        shim::alloc_window_start();
        let w0 = cw.0.load(Ordering::SeqCst);
        let r = Pin::new(&mut s).poll_next(&mut cx);
        let mx = shim::alloc_window_max();
        match r {
            Poll::Pending => { pend_run += 1; ev.push(json!({"e":"dec","r":"pending","woken": cw.0.load(Ordering::SeqCst) > w0})); if pend_run > 64 { ev.push(json!({"e":"dec","r":"stuck"})); break; } continue; }
            Poll::Ready(Some(Ok(m))) => ev.push(json!({"e":"dec","r":"msg","m":show(&m),"alloc":mx as u64})),
            Poll::Ready(Some(Err(e))) => { terminal_seen += 1; ev.push(json!({"e":"dec","r":"err","st":status_json(&e),"alloc":mx as u64})); }
            Poll::Ready(None) => { terminal_seen += 1; ev.push(json!({"e":"dec","r":"end"})); }
        }
        pend_run = 0;
        if terminal_seen > extra { break; }
    }
    // trailers as seen through the public accessor
    let tr = block_on(async { s.trailers().await });
    let trv = match tr { Ok(Some(m)) => json!({"k":"some","n": m.len() as u64}), Ok(None) => json!({"k":"none"}), Err(e) => json!({"k":"err","st":status_json(&e)}) };
    ev.push(json!({"e":"dec_done","polls":polls as u64,"body_polls_after_end": body_after.load(Ordering::SeqCst) as u64, "trailers": trv}));
}

fn make_body(stim: &Value, wire: &[u8], enc_trailers: Option<http::HeaderMap>, ev: &mut Vec<Value>) -> (ScriptBody, Arc<AtomicUsize>) {
    // cuts: chunk sizes; a 0 is an EMPTY data frame (only where written explicitly: the last entry, which repeats, is never 0)
    let mut cuts: Vec<usize> = stim["cuts"].as_array().map(|a| a.iter().map(|x| x.as_u64().unwrap_or(1) as usize).collect()).unwrap_or_default();
    if cuts.last() == Some(&0) { cuts.push(1); }
    let pend: Vec<usize> = stim["body_pend"].as_array().map(|a| a.iter().map(|x| x.as_u64().unwrap_or(0) as usize).collect()).unwrap_or_default();
    let tail = stim["tail"].as_str().unwrap_or("none");
    let tail_at = stim["tail_at"].as_u64().unwrap_or(u64::MAX) as usize;
    let mut q = std::collections::VecDeque::new();
    let mut sizes = vec![];
    let mut p = 0usize; let mut k = 0usize;
    let mut script = vec![];
    while p < wire.len() {
        if tail == "body_err" && k == tail_at { break; }
        let want = if cuts.is_empty() { wire.len() } else { cuts[k.min(cuts.len() - 1)] };
        if want == 0 { q.push_back(BItem::Data(vec![])); script.push(json!({"k":"d","n":0,"at":p as u64})); sizes.push(0); k += 1; continue; }
        let n = want.min(wire.len() - p);
        if pend.contains(&k) { q.push_back(BItem::Pend); script.push(json!({"k":"p","n":0,"at":p as u64})); }
        q.push_back(BItem::Data(wire[p..p + n].to_vec()));
        script.push(json!({"k":"d","n":n as u64,"at":p as u64}));
        sizes.push(n);
        p += n; k += 1;
    }
    if pend.contains(&k) { q.push_back(BItem::Pend); script.push(json!({"k":"p","n":0,"at":p as u64})); }
    match tail {
        "trailers_ok" => { let mut h = http::HeaderMap::new(); h.insert("grpc-status", "0".parse().unwrap()); q.push_back(BItem::Trailers(h)); script.push(json!({"k":"t","n":0,"at":p as u64})); }
        "trailers_err" => { let mut h = http::HeaderMap::new(); h.insert("grpc-status", "9".parse().unwrap()); h.insert("grpc-message", "tail".parse().unwrap()); q.push_back(BItem::Trailers(h)); script.push(json!({"k":"t","n":0,"at":p as u64})); }
        "enc" => { if let Some(t) = enc_trailers { q.push_back(BItem::Trailers(t)); script.push(json!({"k":"t","n":0,"at":p as u64})); } }
        // trailers whose grpc-status is whatever bytes the peer chose (stim.tail_status): any trailers are trailers the stream must survive
        "trailers_raw" => { let mut h = http::HeaderMap::new();
            if let Ok(v) = http::HeaderValue::from_bytes(&json_bytes(&stim["tail_status"])) { h.insert("grpc-status", v); }
            q.push_back(BItem::Trailers(h)); script.push(json!({"k":"t","n":0,"at":p as u64})); }
        "trailers_only_msg" => { let mut h = http::HeaderMap::new(); h.insert("grpc-message", "no status".parse().unwrap()); q.push_back(BItem::Trailers(h)); script.push(json!({"k":"t","n":0,"at":p as u64})); }
        "body_err" => { q.push_back(BItem::Err(Status::new(tonic::Code::from_i32(stim["body_err_code"].as_i64().unwrap_or(14) as i32), "body broke"))); script.push(json!({"k":"e","n":0,"at":p as u64})); }
        _ => {}
    }
    // projection of the tail: what the body ends with, and the status code it carries (if any)
    let (tail_kind, tail_code) = match q.back() {
        // (a status value that is not the canonical decimal form of 0..16 is a malformed code: UNKNOWN)
        Some(BItem::Trailers(t)) if tail == "trailers_raw" => match t.get("grpc-status").map(|v| v.as_bytes().to_vec()) {
            None => ("none", -1),
            Some(v) => match (0..=16i64).find(|c| c.to_string().as_bytes() == &v[..]) { Some(0) => ("trailers_ok", 0), Some(c) => ("trailers_err", c), None => ("trailers_err", 2) } },
        Some(BItem::Trailers(t)) => match t.get("grpc-status").and_then(|v| v.to_str().ok()).and_then(|v| v.parse::<i64>().ok()) {
            Some(0) => ("trailers_ok", 0), Some(c) => ("trailers_err", c), None => ("none", -1) },
        Some(BItem::Err(s)) => ("body_err", s.code() as i64),
        _ => ("none", -1),
    };
    ev.push(json!({"e":"body","delivered": bytes_json(&wire[..p]), "script": script, "tail": tail_kind, "tail_code": tail_code}));
    let c = Arc::new(AtomicUsize::new(0));
    (ScriptBody { items: q, polls_after_end: c.clone(), ended: false, fused: false }, c)
}

/// A data frame made of several non-contiguous segments (the client layer is generic over the transport's `Buf`: chained or
/// ring buffers are legal): `chunk()` is only the first segment.
pub struct SegBuf(std::collections::VecDeque<Bytes>);
impl SegBuf {
    pub fn split(mut b: Bytes, seg: usize) -> SegBuf {
        let mut q = std::collections::VecDeque::new();
        if seg == 0 { q.push_back(b); return SegBuf(q); }
        while b.len() > seg { q.push_back(b.split_to(seg)); }
        q.push_back(b);
        SegBuf(q)
    }
}
impl bytes::Buf for SegBuf {
    fn remaining(&self) -> usize { self.0.iter().map(|b| b.len()).sum() }
    fn chunk(&self) -> &[u8] { self.0.front().map(|b| &b[..]).unwrap_or(&[]) }
    fn advance(&mut self, mut cnt: usize) {
        while cnt > 0 {
            let n = self.0.front().map(|b| b.len()).expect("advance past the end");
            if cnt >= n { self.0.pop_front(); cnt -= n; } else { bytes::Buf::advance(self.0.front_mut().unwrap(), cnt); cnt = 0; }
        }
        while self.0.front().map(|b| b.is_empty()).unwrap_or(false) && self.0.len() > 1 { self.0.pop_front(); }
    }
}
/// Hands every DATA frame of the inner body on as a segmented buffer (stim.seg bytes per segment, 0 = contiguous).
pub struct SegBody<B> { pub inner: B, pub seg: usize,
    /// Some(n): the body announces its exact remaining size (what a peer's content-length becomes), n bytes of DATA still to come
    pub exact_left: Option<u64> }
impl<B: Body<Data = Bytes, Error = Status> + Unpin> Body for SegBody<B> {
    type Data = SegBuf; type Error = Status;
    fn poll_frame(mut self: Pin<&mut Self>, cx: &mut Context<'_>) -> Poll<Option<Result<http_body::Frame<SegBuf>, Status>>> {
        let seg = self.seg;
        let r = Pin::new(&mut self.inner).poll_frame(cx);
        if let (Poll::Ready(Some(Ok(f))), Some(left)) = (&r, self.exact_left) { if let Some(d) = f.data_ref() { self.exact_left = Some(left.saturating_sub(d.len() as u64)); } }
        r.map(|o| o.map(|r| r.map(|f| f.map_data(|d| SegBuf::split(d, seg)))))
    }
    fn is_end_stream(&self) -> bool { self.inner.is_end_stream() }
    fn size_hint(&self) -> http_body::SizeHint { match self.exact_left { Some(n) => http_body::SizeHint::with_exact(n), None => self.inner.size_hint() } }
}

fn decode(stim: &Value, wire: &[u8], dec_enc: Option<CompressionEncoding>, enc_trailers: Option<http::HeaderMap>, ev: &mut Vec<Value>) {
    let limit = lim(&stim["limit_dec"]);
    let (body, after) = make_body(stim, wire, enc_trailers, ev);
    // the decoder is generic over the transport's Buf: DATA frames arrive contiguous or cut into segments of 1..4 bytes
    // and a third of the bodies announce their exact size up front, as a peer that sends content-length would
    let total: u64 = body.items.iter().map(|it| if let BItem::Data(d) = it { d.len() as u64 } else { 0 }).sum();
    let announce = stim["announce_size"].as_bool().unwrap_or(wire.len() % 3 == 1);
    let body = SegBody { inner: body, seg: stim["seg"].as_u64().map(|x| x as usize).unwrap_or(wire.len() % 5), exact_left: if announce { Some(total) } else { None } };
    let extra = stim["extra_polls"].as_u64().unwrap_or(3) as usize;
    let max_polls = wire.len() * 2 + 200;
    // the decoder plays the opposite role of the encoder
    let enc_server = stim["role"].as_str().unwrap_or("server") == "server";
    if stim["codec"].as_str() == Some("prost") {
        let mut codec = ProstCodec::<TestMsg, TestMsg>::default();
        let d = codec.decoder();
        let s = if enc_server { Streaming::new_response(d, body, http::StatusCode::OK, dec_enc, limit) } else { Streaming::new_request(d, body, dec_enc, limit) };
        decode_generic(s, |m: &TestMsg| pmsg_json(m), extra, max_polls, after, ev);
    } else {
        let d = RawCodec::with(stim["bufsz"].as_u64().unwrap_or(8192) as usize, stim["yield"].as_u64().unwrap_or(32768) as usize);
        let s = if enc_server { Streaming::new_response(d, body, http::StatusCode::OK, dec_enc, limit) } else { Streaming::new_request(d, body, dec_enc, limit) };
        decode_generic(s, |m: &Vec<u8>| bytes_json(m), extra, max_polls, after, ev);
    }
}

pub fn run(stim: &Value, rec: &crate::labs::Rec) {
    let mut ev = vec![];
    let kind = stim["kind"].as_str().unwrap_or("rt");
    match kind {
        "dec" => {
            let wire = json_bytes(&stim["wire"]);
            ev.push(json!({"e":"wire","bytes":bytes_json(&wire),"frames":frames_hint(&wire)}));
            rec.extend(std::mem::take(&mut ev));
            decode(stim, &wire, enc_of(stim["dec_enc"].as_str().unwrap_or("identity")), None, &mut ev);
        }
        _ => {
            let (wire, tr) = encode(stim, &mut ev);
            ev.push(json!({"e":"wire","bytes":bytes_json(&wire),"frames":frames_hint(&wire)}));
            rec.extend(std::mem::take(&mut ev));
            if kind == "rt" {
                let enc = enc_of(stim["enc"].as_str().unwrap_or("identity"));
                decode(stim, &wire, enc, tr, &mut ev);
            }
        }
    }
    rec.extend(ev);
}

// ---------------------------------------------------------------- seeded stimulus generation
/// (never starting with 250, the lab codec's marker for scripted refusals and >4 GiB messages)
fn rand_bytes(rng: &mut impl Rng, n: usize, compressible: bool) -> Vec<u8> {
    let mut v: Vec<u8> = if compressible { let b: u8 = rng.gen(); (0..n).map(|i| if i % 7 == 0 { b.wrapping_add((i / 7) as u8) } else { b }).collect() }
    else { (0..n).map(|_| rng.gen()).collect() };
    if v.first() == Some(&250) { v[0] = 251; }
    v
}

pub fn gen(seed: u64, tier: &str) -> Vec<Value> {
    let mut rng = rand::rngs::StdRng::seed_from_u64(seed ^ 0xF4A3);
    let n = if tier == "thorough" { 1500 } else { 260 };
    let mut out = vec![];
    for i in 0..n {
        let encs = ["identity", "gzip", "deflate", "zstd"];
        let enc = encs[rng.gen_range(0..4)];
        let small = rng.gen_bool(0.7);
        let (bufsz, yld) = if small { (rng.gen_range(8..128usize), [1usize, 9, 30, 64, 100000][rng.gen_range(0..5)]) } else { (8192, 32768) };
        let prost = rng.gen_bool(0.25);
        let nmsg = rng.gen_range(0..6);
        let sizes: Vec<usize> = (0..nmsg).map(|_| {
            let base = [0usize, 1, 2, 3, 5, 17, 40, 300, 5000][rng.gen_range(0..9)];
            match rng.gen_range(0..12) { 0 => yld.saturating_sub(6).min(70000), 1 => yld.saturating_sub(5).min(70000), 2 => (yld + 1).min(70001), 3 if !small && i % 20 == 0 => 70000, _ => base }
        }).collect();
        let mut items = vec![];
        for &sz in &sizes {
            while rng.gen_bool(0.3) { items.push(json!({"k":"pend"})); }
            if prost {
                items.push(json!({"k":"pmsg","a": rng.gen_range(0..3u32) * rng.gen_range(0..1000000u32), "b": bytes_json(&rand_bytes(&mut rng, sz.min(400), false)), "c": str_json(["", "x", "héllo %", "日本"][rng.gen_range(0..4)])}));
            } else {
                let comp = rng.gen_bool(0.5);
                items.push(json!({"k":"msg","b": bytes_json(&rand_bytes(&mut rng, sz, comp))}));
            }
        }
        while rng.gen_bool(0.3) { items.push(json!({"k":"pend"})); }
        // source error in ~15% of server runs
        let role = if rng.gen_bool(0.6) { "server" } else { "client" };
        if rng.gen_bool(0.15) { items.push(json!({"k":"err","code": rng.gen_range(1..17), "msg": str_json("src failed")})); }
        else if !prost && rng.gen_bool(0.12) {
            // the codec refuses one message (after writing k bytes of it); messages may follow
            let k = rng.gen_range(0..4u8);
            let at = rng.gen_range(0..=items.len());
            items.insert(at, json!({"k":"encfail","b":[250, 17, k, 1, 2, 3]}));
        }
        let ncuts = rng.gen_range(0..6);
        let mut cuts: Vec<usize> = (0..ncuts).map(|_| [1usize, 2, 3, 4, 5, 6, 7, 9, 64, 1000][rng.gen_range(0..10)]).collect();
        if sizes.iter().any(|&s| s >= 1000) { cuts.push(4096); }
        // dribble: the whole body in 1..3-byte chunks (hundreds of ready frames inside one message)
        if i % 9 == 4 { cuts = vec![[1usize, 1, 2, 3][rng.gen_range(0..4)]]; }
        // empty DATA frames at random positions (two cut points coincide)
        if i % 4 == 1 { for _ in 0..rng.gen_range(1..4) { let at = rng.gen_range(0..=cuts.len()); cuts.insert(at, 0); } }
        let body_pend: Vec<usize> = (0..rng.gen_range(0..4)).map(|_| rng.gen_range(0..8)).collect();
        out.push(json!({"kind":"rt","role":role,"enc":enc,"override": role == "server" && rng.gen_bool(0.2),
            "codec": if prost {"prost"} else {"raw"}, "bufsz":bufsz,"yield":yld,"limit_enc":-1,"limit_dec":-1,
            "items":items,"cuts":cuts,"body_pend":body_pend,"tail": if role=="server" {"enc"} else {"none"},"extra_polls":3}));
    }
    // scale: long streams (150 small messages, every 37th preceded by a Pending), so that whatever is counted, grown or reused per
    // message is exercised far beyond the five messages of the streams above
    for (j, enc) in ["identity", "gzip", "identity", "zstd", "deflate", "identity"].iter().enumerate() {
        let mut items = vec![];
        for m in 0..150usize {
            if m % 37 == 36 { items.push(json!({"k":"pend"})); }
            let sz = [0usize, 1, 7, 20, 3, 64][(m + j) % 6];
            items.push(json!({"k":"msg","b": bytes_json(&rand_bytes(&mut rng, sz, m % 2 == 0))}));
        }
        let role = if j % 2 == 0 { "server" } else { "client" };
        let (bufsz, yld) = if j % 2 == 0 { (64usize, 30usize) } else { (8192, 32768) };
        let cuts: Vec<usize> = match j % 3 { 0 => vec![7, 1000], 1 => vec![64, 3, 500], _ => vec![4096, 4096] };
        out.push(json!({"kind":"rt","class":"long_stream","role":role,"enc":enc,"override":false,"codec":"raw","bufsz":bufsz,"yield":yld,
            "limit_enc":-1,"limit_dec":-1,"items":items,"cuts":cuts,"body_pend":[3, 40],"tail": if role=="server" {"enc"} else {"none"},"extra_polls":3}));
    }
    out
}

// ---------------------------------------------------------------- hostile inputs (C07)
pub fn frame(flag: u8, payload: &[u8]) -> Vec<u8> {
    let mut v = vec![flag]; v.extend_from_slice(&(payload.len() as u32).to_be_bytes()); v.extend_from_slice(payload); v
}
pub fn compress_with(enc: &str, data: &[u8]) -> Vec<u8> {
    use std::io::Write;
    match enc {
        "gzip" => { let mut e = flate2::write::GzEncoder::new(vec![], flate2::Compression::new(6)); e.write_all(data).unwrap(); e.finish().unwrap() }
        "deflate" => { let mut e = flate2::write::ZlibEncoder::new(vec![], flate2::Compression::new(6)); e.write_all(data).unwrap(); e.finish().unwrap() }
        "zstd" => zstd::bulk::compress(data, 3).unwrap(),
        _ => data.to_vec(),
    }
}
fn rand_cuts(rng: &mut impl Rng) -> Vec<usize> { (0..rng.gen_range(0..6)).map(|_| [1usize, 1, 2, 3, 4, 5, 6, 7, 9, 64, 0, 0][rng.gen_range(0..12)]).collect() }

pub fn gen_hostile(seed: u64, tier: &str) -> Vec<Value> {
    let mut rng = rand::rngs::StdRng::seed_from_u64(seed ^ 0xC07);
    let n = if tier == "thorough" { 4000 } else { 600 };
    let mut out = vec![];
    for _ in 0..n {
        let dec_enc = ["identity", "identity", "gzip", "deflate", "zstd"][rng.gen_range(0..5)];
        // pick the mutation class first: for classes that touch payload bytes the prost decodability of the
        // result is not something the specification can decide, so those use the raw codec only
        let class_id = rng.gen_range(0..12);
        let prost = rng.gen_bool(0.25) && matches!(class_id, 0 | 2 | 3 | 4 | 7 | 9 | 10);
        // a valid stream to start from
        let nmsg = rng.gen_range(0..4);
        let mut wire = vec![];
        for _ in 0..nmsg {
            let sz = [0usize, 1, 2, 5, 17, 40][rng.gen_range(0..6)];
            let payload = if prost { use prost::Message; TestMsg { a: rng.gen_range(0..5000), b: rand_bytes(&mut rng, sz, false), c: "x".repeat(sz % 4) }.encode_to_vec() } else { let c = rng.gen_bool(0.5); rand_bytes(&mut rng, sz, c) };
            if dec_enc != "identity" && rng.gen_bool(0.7) { wire.extend(frame(1, &compress_with(dec_enc, &payload))); } else { wire.extend(frame(0, &payload)); }
        }
        let class;
        match class_id {
            11 => { class = "short_compressed_frame"; let k = rng.gen_range(0..6); wire.extend(frame(1, &rand_bytes(&mut rng, k, false))); wire.extend(frame(0, &[5])); }
            0 => { class = "valid"; }
            1 => { class = "bitflip"; if !wire.is_empty() { let i = rng.gen_range(0..wire.len()); wire[i] ^= 1 << rng.gen_range(0..8); } }
            2 => { class = "truncate"; if !wire.is_empty() { let i = rng.gen_range(0..wire.len()); wire.truncate(i); } }
            3 => { class = "bad_flag"; wire.extend(frame(rng.gen_range(2..=255), &rand_bytes(&mut rng, 3, false))); wire.extend(frame(0, &[1, 2])); }
            4 => { class = "huge_len"; wire.push(0); wire.extend_from_slice(&[[0xff, 0xff, 0xff, 0xff], [0x7f, 0xff, 0xff, 0xff], [0x01, 0, 0, 0], [0, 0x40, 0, 1]][rng.gen_range(0..4)]); if rng.gen_bool(0.5) { wire.extend(rand_bytes(&mut rng, 9, false)); } }
            5 => { class = "garbage_tail"; let k = rng.gen_range(1..12); wire.extend(rand_bytes(&mut rng, k, false)); }
            6 => { class = "compressed_garbage"; wire.extend(frame(1, &rand_bytes(&mut rng, 12, false))); wire.extend(frame(0, &[9])); }
            7 => { class = "flag_without_encoding"; wire.extend(frame(1, &compress_with("gzip", &[1, 2, 3]))); }
            8 => { class = "random"; let k = rng.gen_range(0..40); wire = (0..k).map(|_| if rng.gen_bool(0.5) { rng.gen_range(0..3) } else { rng.gen() }).collect(); }
            9 => { class = "undecodable_payload"; wire.extend(frame(0, &[0x0a, 0xff, 0xff, 0xff, 0xff, 0x0f, 1])); wire.extend(frame(0, &[8, 1])); }
            _ => { class = "valid_then_short_header"; let k = rng.gen_range(1..5); wire.extend(vec![0u8; k]); }
        }
        let role = if rng.gen_bool(0.5) { "server" } else { "client" };   // encoder role; decoder is the opposite
        let tail = if role == "server" { ["none", "trailers_ok", "trailers_err", "body_err", "trailers_only_msg", "trailers_raw"][rng.gen_range(0..6)] } else { ["none", "none", "body_err"][rng.gen_range(0..3)] };
        // hostile status values: every shape of one and two bytes around the digits, signs, blanks, long and empty values
        let raw_status: Vec<u8> = { let pool: [&[u8]; 16] = [b"1/", b"1.", b"1 ", b"1\t", b"1-", b"17", b"1:", b"/1", b"-1", b"", b"00", b"016", b"99999999999999999999", b"0x1", b"\xff\xfe", b"1e1"];
            if rng.gen_bool(0.7) { pool[rng.gen_range(0..pool.len())].to_vec() } else { vec![rng.gen_range(0x20..0x7f), rng.gen_range(0x20..0x7f)] } };
        out.push(json!({"kind":"dec","class":class,"role":role,"dec_enc":dec_enc,"enc":"identity","override":false,
            "codec": if prost {"prost"} else {"raw"}, "bufsz": (*[8usize, 64, 8192].get(rng.gen_range(0..3)).unwrap()), "yield": 32768,
            "limit_enc": -1, "limit_dec": (*[-1i64, -1, 7, 64].get(rng.gen_range(0..4)).unwrap()), "items": [], "wire": bytes_json(&wire),
            "cuts": rand_cuts(&mut rng), "body_pend": (0..rng.gen_range(0..3)).map(|_| rng.gen_range(0..6)).collect::<Vec<usize>>(),
            "tail": tail, "tail_status": bytes_json(&raw_status), "tail_at": rng.gen_range(0..5), "extra_polls": 4,
            // the status code the transport error maps to (CANCELLED is special-cased by the decoder on request streams)
            "body_err_code": if rng.gen_bool(0.4) { 1 } else { rng.gen_range(1..17) }}));
    }
    // a compressed message whose wire form is within the limit but which inflates far past it: it is accepted (the limit is
    // about the wire) and must be delivered whole, not cut to the limit
    // a flagged frame whose payload is a complete compressed stream followed by more bytes - 40 kB of them, shaped like small
    // frames and reaching past the decompressor's 32 KiB read-ahead: whatever is made of the payload, its bytes belong to that one
    // frame and the next message is the one behind it
    for (j, enc) in ["gzip", "deflate"].iter().enumerate() {
        let mut payload = compress_with(enc, b"the real message");
        payload.resize(64, 0);
        for i in 0..5000u32 { payload.extend(frame(0, &[(i % 250) as u8, 1, 2])); }
        let mut wire = frame(1, &payload);
        wire.extend(frame(0, &[9, 9]));
        let role = if j % 2 == 0 { "server" } else { "client" };
        out.push(json!({"kind":"dec","class":"compressed_stream_with_tail","role":role,"dec_enc":enc,"enc":"identity","override":false,"codec":"raw","bufsz":8192,"yield":32768,
            "limit_enc": -1, "limit_dec": -1, "items": [], "wire": bytes_json(&wire), "cuts": if j == 0 { vec![] } else { vec![16384usize, 32768, 40000] }, "body_pend": Vec::<usize>::new(),
            "tail": if role == "server" { "trailers_ok" } else { "none" }, "tail_at": 0, "extra_polls": 4}));
    }
    for (j, enc) in ["gzip", "deflate", "zstd", "gzip"].iter().enumerate() {
        for lim in [64i64, 100] {
            let plain: Vec<u8> = (0..(200 + 50 * j)).map(|x| [b'q', b'r'][(x / 40) % 2]).collect();
            let mut wire = frame(0, &[1]);
            wire.extend(frame(1, &compress_with(enc, &plain)));
            wire.extend(frame(0, &[2, 2]));
            let role = if j % 2 == 0 { "server" } else { "client" };
            out.push(json!({"kind":"dec","class":"inflates_past_limit","role":role,"dec_enc":enc,"enc":"identity","override":false,"codec":"raw","bufsz":64,"yield":32768,
                "limit_enc": -1, "limit_dec": lim, "items": [], "wire": bytes_json(&wire), "cuts": rand_cuts(&mut rng), "body_pend": Vec::<usize>::new(),
                "tail": if role == "server" { "trailers_ok" } else { "none" }, "tail_at": 0, "extra_polls": 4}));
        }
    }
    // dribble: long messages (valid, truncated, followed by an illegal flag) delivered in 1..3-byte frames that are all ready
    // at once - several hundred frames inside one message
    for j in 0..(if tier == "thorough" { 60 } else { 12 }) {
        let sz = [300usize, 600, 1500][j % 3];
        let mut wire = frame(0, &[1, 2, 3]);
        wire.extend(frame(0, &rand_bytes(&mut rng, sz, false)));
        let class = match j % 4 { 0 | 1 => "dribble_valid", 2 => { let cut = rng.gen_range(20..wire.len()); wire.truncate(cut); "dribble_truncated" } _ => { wire.extend(frame(7, &[1])); "dribble_bad_flag" } };
        let role = if j % 2 == 0 { "server" } else { "client" };
        let cut = [1usize, 1, 2, 3][j % 4];
        let bp: Vec<usize> = if j % 5 == 0 { vec![100] } else { vec![] };
        out.push(json!({"kind":"dec","class":class,"role":role,"dec_enc":"identity","enc":"identity","override":false,"codec":"raw","bufsz":64,"yield":32768,
            "limit_enc": -1, "limit_dec": -1, "items": [], "wire": bytes_json(&wire), "cuts": [cut], "body_pend": bp,
            "tail": if role == "server" { "trailers_ok" } else { "none" }, "tail_at": 0, "extra_polls": 4}));
    }
    out
}

// ---------------------------------------------------------------- limits (C06)
pub fn gen_limits(seed: u64, tier: &str) -> Vec<Value> {
    let mut rng = rand::rngs::StdRng::seed_from_u64(seed ^ 0xC06);
    let mut out = vec![];
    let reps = if tier == "thorough" { 6 } else { 1 };
    for _ in 0..reps {
        // decode side: L x n around L, at positions 1..3, both decoder roles
        for &l in &[0i64, 1, 7, 100, 70000] {
            for dn in [-1i64, 0, 1] {
                let n = l + dn; if n < 0 { continue; }
                for pos in 0..3usize {
                    for role in ["server", "client"] {
                        if l == 70000 && (pos != 1 || role == "client") { continue; }
                        let mut wire = vec![];
                        for _ in 0..pos { wire.extend(frame(0, &rand_bytes(&mut rng, (l.min(5)) as usize, false))); }
                        wire.extend(frame(0, &rand_bytes(&mut rng, n as usize, false)));
                        wire.extend(frame(0, &[]));
                        let mut cuts = rand_cuts(&mut rng); if l > 1000 { cuts.push(4096); }
                        out.push(json!({"kind":"dec","class":"dec_limit","role":role,"dec_enc":"identity","enc":"identity","override":false,"codec":"raw",
                            "bufsz":64,"yield":32768,"limit_enc":-1,"limit_dec":l,"items":[],"wire":bytes_json(&wire),"cuts":cuts,
                            "body_pend":[],"tail": if role=="server" {"trailers_ok"} else {"none"},"tail_at":0,"extra_polls":3}));
                    }
                }
            }
        }
        // limits x compression: the limit is about the on-the-wire (compressed) payload length; wire lengths n-1, n, n+1
        // around each limit, and highly compressible messages whose decompressed size is far above a limit their wire form meets
        for enc in ["gzip", "deflate", "zstd"] {
            for (pi, plain) in [vec![], rand_bytes(&mut rng, 10, false), vec![b'a'; 300], rand_bytes(&mut rng, 300, false), vec![b'z'; 5000]].iter().enumerate() {
                let comp = compress_with(enc, plain);
                let n = comp.len() as i64;
                let lims: Vec<i64> = if pi == 4 { vec![100, n, n - 1] } else { vec![n - 1, n, n + 1] };
                for l in lims { if l < 0 { continue; }
                    for role in ["server", "client"] {
                        let mut wire = frame(0, &[7, 7]);
                        wire.extend(frame(1, &comp));
                        wire.extend(frame(0, &[]));
                        out.push(json!({"kind":"dec","class":"dec_limit_compressed","role":role,"dec_enc":enc,"enc":"identity","override":false,"codec":"raw",
                            "bufsz":64,"yield":32768,"limit_enc":-1,"limit_dec":l,"items":[],"wire":bytes_json(&wire),"cuts":rand_cuts(&mut rng),
                            "body_pend":[],"tail": if role=="server" {"trailers_ok"} else {"none"},"tail_at":0,"extra_polls":3}));
                    }
                }
            }
        }
        // declared length only (5 bytes on the wire, nothing follows), default and explicit limits
        for decl in [[0u8, 0x40, 0, 1], [0x01, 0, 0, 0], [0x7f, 0xff, 0xff, 0xff], [0x80, 0, 0, 0], [0xff, 0xff, 0xff, 0xff]] {
            for &l in &[-1i64, 7, 4194304] {
                for lead in 0..2usize {
                    let mut wire = vec![];
                    for _ in 0..lead { wire.extend(frame(0, &[1, 2, 3])); }
                    wire.push(0); wire.extend_from_slice(&decl);
                    out.push(json!({"kind":"dec","class":"declared_only","role":"server","dec_enc":"identity","enc":"identity","override":false,"codec":"raw",
                        "bufsz":8192,"yield":32768,"limit_enc":-1,"limit_dec":l,"items":[],"wire":bytes_json(&wire),"cuts":[(*[1usize,5,64].get(rng.gen_range(0..3)).unwrap())],
                        "body_pend":[],"tail":"none","tail_at":0,"extra_polls":3}));
                }
            }
        }
        // encode side: Lenc x sizes around, offending message at position 1..3, batched (no Pending) or not, both roles
        for &l in &[0i64, 1, 7, 100] {
            for dn in [-1i64, 0, 1, 5] {
                let n = l + dn; if n < 0 { continue; }
                for pos in 0..3usize {
                    for pend in [false, true] {
                        for role in ["server", "client"] {
                            let mut items = vec![];
                            for _ in 0..pos { items.push(json!({"k":"msg","b":bytes_json(&rand_bytes(&mut rng, (l.min(3)) as usize, false))})); if pend { items.push(json!({"k":"pend"})); } }
                            items.push(json!({"k":"msg","b":bytes_json(&rand_bytes(&mut rng, n as usize, false))}));
                            for _ in 0..rng.gen_range(0..3) { if pend && rng.gen_bool(0.5) { items.push(json!({"k":"pend"})); } items.push(json!({"k":"msg","b":bytes_json(&rand_bytes(&mut rng, (l.min(2)) as usize, false))})); }
                            if rng.gen_bool(0.2) { items.push(json!({"k":"msg","b":bytes_json(&rand_bytes(&mut rng, (l + 3) as usize, false))})); }
                            if rng.gen_bool(0.15) { let at = rng.gen_range(0..=items.len()); items.insert(at, json!({"k":"encfail","b":[250, 17, rng.gen_range(0..4u8), 1, 2, 3]})); }
                            out.push(json!({"kind":"rt","class":"enc_limit","role":role,"enc":"identity","override":false,"codec":"raw",
                                "bufsz":64,"yield":(*[1usize,30,32768].get(rng.gen_range(0..3)).unwrap()),"limit_enc":l,"limit_dec":-1,"items":items,"cuts":rand_cuts(&mut rng),
                                "body_pend":[],"tail": if role=="server" {"enc"} else {"none"},"tail_at":0,"extra_polls":3}));
                        }
                    }
                }
            }
        }
        // limits beyond what the 4-byte length prefix can express: nothing is ever over them
        for &l in &[-2i64, -3, -4] {
            for role in ["server", "client"] {
                for enc in ["identity", "gzip"] {
                    let items: Vec<Value> = (0..3).map(|_| { let n = [0usize, 5, 17, 40][rng.gen_range(0..4)]; json!({"k":"msg","b":bytes_json(&rand_bytes(&mut rng, n, false))}) }).collect();
                    // a message of more than 4 GiB after a small one, under every kind of limit (identity only: nothing is compressed)
                    if enc == "identity" && l == -2 { for (lim_enc, extra) in [(-1i64, 1u64), (-4, 1), (-3, 5), (-3, 200), (-2, 1), (100, 1), (4194304, 7)] {
                        let items = vec![json!({"k":"msg","b":[1, 2, 3]}), json!({"k":"huge","extra":extra}), json!({"k":"msg","b":[4]})];
                        out.push(json!({"kind":"enc","class":"huge_message","role":role,"enc":"identity","override":false,"codec":"raw","bufsz":8192,"yield":32768,
                            "limit_enc":lim_enc,"limit_dec":-1,"items":items,"cuts":[],"body_pend":[],"tail":"none","tail_at":0,"extra_polls":1}));
                    } }
                    out.push(json!({"kind":"rt","class":"huge_limits","role":role,"enc":enc,"override":false,"codec":"raw",
                        "bufsz":64,"yield":32768,"limit_enc":l,"limit_dec":l,"items":items,"cuts":rand_cuts(&mut rng),
                        "body_pend":[],"tail": if role=="server" {"enc"} else {"none"},"tail_at":0,"extra_polls":3}));
                }
            }
        }
        // compression x encoding limit: the limit is compared with the on-the-wire (compressed) payload.  `wl` states that length
        // as a bound that decides the comparison: L random bytes cannot shrink (wire > L), 4L zeros shrink far below L.
        for enc in ["gzip", "deflate", "zstd"] {
            for &l in &[64i64, 1024] {
                for case in ["incompressible_at_limit", "compressible_over_limit", "small"] {
                    for pos in 0..2usize {
                        for role in ["server", "client"] {
                            let mut items = vec![];
                            for _ in 0..pos { items.push(json!({"k":"msg","b":bytes_json(&rand_bytes(&mut rng, 3, false)),"wl":l/2})); }
                            match case {
                                "incompressible_at_limit" => items.push(json!({"k":"msg","b":bytes_json(&rand_bytes(&mut rng, l as usize, false)),"wl":l+1})),
                                "compressible_over_limit" => items.push(json!({"k":"msg","b":bytes_json(&vec![0u8; (4*l) as usize]),"wl":l/2})),
                                _ => items.push(json!({"k":"msg","b":bytes_json(&rand_bytes(&mut rng, (l/4) as usize, false)),"wl":l/2})),
                            }
                            items.push(json!({"k":"msg","b":bytes_json(&rand_bytes(&mut rng, 2, false)),"wl":l/2}));
                            out.push(json!({"kind":"rt","class":"enc_limit_compressed","role":role,"enc":enc,"override":false,"codec":"raw",
                                "bufsz":64,"yield":32768,"limit_enc":l,"limit_dec":-1,"items":items,"cuts":rand_cuts(&mut rng),
                                "body_pend":[],"tail": if role=="server" {"enc"} else {"none"},"tail_at":0,"extra_polls":3}));
                        }
                    }
                }
            }
        }
    }
    out
}
