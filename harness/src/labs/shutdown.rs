//! Shutdown lab (C13): Server::serve_with_incoming_shutdown under a scripted environment, in virtual time.
//! Stimulus: {calls:[{k, c, items}], steps:[{op:"offer",c}|{op:"send",k}|{op:"fire"}|{op:"release",k}|{op:"drop",c}|{op:"end_incoming"}|{op:"age"}], shim:{rq,wq,pend}}
//!   age = let max_connection_age (AGE_MS of virtual time, configured on every server of this lab) elapse for every
//!   connection accepted so far.  The hook events of tonic's feature verif-hooks (accept loop, connection tasks) are
//!   recorded in line as {"e":"hook","ev":..,"n":..}.
//!   items = number of stream items the handler yields before completing (0 = unary call); every handler step
//!   (each item, and completion) waits for one `release` of its call.
use crate::labs::call::gen::svc::{svc_client::SvcClient, svc_server::{Svc, SvcServer}};
use crate::labs::Rec;
use crate::shim::Shim;
use crate::util::*;
use serde_json::{json, Value};
use std::collections::HashMap;
use std::pin::Pin;
use std::sync::{Arc, Mutex};
use std::time::Duration;
use tokio::sync::Semaphore;
use tonic::{Request, Response, Status, Streaming};

type BoxStream = Pin<Box<dyn tokio_stream::Stream<Item = Result<Vec<u8>, Status>> + Send>>;
#[derive(Clone)]
struct Gated { gates: Arc<Mutex<HashMap<u8, Arc<Semaphore>>>>, items: Arc<HashMap<u8, u64>>, log: Rec }
impl Gated {
    fn gate(&self, k: u8) -> Arc<Semaphore> { self.gates.lock().unwrap().entry(k).or_insert_with(|| Arc::new(Semaphore::new(0))).clone() }
}
#[tonic::async_trait]
impl Svc for Gated {
    async fn unary(&self, r: Request<Vec<u8>>) -> Result<Response<Vec<u8>>, Status> {
        let k = r.get_ref().first().copied().unwrap_or(0);
        self.log.ev(json!({"e":"srv_req","k":k}));
        self.gate(k).acquire().await.unwrap().forget();
        self.log.ev(json!({"e":"srv_done","k":k}));
        Ok(Response::new(vec![k, 100]))
    }
    async fn cstream(&self, _r: Request<Streaming<Vec<u8>>>) -> Result<Response<Vec<u8>>, Status> { Err(Status::unimplemented("unused")) }
    type SStreamStream = BoxStream;
    async fn sstream(&self, r: Request<Vec<u8>>) -> Result<Response<BoxStream>, Status> {
        let k = r.get_ref().first().copied().unwrap_or(0);
        self.log.ev(json!({"e":"srv_req","k":k}));
        let n = *self.items.get(&k).unwrap_or(&0);
        let gate = self.gate(k);
        let log = self.log.clone();
        let st = tokio_stream::StreamExt::filter_map(tokio_stream::StreamExt::then(tokio_stream::iter(0..=n), move |i| {
            let gate = gate.clone(); let log = log.clone();
            async move { gate.acquire().await.unwrap().forget(); if i < n { Some(Ok(vec![k, i as u8])) } else { log.ev(json!({"e":"srv_done","k":k})); None } }
        }), |x| x);
        Ok(Response::new(Box::pin(st) as BoxStream))
    }
    type BidiStream = BoxStream;
    async fn bidi(&self, _r: Request<Streaming<Vec<u8>>>) -> Result<Response<BoxStream>, Status> { Err(Status::unimplemented("unused")) }
}

struct Incoming { rx: tokio::sync::mpsc::UnboundedReceiver<Result<(u64, Shim), i32>>, log: Rec }
impl tokio_stream::Stream for Incoming {
    type Item = Result<Shim, std::io::Error>;
    fn poll_next(mut self: Pin<&mut Self>, cx: &mut std::task::Context<'_>) -> std::task::Poll<Option<Self::Item>> {
        match self.rx.poll_recv(cx) {
            std::task::Poll::Ready(Some(Ok((c, io)))) => { self.log.ev(json!({"e":"taken","c":c})); std::task::Poll::Ready(Some(Ok(io))) }
            // a non-transient accept error (e.g. EMFILE): the accept loop logs it and goes on
            std::task::Poll::Ready(Some(Err(code))) => { self.log.ev(json!({"e":"accept_error","code":code})); std::task::Poll::Ready(Some(Err(std::io::Error::from_raw_os_error(code)))) }
            std::task::Poll::Ready(None) => std::task::Poll::Ready(None),
            std::task::Poll::Pending => std::task::Poll::Pending,
        }
    }
}

const AGE_MS: u64 = 60_000;
async fn connect_pending(pending: &mut Vec<(u64, Shim)>, clients: &mut HashMap<u64, SvcClient<tonic::transport::Channel>>, log: &Rec) {
    for (c, c_io) in pending.drain(..) {
        let mut slot = Some(c_io);
        let ch = tonic::transport::Endpoint::from_static("http://srv.test")
            .connect_with_connector(tower::service_fn(move |_: http::Uri| { let io = slot.take(); async move { io.map(hyper_util::rt::TokioIo::new).ok_or_else(|| std::io::Error::other("gone")) } })).await;
        match ch { Ok(ch) => { clients.insert(c, SvcClient::new(ch)); } Err(e) => log.ev(json!({"e":"client_connect_err","c":c,"msg":e.to_string()})) }
    }
}

/// stim.storm = {errors, fire_at}: the listener goes through a run of transient accept errors (ECONNABORTED: the kind the server retries by
/// itself); the shutdown signal fires while the run is under way (after `fire_at` errors), and a connection becomes acceptable only once
/// the run is over.  The accept loop looks at the signal between any two errors, so that connection is never accepted.
struct Storm { left: u64, fire_at: u64, sig: Option<tokio::sync::oneshot::Sender<()>>, conn: Option<Shim>, log: Rec }
impl tokio_stream::Stream for Storm {
    type Item = Result<Shim, std::io::Error>;
    fn poll_next(mut self: Pin<&mut Self>, _cx: &mut std::task::Context<'_>) -> std::task::Poll<Option<Self::Item>> {
        if self.left > 0 {
            self.left -= 1;
            if self.fire_at > 0 { self.fire_at -= 1; if self.fire_at == 0 {
                if let Some(t) = self.sig.take() { let _ = t.send(()); }
                self.log.ev(json!({"e":"step","i":0,"op":"fire","c":0,"k":0,"nb":false,"hold":false}));
                self.log.ev(json!({"e":"step","i":1,"op":"offer","c":1,"k":0,"nb":false,"hold":false}));
            } }
            return std::task::Poll::Ready(Some(Err(std::io::Error::from(std::io::ErrorKind::ConnectionAborted))));
        }
        match self.conn.take() { Some(io) => { self.log.ev(json!({"e":"taken","c":1})); std::task::Poll::Ready(Some(Ok(io))) } None => std::task::Poll::Pending }
    }
}
fn run_storm(stim: &Value, rec: &Rec) {
    let log = rec.clone();
    let hook_log = rec.clone();
    let (errors, fire_at) = (stim["storm"]["errors"].as_u64().unwrap_or(400), stim["storm"]["fire_at"].as_u64().unwrap_or(3));
    tonic::transport::verif_hooks::set_sink(Some(Box::new(move |ev, n| if !ev.starts_with("rc_") { hook_log.ev(json!({"e":"hook","ev":ev,"n":n})) })));
    block_on_paused(async move {
        let (c_io, s_io, _d) = Shim::pair(65536, 65536, 65536, 0);
        let (sig_tx, sig_rx) = tokio::sync::oneshot::channel::<()>();
        let h = Gated { gates: Arc::new(Mutex::new(HashMap::new())), items: Arc::new(HashMap::new()), log: log.clone() };
        let incoming = Storm { left: errors, fire_at, sig: Some(sig_tx), conn: Some(s_io), log: log.clone() };
        let log_s = log.clone();
        let serve = tokio::spawn(async move {
            let sig = async move { if sig_rx.await.is_err() { std::future::pending::<()>().await } };
            let r = tonic::transport::Server::builder().add_service(SvcServer::new(h)).serve_with_incoming_shutdown(incoming, sig).await;
            log_s.ev(json!({"e":"resolved","ok":r.is_ok()}));
        });
        tokio::time::sleep(Duration::from_millis(20)).await;
        log.ev(json!({"e":"epilogue"}));
        drop(c_io);
        tokio::time::sleep(Duration::from_millis(5)).await;
        log.ev(json!({"e":"final","resolved":serve.is_finished()}));
        serve.abort();
    });
    tonic::transport::verif_hooks::set_sink(None);
}

/// stim.addr_entry: the address entry point - `Router::serve_with_shutdown(addr, signal)` on a loopback TCP port, in real time - with one
/// streaming call in flight when the signal fires (the other labs of this file use serve_with_incoming_shutdown over in-memory pipes)
fn run_addr(_stim: &Value, rec: &Rec) {
    let log = rec.clone();
    let hook_log = rec.clone();
    tonic::transport::verif_hooks::set_sink(Some(Box::new(move |ev, n| if !ev.starts_with("rc_") { hook_log.ev(json!({"e":"hook","ev":ev,"n":n})) })));
    let addr = { let l = std::net::TcpListener::bind("127.0.0.1:0").expect("loopback port"); l.local_addr().unwrap() };
    block_on(async move {
        let mut items = HashMap::new(); items.insert(1u8, 1u64);
        let h = Gated { gates: Arc::new(Mutex::new(HashMap::new())), items: Arc::new(items), log: log.clone() };
        let (sig_tx, sig_rx) = tokio::sync::oneshot::channel::<()>();
        let log_s = log.clone();
        let svc = SvcServer::new(h.clone());
        let fired = Arc::new(std::sync::atomic::AtomicBool::new(false));
        let fired_s = fired.clone();
        let serve = tokio::spawn(async move {
            let sig = async move { if sig_rx.await.is_err() { std::future::pending::<()>().await } };
            let r = tonic::transport::Server::builder().add_service(svc).serve_with_shutdown(addr, sig).await;
            // (an error before the signal is the loopback port having been taken by somebody else meanwhile: not the server's doing)
            if r.is_ok() || fired_s.load(std::sync::atomic::Ordering::SeqCst) { log_s.ev(json!({"e":"resolved","ok":r.is_ok()})); }
        });
        log.ev(json!({"e":"step","i":0,"op":"offer","c":1,"k":0,"nb":false,"hold":false}));
        let mut ch = None;
        for _ in 0..150 { match tonic::transport::Endpoint::from_shared(format!("http://{addr}")).unwrap().connect().await { Ok(c) => { ch = Some(c); break; } Err(_) => tokio::time::sleep(Duration::from_millis(20)).await } }
        let Some(ch) = ch else { log.ev(json!({"e":"client_connect_err","c":1,"msg":"could not connect to the loopback port"})); log.ev(json!({"e":"epilogue"})); log.ev(json!({"e":"final","resolved":false})); return; };
        log.ev(json!({"e":"taken","c":1}));
        let mut cl = SvcClient::new(ch);
        log.ev(json!({"e":"step","i":1,"op":"send","c":0,"k":1,"nb":false,"hold":false}));
        let (first_tx, first_rx) = tokio::sync::oneshot::channel::<()>();
        let log_c = log.clone();
        let call = tokio::spawn(async move {
            let mut first_tx = Some(first_tx);
            match cl.sstream(Request::new(vec![1u8])).await {
                Err(s) => log_c.ev(json!({"e":"call_done","k":1,"ok":false,"code":s.code() as i32,"msgs":[]})),
                Ok(r) => { let mut st = r.into_inner(); let mut got = vec![];
                    loop { match st.message().await {
                        Ok(Some(m)) => { got.push(bytes_json(&m)); if let Some(t) = first_tx.take() { let _ = t.send(()); } }
                        Ok(None) => { log_c.ev(json!({"e":"call_done","k":1,"ok":true,"code":0,"msgs":got})); break }
                        Err(e) => { log_c.ev(json!({"e":"call_done","k":1,"ok":false,"code":e.code() as i32,"msgs":got})); break } } } }
            }
            drop(cl);
        });
        log.ev(json!({"e":"step","i":2,"op":"release","c":0,"k":1,"nb":false,"hold":false}));
        h.gate(1).add_permits(1);
        let _ = tokio::time::timeout(Duration::from_secs(5), first_rx).await;
        log.ev(json!({"e":"step","i":3,"op":"fire","c":0,"k":0,"nb":false,"hold":false}));
        fired.store(true, std::sync::atomic::Ordering::SeqCst);
        let _ = sig_tx.send(());
        tokio::time::sleep(Duration::from_millis(300)).await;
        log.ev(json!({"e":"step","i":4,"op":"release","c":0,"k":1,"nb":false,"hold":false}));
        h.gate(1).add_permits(1);
        let _ = tokio::time::timeout(Duration::from_secs(5), call).await;
        log.ev(json!({"e":"epilogue"}));
        for _ in 0..250 { if serve.is_finished() { break; } tokio::time::sleep(Duration::from_millis(20)).await; }
        tokio::time::sleep(Duration::from_millis(20)).await;
        log.ev(json!({"e":"final","resolved":serve.is_finished()}));
        serve.abort();
    });
    tonic::transport::verif_hooks::set_sink(None);
}

pub fn run(stim: &Value, rec: &Rec) {
    if stim["storm"].is_object() { return run_storm(stim, rec); }
    if stim["addr_entry"].as_bool().unwrap_or(false) { return run_addr(stim, rec); }
    let log = rec.clone();
    let stim = stim.clone();
    let hook_log = rec.clone();
    tonic::transport::verif_hooks::set_sink(Some(Box::new(move |ev, n| if !ev.starts_with("rc_") { hook_log.ev(json!({"e":"hook","ev":ev,"n":n})) })));
    block_on_paused(async move {
        let mut items = HashMap::new(); let mut conn_of = HashMap::new();
        for c in stim["calls"].as_array().cloned().unwrap_or_default() {
            items.insert(c["k"].as_u64().unwrap() as u8, c["items"].as_u64().unwrap_or(0));
            conn_of.insert(c["k"].as_u64().unwrap() as u8, c["c"].as_u64().unwrap());
        }
        let h = Gated { gates: Arc::new(Mutex::new(HashMap::new())), items: Arc::new(items.clone()), log: log.clone() };
        let (tx, rx) = tokio::sync::mpsc::unbounded_channel();
        let (sig_tx, sig_rx) = tokio::sync::oneshot::channel::<()>();
        let mut sig_tx = Some(sig_tx);
        let log_s = log.clone();
        let srv_timeout = stim["timeout_ms"].as_u64();
        let with_layer = stim["layer"].as_bool().unwrap_or(false);
        let conc_limit = stim["limit"].as_u64().filter(|n| *n > 0);
        let svc = SvcServer::new(h.clone());
        let serve = tokio::spawn(async move {
            let mut b = tonic::transport::Server::builder().max_connection_age(Duration::from_millis(AGE_MS));
            // stim.limit: a per-connection concurrency limit; a request waiting for a permit when the signal fires has been accepted like any other
            if let Some(n) = conc_limit { b = b.concurrency_limit_per_connection(n as usize); }
            if let Some(ms) = srv_timeout { b = b.timeout(Duration::from_millis(ms)); }      // Server::timeout: bounds the handler future, not the response stream
            let sig = async move { if sig_rx.await.is_err() { std::future::pending::<()>().await } };
            // stim.layer: a do-nothing tower layer added after the builder options (Server::layer rebuilds the builder: nothing may be lost)
            let r = if with_layer {
                b.layer(tower::layer::util::Identity::new()).add_service(svc).serve_with_incoming_shutdown(Incoming { rx, log: log_s.clone() }, sig).await
            } else {
                b.add_service(svc).serve_with_incoming_shutdown(Incoming { rx, log: log_s.clone() }, sig).await
            };
            log_s.ev(json!({"e":"resolved","ok":r.is_ok()}));
        });
        let sh = &stim["shim"];
        let (rq, wq, pend) = (sh["rq"].as_u64().unwrap_or(65536) as usize, sh["wq"].as_u64().unwrap_or(65536) as usize, sh["pend"].as_u64().unwrap_or(0) as usize);
        let mut clients: HashMap<u64, SvcClient<tonic::transport::Channel>> = HashMap::new();
        let mut tasks: HashMap<u8, tokio::task::JoinHandle<()>> = HashMap::new();
        let mut pending: Vec<(u64, Shim)> = vec![];
        let mut held: HashMap<u64, Shim> = HashMap::new();
        let mut tx = Some(tx);
        let steps = stim["steps"].as_array().cloned().unwrap_or_default();
        for (i, st) in steps.iter().enumerate() {
            let nb = st["nb"].as_bool().unwrap_or(false);
            log.ev(json!({"e":"step","i":i as u64,"op":st["op"],"c":st["c"].as_u64().unwrap_or(0),"k":st["k"].as_u64().unwrap_or(0),"nb":nb,"hold":st["hold"].as_bool().unwrap_or(false)}));
            match st["op"].as_str().unwrap_or("") {
                "offer" => {
                    // the server's half goes into the incoming stream now; the client's half is connected at the next barrier
                    let c = st["c"].as_u64().unwrap();
                    let (c_io, s_io, _d) = Shim::pair(65536, rq, wq, pend);
                    // hold: only the client's half exists for now (the client can connect and write: the bytes wait in the pipe);
                    // the server's half reaches the accept loop with a later "admit" step
                    if st["hold"].as_bool().unwrap_or(false) { held.insert(c, s_io); }
                    else if let Some(tx) = &tx { let _ = tx.send(Ok((c, s_io))); }
                    pending.push((c, c_io));
                }
                "admit" => {
                    let c = st["c"].as_u64().unwrap();
                    if let (Some(s_io), Some(tx)) = (held.remove(&c), &tx) { let _ = tx.send(Ok((c, s_io))); }
                }
                "send" => {
                    connect_pending(&mut pending, &mut clients, &log).await;
                    let k = st["k"].as_u64().unwrap() as u8;
                    let c = conn_of[&k];
                    if let Some(cl) = clients.get(&c) {
                        let mut cl = cl.clone(); let log = log.clone(); let n = items[&k];
                        tasks.insert(k, tokio::spawn(async move {
                            if n == 0 {
                                match cl.unary(Request::new(vec![k])).await {
                                    Ok(r) => log.ev(json!({"e":"call_done","k":k,"ok":true,"code":0,"msgs":[bytes_json(r.get_ref())]})),
                                    Err(s) => log.ev(json!({"e":"call_done","k":k,"ok":false,"code":s.code() as i32,"msgs":[]})),
                                }
                            } else {
                                match cl.sstream(Request::new(vec![k])).await {
                                    Err(s) => log.ev(json!({"e":"call_done","k":k,"ok":false,"code":s.code() as i32,"msgs":[]})),
                                    Ok(r) => { let mut s = r.into_inner(); let mut got = vec![];
                                        loop { match s.message().await { Ok(Some(m)) => got.push(bytes_json(&m)), Ok(None) => { log.ev(json!({"e":"call_done","k":k,"ok":true,"code":0,"msgs":got})); break } Err(e) => { log.ev(json!({"e":"call_done","k":k,"ok":false,"code":e.code() as i32,"msgs":got})); break } } } }
                                }
                            }
                        }));
                    } else { log.ev(json!({"e":"call_done","k":k,"ok":false,"code":-2,"msgs":[]})); }
                }
                "fire" => { if let Some(t) = sig_tx.take() { let _ = t.send(()); } }
                "end_incoming" => { tx.take(); }
                "accept_error" => { if let Some(tx) = &tx { let _ = tx.send(Err(24)); } }
                "age" => { tokio::time::sleep(Duration::from_millis(AGE_MS)).await; }
                "wait" => { tokio::time::sleep(Duration::from_millis(st["ms"].as_u64().unwrap_or(1000))).await; }
                "release" => { h.gate(st["k"].as_u64().unwrap() as u8).add_permits(1); }
                "drop" => {
                    let c = st["c"].as_u64().unwrap();
                    pending.retain(|(pc, _)| *pc != c);
                    for (k, t) in tasks.iter() { if conn_of[k] == c && !t.is_finished() { t.abort(); log.ev(json!({"e":"call_aborted","k":*k})); } }
                    clients.remove(&c);
                }
                _ => {}
            }
            // nb ("no barrier"): the next step is applied in the same scheduler tick, before any server task has run
            if !nb {
                connect_pending(&mut pending, &mut clients, &log).await;
                tokio::time::sleep(Duration::from_millis(1)).await;
            }
        }
        connect_pending(&mut pending, &mut clients, &log).await;
        // epilogue: let every handler finish, then every client go away
        log.ev(json!({"e":"epilogue"}));
        for k in items.keys() { h.gate(*k).add_permits(64); }
        tokio::time::sleep(Duration::from_millis(5)).await;
        for (k, t) in tasks.iter() { if !t.is_finished() { t.abort(); log.ev(json!({"e":"call_aborted","k":*k})); } }
        clients.clear();
        tokio::time::sleep(Duration::from_millis(5)).await;
        log.ev(json!({"e":"final","resolved":serve.is_finished()}));
        serve.abort();
    });
    tonic::transport::verif_hooks::set_sink(None);
}
