//! Codegen lab (C11): runs tonic-build's real service generator at run time on a service descriptor (or reads a
//! committed generated file) and extracts, with syn, the facts the Contract talks about: per client method the
//! path literal, GrpcMethod tags, call kind and message types; per server match arm the path literal, the service
//! trait implemented (call kind, request type), the Response type, the grpc.<kind> call and the trait method called;
//! the SERVICE_NAME / NamedService::NAME constants.
//! Stimulus: {package, service:{name, proto}, methods:[{name, proto, cs, ss}], opts:{emit_package, default_stubs, arc_self, client, server}}
//!        or {file: "<path of a committed generated file>", ...same descriptor fields...}
use crate::labs::Rec;
use prost_build::{Comments, Method, Service};
use quote::ToTokens;
use serde_json::{json, Value};
use syn::visit::Visit;

fn ts<T: ToTokens>(t: &T) -> String { t.to_token_stream().to_string().replace(' ', "") }
/// the balanced `<...>` content that follows `marker` in `s` (projection of a message type out of a signature)
fn inner_of(s: &str, marker: &str) -> String {
    match s.find(marker) {
        None => String::new(),
        Some(i) => { let rest = &s[i + marker.len()..]; let mut depth = 1; let mut out = String::new();
            for c in rest.chars() { if c == '<' { depth += 1; } if c == '>' { depth -= 1; if depth == 0 { break; } } out.push(c); }
            out.trim_end_matches(',').to_string() }
    }
}
fn client_req_ty(arg: &str) -> String { if arg.contains("IntoStreamingRequest<Message=") { inner_of(arg, "IntoStreamingRequest<Message=") } else { inner_of(arg, "IntoRequest<") } }
fn client_resp_ty(ret: &str) -> String { let r = inner_of(ret, "tonic::Response<"); if r.starts_with("tonic::codec::Streaming<") { inner_of(&r, "tonic::codec::Streaming<") } else { r } }
const KINDS: [&str; 4] = ["unary", "server_streaming", "client_streaming", "streaming"];

#[derive(Default)]
struct Body { lits: Vec<String>, calls: Vec<(String, String)>, qself_calls: Vec<String>, impls: Vec<(String, String)>, resp_types: Vec<String>, resp_streams: Vec<String>, gm: Vec<Vec<String>>, codecs: Vec<String> }
impl<'ast> Visit<'ast> for Body {
    fn visit_lit_str(&mut self, l: &'ast syn::LitStr) { self.lits.push(l.value()); }
    fn visit_local(&mut self, l: &'ast syn::Local) {
        // `let codec = <path>::default();` : which codec this client method / server arm is generated with
        if let syn::Pat::Ident(p) = &l.pat { if p.ident == "codec" { if let Some(init) = &l.init { let e = ts(&*init.expr); self.codecs.push(e.trim_end_matches("::default()").to_string()); } } }
        syn::visit::visit_local(self, l);
    }
    fn visit_expr_method_call(&mut self, m: &'ast syn::ExprMethodCall) {
        let n = m.method.to_string();
        if KINDS.contains(&n.as_str()) { self.calls.push((ts(&m.receiver), n)); }
        syn::visit::visit_expr_method_call(self, m);
    }
    fn visit_expr_call(&mut self, c: &'ast syn::ExprCall) {
        if let syn::Expr::Path(p) = &*c.func {
            if p.qself.is_some() { if let Some(seg) = p.path.segments.last() { self.qself_calls.push(seg.ident.to_string()); } }
            let f = ts(&p.path);
            if f.ends_with("GrpcMethod::new") {
                let args: Vec<String> = c.args.iter().map(|a| match a { syn::Expr::Lit(syn::ExprLit { lit: syn::Lit::Str(s), .. }) => s.value(), o => ts(o) }).collect();
                self.gm.push(args);
            }
        }
        syn::visit::visit_expr_call(self, c);
    }
    fn visit_item_impl(&mut self, i: &'ast syn::ItemImpl) {
        if let Some((_, path, _)) = &i.trait_ {
            if let Some(seg) = path.segments.last() {
                let name = seg.ident.to_string();
                if name.ends_with("Service") { if let syn::PathArguments::AngleBracketed(a) = &seg.arguments { self.impls.push((name, a.args.iter().map(|x| ts(x)).collect::<Vec<_>>().join(","))); } }
            }
            for it in &i.items { if let syn::ImplItem::Type(t) = it {
                if t.ident == "Response" { self.resp_types.push(ts(&t.ty)); }
                // the item type of a boxed response stream (default stubs); "" when the stream type is the service's own associated type
                if t.ident == "ResponseStream" { let ty = ts(&t.ty); self.resp_streams.push(if ty.contains("BoxStream<") { inner_of(&ty, "BoxStream<") } else { String::new() }); }
            } }
        }
        syn::visit::visit_item_impl(self, i);
    }
}

struct Top { client: Vec<Value>, server: Vec<Value>, consts: Vec<(String, String)>, named: Vec<String>, trait_fns: Vec<String> }
impl<'ast> Visit<'ast> for Top {
    fn visit_item_impl(&mut self, i: &'ast syn::ItemImpl) {
        let self_ty = ts(&i.self_ty);
        if i.trait_.is_none() && self_ty.contains("Client<") {
            for it in &i.items { if let syn::ImplItem::Fn(f) = it {
                let mut b = Body::default(); b.visit_block(&f.block);
                let paths: Vec<&String> = b.lits.iter().filter(|l| l.starts_with('/')).collect();
                if paths.is_empty() && b.calls.is_empty() { continue; }
                let args: Vec<String> = f.sig.inputs.iter().filter_map(|a| match a { syn::FnArg::Typed(t) => Some(ts(&t.ty)), _ => None }).collect();
                self.client.push(json!({"fn": f.sig.ident.to_string(), "paths": paths, "gm": b.gm, "kinds": b.calls.iter().map(|c| c.1.clone()).collect::<Vec<_>>(),
                    "req_ty": client_req_ty(&args.join(",")), "resp_ty": client_resp_ty(&match &f.sig.output { syn::ReturnType::Type(_, t) => ts(t), _ => String::new() }),
                    "arg_streaming": args.join(",").contains("IntoStreamingRequest"), "ret_streaming": match &f.sig.output { syn::ReturnType::Type(_, t) => ts(t).contains("tonic::codec::Streaming<"), _ => false },
                    "codec": b.codecs, "arg": args.join(","), "ret": match &f.sig.output { syn::ReturnType::Type(_, t) => ts(t), _ => String::new() }}));
            } }
        }
        if let Some((_, path, _)) = &i.trait_ {
            if path.segments.last().map(|s| s.ident == "NamedService").unwrap_or(false) {
                for it in &i.items { if let syn::ImplItem::Const(c) = it { if c.ident == "NAME" { self.named.push(ts(&c.expr)); } } }
            }
        }
        syn::visit::visit_item_impl(self, i);
    }
    fn visit_item_const(&mut self, c: &'ast syn::ItemConst) {
        if c.ident == "SERVICE_NAME" { if let syn::Expr::Lit(syn::ExprLit { lit: syn::Lit::Str(s), .. }) = &*c.expr { self.consts.push(("SERVICE_NAME".into(), s.value())); } }
    }
    fn visit_item_trait(&mut self, t: &'ast syn::ItemTrait) {
        for it in &t.items { if let syn::TraitItem::Fn(f) = it { self.trait_fns.push(f.sig.ident.to_string()); } }
    }
    fn visit_expr_match(&mut self, m: &'ast syn::ExprMatch) {
        let mut any = false;
        for arm in &m.arms {
            if let syn::Pat::Lit(syn::ExprLit { lit: syn::Lit::Str(s), .. }) = &arm.pat {
                if s.value().starts_with('/') {
                    any = true;
                    let mut b = Body::default(); b.visit_expr(&arm.body);
                    self.server.push(json!({"path": s.value(), "impls": b.impls.iter().map(|(n, a)| json!({"trait": n, "args": a})).collect::<Vec<_>>(),
                        "resp": b.resp_types, "resp_stream_items": b.resp_streams, "codec": b.codecs, "grpc_calls": b.calls.iter().filter(|c| c.0 == "grpc").map(|c| c.1.clone()).collect::<Vec<_>>(), "trait_calls": b.qself_calls}));
                }
            }
        }
        if !any { syn::visit::visit_expr_match(self, m); }
    }
}

pub fn extract(src: &str) -> Value {
    match syn::parse_file(src) {
        Err(e) => json!({"parses": false, "err": e.to_string()}),
        Ok(f) => {
            let mut t = Top { client: vec![], server: vec![], consts: vec![], named: vec![], trait_fns: vec![] };
            t.visit_file(&f);
            json!({"parses": true, "client": t.client, "server": t.server, "service_name": t.consts.iter().map(|c| c.1.clone()).collect::<Vec<_>>(),
                   "named": t.named, "trait_fns": t.trait_fns})
        }
    }
}

pub fn run(stim: &Value, rec: &Rec) {
    if let Some(path) = stim["file"].as_str() {
        let src = std::fs::read_to_string(path).expect("committed generated file");
        rec.ev(json!({"e":"generated","bytes":src.len() as u64,"facts":extract(&src)}));
        return;
    }
    let m = |v: &Value| Method { name: v["name"].as_str().unwrap().into(), proto_name: v["proto"].as_str().unwrap().into(), comments: Comments::default(),
        input_type: v["in_ty"].as_str().unwrap_or("super::In").into(), output_type: v["out_ty"].as_str().unwrap_or("super::Out").into(),
        input_proto_type: ".x.In".into(), output_proto_type: ".x.Out".into(), options: Default::default(),
        client_streaming: v["cs"].as_bool().unwrap_or(false), server_streaming: v["ss"].as_bool().unwrap_or(false) };
    let svc = Service { name: stim["service"]["name"].as_str().unwrap().into(), proto_name: stim["service"]["proto"].as_str().unwrap().into(),
        package: stim["package"].as_str().unwrap_or("").into(), comments: Comments::default(),
        methods: stim["methods"].as_array().cloned().unwrap_or_default().iter().map(m).collect(), options: Default::default() };
    let o = &stim["opts"];
    // opts.disable_comments = "first" | "all": doc comments are switched off for the first / every rpc (by its qualified name) and for
    // the service: an option about comments must not change what is generated besides them
    let qual = { let pkg = if o["emit_package"].as_bool().unwrap_or(true) { stim["package"].as_str().unwrap_or("") } else { "" };
                 format!("{}{}{}", pkg, if pkg.is_empty() { "" } else { "." }, stim["service"]["proto"].as_str().unwrap_or("")) };
    let mut no_comments: Vec<String> = vec![];
    match o["disable_comments"].as_str().unwrap_or("") {
        "first" => { if let Some(m) = stim["methods"].as_array().and_then(|a| a.first()) { no_comments.push(format!("{}.{}", qual, m["proto"].as_str().unwrap_or(""))); } }
        "all" => { no_comments.push(qual.clone()); for m in stim["methods"].as_array().cloned().unwrap_or_default() { no_comments.push(format!("{}.{}", qual, m["proto"].as_str().unwrap_or(""))); } }
        _ => {}
    }
    if stim["manual"].as_bool().unwrap_or(false) {
        // tonic_build::manual: the same descriptor through the builder API that has no .proto behind it; each method names its own codec
        let mut sb = tonic_build::manual::Service::builder().name(stim["service"]["proto"].as_str().unwrap()).package(stim["package"].as_str().unwrap_or(""));
        for v in stim["methods"].as_array().cloned().unwrap_or_default() {
            let mut mb = tonic_build::manual::Method::builder().name(v["name"].as_str().unwrap()).route_name(v["proto"].as_str().unwrap())
                .input_type("crate::In").output_type("crate::Out").codec_path(v["codec"].as_str().unwrap_or("crate::CodecA"));
            if v["cs"].as_bool().unwrap_or(false) { mb = mb.client_streaming(); }
            if v["ss"].as_bool().unwrap_or(false) { mb = mb.server_streaming(); }
            sb = sb.method(mb.build());
        }
        let svc = sb.build();
        let mut cg = tonic_build::CodeGenBuilder::new();
        // opts.leave_default: an option whose value is the builder's documented default (emit_package = true) is not set at all
        if !(o["leave_default"].as_bool().unwrap_or(false) && o["emit_package"].as_bool().unwrap_or(true)) { cg.emit_package(o["emit_package"].as_bool().unwrap_or(true)); }
        cg.use_arc_self(o["arc_self"].as_bool().unwrap_or(false)).generate_default_stubs(o["default_stubs"].as_bool().unwrap_or(false))
          .disable_comments(no_comments.iter().cloned().collect());
        let mut buf = String::new();
        if o["client"].as_bool().unwrap_or(true) { buf.push_str(&cg.generate_client(&svc, "").to_string()); buf.push('\n'); }
        if o["server"].as_bool().unwrap_or(true) { buf.push_str(&cg.generate_server(&svc, "").to_string()); }
        rec.ev(json!({"e":"generated","bytes":buf.len() as u64,"facts":extract(&buf)}));
        return;
    }
    let mut b = tonic_build::configure().build_client(o["client"].as_bool().unwrap_or(true)).build_server(o["server"].as_bool().unwrap_or(true))
        .use_arc_self(o["arc_self"].as_bool().unwrap_or(false)).generate_default_stubs(o["default_stubs"].as_bool().unwrap_or(false));
    if !o["emit_package"].as_bool().unwrap_or(true) { b = b.disable_package_emission(); }
    for n in &no_comments { b = b.disable_comments(n); }
    let mut g = b.service_generator();
    let mut buf = String::new();
    g.generate(svc, &mut buf);
    g.finalize(&mut buf);
    rec.ev(json!({"e":"generated","bytes":buf.len() as u64,"facts":extract(&buf)}));
}
