//! Health lab (C18): the generated Health client against health_reporter()'s server, in-process.
//! Stimulus: {ops:[{op:"set",s,v}|{op:"clear",s}|{op:"check",s}|{op:"watch",s,w}|{op:"next",w}]}  v: 0 Unknown, 1 Serving, 2 NotServing
use crate::labs::Rec;
use crate::util::*;
use serde_json::{json, Value};
use std::collections::HashMap;
use std::time::Duration;
use tonic_health::pb::health_client::HealthClient;
use tonic_health::pb::HealthCheckRequest;
use tonic_health::ServingStatus;

fn st(v: u64) -> ServingStatus { match v { 1 => ServingStatus::Serving, 2 => ServingStatus::NotServing, _ => ServingStatus::Unknown } }

/// Concurrent rounds: {threads:[[op..],..], epilogue:[op..]} on a multi-threaded runtime.  All threads start behind a
/// barrier (op "barrier" re-synchronises them); the epilogue runs on thread 0 after they have all finished.
/// op "watch_retry" = watch until subscribed (at most `v` attempts).
static CONC_SEQ: std::sync::atomic::AtomicU64 = std::sync::atomic::AtomicU64::new(0);
fn seq() -> u64 { CONC_SEQ.fetch_add(1, std::sync::atomic::Ordering::SeqCst) }
#[derive(Clone)]
struct NamedA; impl tonic::server::NamedService for NamedA { const NAME: &'static str = "a"; }
struct NamedB; impl tonic::server::NamedService for NamedB { const NAME: &'static str = "b"; }
struct COp { kind: String, s: String, v: u64, w: u64, burn: u64 }
fn parse_op(op: &Value) -> COp { COp { kind: op["op"].as_str().unwrap_or("").to_string(), s: op["s"].as_str().unwrap_or("").to_string(), v: op["v"].as_u64().unwrap_or(0), w: op["w"].as_u64().unwrap_or(0), burn: op["burn"].as_u64().unwrap_or(0) } }
/// (call seq, ret seq, thread, op name, service, v, w, result, status)
type Local = Vec<(u64, u64, u64, &'static str, String, u64, u64, &'static str, i64)>;

/// Events are stamped with a global sequence number taken (SeqCst fetch_add) just before the operation starts (`call`) and
/// just after it returned (`ret`), kept in a per-task list and merged by number at the end of the round: if ret(A) is
/// numbered before call(B), A had returned before B was started.  Failed attempts of watch_retry are not recorded (an
/// unrecorded operation only removes constraints), except the last one.  Nothing is allocated or formatted between the
/// barrier and the operation itself, so that the tasks really contend.
async fn conc_op(t: u64, op: &COp, reporter: &mut tonic_health::server::HealthReporter,
                 client: &mut HealthClient<tonic_health::pb::health_server::HealthServer<impl tonic_health::pb::health_server::Health>>,
                 streams: &mut HashMap<u64, tonic::Streaming<tonic_health::pb::HealthCheckResponse>>, log: &mut Local) {
    let attempts = if op.kind == "watch_retry" { op.v.max(1) } else { 1 };
    let name: &'static str = match op.kind.as_str() { "set" => "set", "clear" => "clear", "check" => "check", "watch" | "watch_retry" => "watch", "next" => "next", _ => "unknown" };
    for a in 0..attempts {
        let c = seq();
        let res: (&'static str, i64) = match name {
            "set" => { reporter.set_service_status(&op.s, st(op.v)).await; ("done", -1) }
            "clear" => { reporter.clear_service_status(&op.s).await; ("done", -1) }
            "check" => match client.check(HealthCheckRequest { service: op.s.clone() }).await {
                Ok(r) => ("status", r.get_ref().status as i64),
                Err(e) => ("err", e.code() as i64),
            },
            "watch" => match client.watch(HealthCheckRequest { service: op.s.clone() }).await {
                Ok(r) => { streams.insert(op.w, r.into_inner()); ("subscribed", -1) }
                Err(e) => ("err", e.code() as i64),
            },
            "next" => match streams.get_mut(&op.w) {
                None => ("nostream", -1),
                Some(stm) => match tokio::time::timeout(Duration::from_millis(1), stm.message()).await {
                    Err(_) => ("pending", -1),
                    Ok(Ok(Some(m))) => ("item", m.status as i64),
                    Ok(Ok(None)) => ("end", -1),
                    Ok(Err(e)) => ("err", e.code() as i64),
                },
            },
            _ => ("unknown", -1),
        };
        let r = seq();
        let retry = name == "watch" && res.0 == "err" && a + 1 < attempts;
        if !retry {
            log.push((c, r, t, name, op.s.clone(), op.v, op.w, res.0, res.1));
            break;
        }
        tokio::task::yield_now().await;
    }
}

fn run_conc(stim: &Value, rec: &Rec) {
    let threads: Vec<Vec<COp>> = stim["threads"].as_array().cloned().unwrap_or_default().iter().map(|t| t.as_array().cloned().unwrap_or_default().iter().map(parse_op).collect()).collect();
    let epilogue: Vec<COp> = stim["epilogue"].as_array().cloned().unwrap_or_default().iter().map(parse_op).collect();
    // one warm 8-worker runtime for all rounds of this process: freshly started workers run the tasks of a short round
    // almost one after the other
    static RT: std::sync::OnceLock<tokio::runtime::Runtime> = std::sync::OnceLock::new();
    let rt = RT.get_or_init(|| tokio::runtime::Builder::new_multi_thread().worker_threads(8).enable_all().build().unwrap());
    let log = rec.clone();
    rt.block_on(async move {
        let (reporter, server) = tonic_health::server::health_reporter();
        let client = HealthClient::new(server);
        let barrier = std::sync::Arc::new(tokio::sync::Barrier::new(threads.len()));
        let mut joins = vec![];
        for (i, ops) in threads.into_iter().enumerate() {
            let (mut reporter, mut client, barrier) = (reporter.clone(), client.clone(), barrier.clone());
            joins.push(tokio::spawn(async move {
                let mut streams = HashMap::new();
                let mut local: Local = Vec::with_capacity(ops.len() + 4);
                barrier.wait().await;
                for op in ops.iter() {
                    if op.kind == "barrier" { barrier.wait().await; continue; }      // every thread of a round has the same number of barrier ops
                    conc_op(i as u64 + 1, op, &mut reporter, &mut client, &mut streams, &mut local).await;
                }
                (streams, local)
            }));
        }
        let mut streams = HashMap::new();
        let mut all: Local = vec![];
        let mut panicked = false;
        for j in joins { match j.await { Ok((s, l)) => { streams.extend(s); all.extend(l); } Err(_) => panicked = true } }
        let joined = seq();
        let (mut reporter, mut client) = (reporter, client);
        for op in epilogue.iter() { conc_op(0, op, &mut reporter, &mut client, &mut streams, &mut all).await; }
        let mut evs: Vec<(u64, Value)> = vec![(joined, json!({"e":"joined"}))];
        for (c, r, t, name, s, v, w, res, status) in all {
            evs.push((c, json!({"e":"call","t":t,"op":name,"sn":s,"v":v,"w":w})));
            evs.push((r, json!({"e":"ret","t":t,"res":{"r":res,"status":status}})));
        }
        evs.sort_by_key(|x| x.0);
        for (_, e) in evs { log.ev(e); }
        if panicked { panic!("a task of the concurrent round panicked"); }
    });
}

/// Preemption rounds (class "preempt"): {tasks:[[op..],..], epilogue:[op..]} on the single-threaded runtime with a paused
/// clock.  tokio's cooperative budget (128 units per task poll) makes every await on a tokio resource a possible yield
/// point; each op carries `burn`: the task first yields (fresh budget), spends `burn` units, and then runs the operation,
/// so the operation is preempted at its (129 - burn)-th budgeted await - inside the library's critical sections if they
/// span more than one await.  Deterministic; the same call/ret history format as the multi-threaded rounds.
fn run_preempt(stim: &Value, rec: &Rec) {
    let tasks: Vec<Vec<COp>> = stim["tasks"].as_array().cloned().unwrap_or_default().iter().map(|t| t.as_array().cloned().unwrap_or_default().iter().map(parse_op).collect()).collect();
    let epilogue: Vec<COp> = stim["epilogue"].as_array().cloned().unwrap_or_default().iter().map(parse_op).collect();
    let log = rec.clone();
    block_on_paused(async move {
        let (reporter, server) = tonic_health::server::health_reporter();
        let client = HealthClient::new(server);
        let mut joins = vec![];
        for (i, ops) in tasks.into_iter().enumerate() {
            let (mut reporter, mut client) = (reporter.clone(), client.clone());
            joins.push(tokio::spawn(async move {
                let mut streams = HashMap::new();
                let mut local: Local = Vec::with_capacity(ops.len() + 4);
                for op in ops.iter() {
                    tokio::task::yield_now().await;
                    for _ in 0..op.burn { tokio::task::coop::consume_budget().await; }
                    conc_op(i as u64 + 1, op, &mut reporter, &mut client, &mut streams, &mut local).await;
                }
                (streams, local)
            }));
        }
        let mut streams = HashMap::new();
        let mut all: Local = vec![];
        let mut panicked = false;
        for j in joins { match j.await { Ok((s, l)) => { streams.extend(s); all.extend(l); } Err(_) => panicked = true } }
        let joined = seq();
        let (mut reporter, mut client) = (reporter, client);
        for op in epilogue.iter() { conc_op(0, op, &mut reporter, &mut client, &mut streams, &mut all).await; }
        let mut evs: Vec<(u64, Value)> = vec![(joined, json!({"e":"joined"}))];
        for (c, r, t, name, s, v, w, res, status) in all {
            evs.push((c, json!({"e":"call","t":t,"op":name,"sn":s,"v":v,"w":w})));
            evs.push((r, json!({"e":"ret","t":t,"res":{"r":res,"status":status}})));
        }
        evs.sort_by_key(|x| x.0);
        for (_, e) in evs { log.ev(e); }
        if panicked { panic!("a task of the preemption round panicked"); }
    });
}

pub fn run(stim: &Value, rec: &Rec) {
    if stim.get("threads").is_some() { return run_conc(stim, rec); }
    if stim.get("tasks").is_some() { return run_preempt(stim, rec); }
    let log = rec.clone();
    let stim = stim.clone();
    block_on_paused(async move {
        let (mut reporter, server) = tonic_health::server::health_reporter();
        let mut client = HealthClient::new(server);
        let mut streams: HashMap<u64, tonic::Streaming<tonic_health::pb::HealthCheckResponse>> = HashMap::new();
        // parked watchers: a task that keeps awaiting the stream (wake-ups matter) and forwards what it gets
        let mut parked: HashMap<u64, tokio::sync::mpsc::UnboundedReceiver<Value>> = HashMap::new();
        for (i, op) in stim["ops"].as_array().cloned().unwrap_or_default().iter().enumerate() {
            let s = op["s"].as_str().unwrap_or("").to_string();
            let w = op["w"].as_u64().unwrap_or(0);
            let res = match op["op"].as_str().unwrap_or("") {
                "set" => {
                    // every other operation goes through the typed front ends set_serving::<S>() / set_not_serving::<S>() where they apply
                    let v = op["v"].as_u64().unwrap_or(0);
                    match (i % 2, s.as_str(), v) {
                        (1, "a", 1) => reporter.set_serving::<NamedA>().await,
                        (1, "a", 2) => reporter.set_not_serving::<NamedA>().await,
                        (1, "b", 1) => reporter.set_serving::<NamedB>().await,
                        (1, "b", 2) => reporter.set_not_serving::<NamedB>().await,
                        _ => reporter.set_service_status(s.clone(), st(v)).await,
                    }
                    json!({"r":"done"})
                }
                "clear" => { reporter.clear_service_status(&s).await; json!({"r":"done"}) }
                "check" => match client.check(HealthCheckRequest { service: s.clone() }).await {
                    Ok(r) => json!({"r":"status","code":0,"status":r.get_ref().status}),
                    Err(e) => json!({"r":"err","code":e.code() as i32,"status":-1}),
                },
                "watch" => match client.watch(HealthCheckRequest { service: s.clone() }).await {
                    Ok(r) => { streams.insert(w, r.into_inner()); json!({"r":"subscribed","code":0}) }
                    Err(e) => json!({"r":"err","code":e.code() as i32}),
                },
                "park" => match streams.remove(&w) {
                    None => json!({"r":"nostream"}),
                    Some(mut stm) => {
                        let (tx, rx) = tokio::sync::mpsc::unbounded_channel();
                        tokio::spawn(async move { loop { match stm.message().await {
                            Ok(Some(m)) => { if tx.send(json!({"r":"item","status":m.status})).is_err() { break; } }
                            Ok(None) => { let _ = tx.send(json!({"r":"end","status":-1})); break; }
                            Err(e) => { let _ = tx.send(json!({"r":"err","code":e.code() as i32,"status":-1})); break; } } } });
                        parked.insert(w, rx);
                        json!({"r":"parked"})
                    }
                },
                "next" if parked.contains_key(&w) => {
                    // what the parked watcher has received by now (quiescent point); nothing = still waiting
                    match parked.get_mut(&w).unwrap().try_recv() { Ok(v) => v, Err(tokio::sync::mpsc::error::TryRecvError::Empty) => json!({"r":"pending","status":-1}), Err(_) => json!({"r":"end","status":-1}) }
                }
                "next" => match streams.get_mut(&w) {
                    None => json!({"r":"nostream"}),
                    Some(stm) => match tokio::time::timeout(Duration::from_millis(1), stm.message()).await {
                        Err(_) => json!({"r":"pending","status":-1}),
                        Ok(Ok(Some(m))) => json!({"r":"item","status":m.status}),
                        Ok(Ok(None)) => json!({"r":"end","status":-1}),
                        Ok(Err(e)) => json!({"r":"err","code":e.code() as i32,"status":-1}),
                    },
                },
                _ => json!({"r":"unknown"}),
            };
            log.ev(json!({"e":"op","i":i as u64,"op":op["op"],"s":str_json(&s),"sn":s,"v":op["v"].as_u64().unwrap_or(0),"w":w,"res":res}));
            tokio::time::sleep(Duration::from_millis(1)).await;
        }
    });
}
