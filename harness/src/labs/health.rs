//! Health lab (C18): the generated Health client against health_reporter()'s server, in-process.
//! Stimulus: {ops:[{op:"set",s,v}|{op:"clear",s}|{op:"check",s}|{op:"watch",s,w}|{op:"next",w}]}  v: 0 Unknown, 1 Serving, 2 NotServing
use crate::labs::Rec;
use crate::util::*;
use serde_json::{json, Value};
use std::collections::HashMap;
use std::time::Duration;
use tonic_health::pb::health_client::HealthClient;
use tonic_health::pb::HealthCheckRequest;
use tonic_health::ServingStatus;

fn st(v: u64) -> ServingStatus { match v { 1 => ServingStatus::Serving, 2 => ServingStatus::NotServing, _ => ServingStatus::Unknown } }

pub fn run(stim: &Value, rec: &Rec) {
    let log = rec.clone();
    let stim = stim.clone();
    block_on_paused(async move {
        let (mut reporter, server) = tonic_health::server::health_reporter();
        let mut client = HealthClient::new(server);
        let mut streams: HashMap<u64, tonic::Streaming<tonic_health::pb::HealthCheckResponse>> = HashMap::new();
        // parked watchers: a task that keeps awaiting the stream (wake-ups matter) and forwards what it gets
        let mut parked: HashMap<u64, tokio::sync::mpsc::UnboundedReceiver<Value>> = HashMap::new();
        for (i, op) in stim["ops"].as_array().cloned().unwrap_or_default().iter().enumerate() {
            let s = op["s"].as_str().unwrap_or("").to_string();
            let w = op["w"].as_u64().unwrap_or(0);
            let res = match op["op"].as_str().unwrap_or("") {
                "set" => { reporter.set_service_status(s.clone(), st(op["v"].as_u64().unwrap_or(0))).await; json!({"r":"done"}) }
                "clear" => { reporter.clear_service_status(&s).await; json!({"r":"done"}) }
                "check" => match client.check(HealthCheckRequest { service: s.clone() }).await {
                    Ok(r) => json!({"r":"status","code":0,"status":r.get_ref().status}),
                    Err(e) => json!({"r":"err","code":e.code() as i32,"status":-1}),
                },
                "watch" => match client.watch(HealthCheckRequest { service: s.clone() }).await {
                    Ok(r) => { streams.insert(w, r.into_inner()); json!({"r":"subscribed","code":0}) }
                    Err(e) => json!({"r":"err","code":e.code() as i32}),
                },
                "park" => match streams.remove(&w) {
                    None => json!({"r":"nostream"}),
                    Some(mut stm) => {
                        let (tx, rx) = tokio::sync::mpsc::unbounded_channel();
                        tokio::spawn(async move { loop { match stm.message().await {
                            Ok(Some(m)) => { if tx.send(json!({"r":"item","status":m.status})).is_err() { break; } }
                            Ok(None) => { let _ = tx.send(json!({"r":"end","status":-1})); break; }
                            Err(e) => { let _ = tx.send(json!({"r":"err","code":e.code() as i32,"status":-1})); break; } } } });
                        parked.insert(w, rx);
                        json!({"r":"parked"})
                    }
                },
                "next" if parked.contains_key(&w) => {
                    // what the parked watcher has received by now (quiescent point); nothing = still waiting
                    match parked.get_mut(&w).unwrap().try_recv() { Ok(v) => v, Err(tokio::sync::mpsc::error::TryRecvError::Empty) => json!({"r":"pending","status":-1}), Err(_) => json!({"r":"end","status":-1}) }
                }
                "next" => match streams.get_mut(&w) {
                    None => json!({"r":"nostream"}),
                    Some(stm) => match tokio::time::timeout(Duration::from_millis(1), stm.message()).await {
                        Err(_) => json!({"r":"pending","status":-1}),
                        Ok(Ok(Some(m))) => json!({"r":"item","status":m.status}),
                        Ok(Ok(None)) => json!({"r":"end","status":-1}),
                        Ok(Err(e)) => json!({"r":"err","code":e.code() as i32,"status":-1}),
                    },
                },
                _ => json!({"r":"unknown"}),
            };
            log.ev(json!({"e":"op","i":i as u64,"op":op["op"],"s":str_json(&s),"sn":s,"v":op["v"].as_u64().unwrap_or(0),"w":w,"res":res}));
            tokio::time::sleep(Duration::from_millis(1)).await;
        }
    });
}
