//! Balance lab (model Balance.tla): a generated client over Channel::balance_channel with real TCP endpoints on 127.0.0.1.
//! Each server runs on its own tokio runtime so that "down" (shutting that runtime down) closes its listener and every
//! established connection at once, like a crashed process; "up" binds the same port again.
//! Stimulus: {servers: ["a","b"], up0: ["a"], script: [{op:"insert",key,srv}|{op:"remove",key}|{op:"down",srv}|{op:"up",srv}|{op:"call"}]}
//! Events: env{op,key,srv}, call{res:"ok"|"unavailable"|"pending"|"other", by, code}
use crate::labs::call::{build_server, gen::svc::svc_client::SvcClient};
use crate::labs::Rec;
use serde_json::{json, Value};
use std::collections::HashMap;
use std::time::Duration;
use tonic::transport::channel::Change;
use tonic::transport::{Channel, Endpoint};

struct Srv { id: u8, port: u16, rt: Option<tokio::runtime::Runtime>,
    /// Some(path): this server listens on a unix domain socket instead of a TCP port
    uds: Option<String> }

fn start(s: &mut Srv, log: &Rec) -> bool {
    let rt = tokio::runtime::Builder::new_multi_thread().worker_threads(1).enable_all().build().unwrap();
    if let Some(path) = s.uds.clone() {
        let _ = std::fs::remove_file(&path);
        let stim = json!({"server":{"send":[],"accept":[]},"script":{"init_meta":[],"msgs":[[s.id]],"end":{"ok":true},"fail_before":false,"no_compress":false}});
        let svc = build_server(&stim, &Rec::default());
        let l = { let _g = rt.enter(); match tokio::net::UnixListener::bind(&path) { Ok(l) => l, Err(_) => return false } };
        rt.spawn(async move {
            let incoming = tokio_stream::wrappers::UnixListenerStream::new(l);
            let _ = tonic::transport::Server::builder().add_service(svc).serve_with_incoming(incoming).await;
        });
        s.rt = Some(rt);
        return true;
    }
    let addr: std::net::SocketAddr = format!("127.0.0.1:{}", s.port).parse().unwrap();
    let mut listener = None;
    for _ in 0..50 {
        match std::net::TcpListener::bind(addr) { Ok(l) => { listener = Some(l); break } Err(_) => std::thread::sleep(Duration::from_millis(10)) }
    }
    let Some(l) = listener else { return false };
    l.set_nonblocking(true).unwrap();
    s.port = l.local_addr().unwrap().port();
    let stim = json!({"server":{"send":[],"accept":[]},"script":{"init_meta":[],"msgs":[[s.id]],"end":{"ok":true},"fail_before":false,"no_compress":false}});
    let svc = build_server(&stim, &Rec::default());
    let _ = log;
    rt.spawn(async move {
        let l = tokio::net::TcpListener::from_std(l).unwrap();
        let incoming = tokio_stream::wrappers::TcpListenerStream::new(l);
        let _ = tonic::transport::Server::builder().add_service(svc).serve_with_incoming(incoming).await;
    });
    s.rt = Some(rt);
    true
}
fn stop(s: &mut Srv) { if let Some(rt) = s.rt.take() { rt.shutdown_timeout(Duration::from_millis(500)); } if let Some(p) = &s.uds { let _ = std::fs::remove_file(p); } }

pub fn run(stim: &Value, rec: &Rec) {
    let names: Vec<String> = stim["servers"].as_array().cloned().unwrap_or_default().iter().map(|v| v.as_str().unwrap_or("").to_string()).collect();
    let up0: Vec<String> = stim["up0"].as_array().cloned().unwrap_or_default().iter().map(|v| v.as_str().unwrap_or("").to_string()).collect();
    let mut srvs: HashMap<String, Srv> = HashMap::new();
    // every server gets its port by binding once, so that a server that is down still has an address that refuses connections
    for (i, n) in names.iter().enumerate() {
        // stim.uds: the servers listen on unix domain sockets (fresh paths under the system temp directory)
        let uds = if stim["uds"].as_bool().unwrap_or(false) { Some(format!("{}/vh-uds-{}-{}-{}.sock", std::env::temp_dir().display(), std::process::id(), stim["run_tag"].as_u64().unwrap_or(0), n)) } else { None };
        let mut s = Srv { id: i as u8 + 1, port: 0, rt: None, uds };
        if !start(&mut s, rec) { rec.ev(json!({"e":"lab_error","what":"bind"})); return; }
        if !up0.contains(n) { stop(&mut s); }
        srvs.insert(n.clone(), s);
    }
    let by_id: HashMap<u8, String> = srvs.iter().map(|(n, s)| (s.id, n.clone())).collect();
    let script = stim["script"].as_array().cloned().unwrap_or_default();
    let stim_list: Option<Vec<String>> = stim["list"].as_array().map(|a| a.iter().filter_map(|x| x.as_str().map(|s| s.to_string())).collect());
    let rt = tokio::runtime::Builder::new_current_thread().enable_all().build().unwrap();
    let log = rec.clone();
    let stim_uds_srv: String = names.first().cloned().unwrap_or_default();
    let stim_uds: Option<String> = srvs.get(&stim_uds_srv).and_then(|s| s.uds.clone());
    let srvs_cell = std::sync::Arc::new(std::sync::Mutex::new(srvs));
    let sc = srvs_cell.clone();
    rt.block_on(async move {
        // stim.list: the endpoints are given up front to Channel::balance_list (keys k1, k2 in the trace); otherwise balance_channel
        let (ch, tx) = if let Some(path) = stim_uds.as_ref() {
            // a plain (not balanced) lazily connected channel to one unix-socket endpoint; reported as endpoint k1 in the trace
            let ep = Endpoint::try_from(format!("unix://{path}")).unwrap();
            log.ev(json!({"e":"env","op":"insert","key":"k1","srv":stim_uds_srv.clone(),"sent":true}));
            (ep.connect_lazy(), None)
        } else if let Some(list) = stim_list.as_ref() {
            let eps: Vec<Endpoint> = list.iter().map(|srv| { let port = sc.lock().unwrap().get(srv).map(|s| s.port).unwrap_or(1); Endpoint::from_shared(format!("http://127.0.0.1:{port}")).unwrap() }).collect();
            for (i, srv) in list.iter().enumerate() { log.ev(json!({"e":"env","op":"insert","key":format!("k{}", i + 1),"srv":srv,"sent":true})); }
            (Channel::balance_list(eps.into_iter()), None)
        } else { let (ch, tx) = Channel::balance_channel::<String>(64); (ch, Some(tx)) };
        let cl = SvcClient::new(ch);
        for st in script.iter() {
            let op = st["op"].as_str().unwrap_or("");
            let key = st["key"].as_str().unwrap_or("").to_string();
            let srv = st["srv"].as_str().unwrap_or("").to_string();
            match op {
                "insert" => {
                    let port = sc.lock().unwrap().get(&srv).map(|s| s.port).unwrap_or(1);
                    let ep = Endpoint::from_shared(format!("http://127.0.0.1:{port}")).unwrap();
                    let ok = match tx.as_ref() { Some(tx) => tx.send(Change::Insert(key.clone(), ep)).await.is_ok(), None => false };
                    log.ev(json!({"e":"env","op":"insert","key":key,"srv":srv,"sent":ok}));
                }
                "remove" => { let ok = match tx.as_ref() { Some(tx) => tx.send(Change::Remove(key.clone())).await.is_ok(), None => false }; log.ev(json!({"e":"env","op":"remove","key":key,"srv":"-","sent":ok})); }
                "down" | "up" => {
                    let sc2 = sc.clone(); let srv2 = srv.clone(); let up = op == "up"; let log2 = log.clone();
                    let ok = tokio::task::spawn_blocking(move || { let mut g = sc2.lock().unwrap(); match g.get_mut(&srv2) { Some(s) => if up { start(s, &log2) } else { stop(s); true }, None => false } }).await.unwrap_or(false);
                    // let the client's connection tasks see the closed sockets before the next step
                    tokio::time::sleep(Duration::from_millis(30)).await;
                    log.ev(json!({"e":"env","op":op,"key":"","srv":srv,"sent":ok}));
                }
                _ => {
                    let mut c2 = cl.clone();
                    // a call that should be answered gets 20 s of real time (a loaded machine must not look like a hang); once one call of a run
                    // has hung the rest of the script is not played
                    let expect_pending = st["expect_pending"].as_bool().unwrap_or(false);
                    let r = tokio::time::timeout(Duration::from_millis(if expect_pending { 250 } else { 20000 }), c2.unary(tonic::Request::new(vec![1u8]))).await;
                    match r {
                        Err(_) => { log.ev(json!({"e":"call","res":"pending","by":"-","code":-1})); if !expect_pending { break; } }
                        Ok(Ok(resp)) => { let id = resp.into_inner().first().copied().unwrap_or(0); log.ev(json!({"e":"call","res":"ok","by":by_id.get(&id).cloned().unwrap_or("?".into()),"code":0})); }
                        Ok(Err(s)) => log.ev(json!({"e":"call","res": if s.code() == tonic::Code::Unavailable { "unavailable" } else { "other" },"by":"-","code":s.code() as i32,"msg":s.message()})),
                    }
                }
            }
        }
        drop(tx);
    });
    let mut g = srvs_cell.lock().unwrap();
    for (_, s) in g.iter_mut() { stop(s); }
}
