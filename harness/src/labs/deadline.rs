//! Deadline lab (C09, codec part): grpc-timeout encoding by Request::set_timeout and parsing by the server's
//! private parser (hook tonic::transport::verif_hooks::parse_grpc_timeout).
//! Durations are exchanged as decimal digit arrays of *nanoseconds* (TLC integers are 32-bit).
//! Stimulus: {kind:"encode", secs:[digits], nanos:n} | {kind:"parse", value:[bytes]}
use crate::labs::Rec;
use crate::util::*;
use rand::{Rng, SeedableRng};
use serde_json::{json, Value};
use std::time::Duration;

fn digits_of(n: u128) -> Vec<u8> { n.to_string().bytes().map(|b| b - b'0').collect() }
fn u64_of(d: &Value) -> u64 { d.as_array().map(|a| a.iter().fold(0u64, |acc, x| acc.saturating_mul(10).saturating_add(x.as_u64().unwrap_or(0)))).unwrap_or(0) }

pub fn run(stim: &Value, rec: &Rec) {
    match stim["kind"].as_str().unwrap_or("") {
        "encode" => {
            let d = Duration::new(u64_of(&stim["secs"]), stim["nanos"].as_u64().unwrap_or(0) as u32);
            let mut r = tonic::Request::new(());
            // stim.prior_ms: the request already had a timeout (a default set by a helper) which this call replaces
            if let Some(ms) = stim["prior_ms"].as_u64() { r.set_timeout(Duration::from_millis(ms)); }
            r.set_timeout(d);
            let v = r.metadata().get("grpc-timeout").map(|v| v.as_bytes().to_vec()).unwrap_or_default();
            let n = r.metadata().get_all("grpc-timeout").iter().count();
            rec.ev(json!({"e":"enc","value":bytes_json(&v),"count":n as u64,"nanos_total":digits_of(d.as_nanos())}));
            // and what the server-side parser makes of the encoder's own output
            let mut h = http::HeaderMap::new();
            h.insert("grpc-timeout", http::HeaderValue::from_bytes(&v).unwrap());
            match tonic::transport::verif_hooks::parse_grpc_timeout(&h) {
                Ok(Some(p)) => rec.ev(json!({"e":"parsed","k":"some","nanos_total":digits_of(p.as_nanos())})),
                Ok(None) => rec.ev(json!({"e":"parsed","k":"none","nanos_total":[0]})),
                Err(()) => rec.ev(json!({"e":"parsed","k":"err","nanos_total":[0]})),
            }
        }
        "parse" => {
            let mut h = http::HeaderMap::new();
            match http::HeaderValue::from_bytes(&json_bytes(&stim["value"])) {
                Ok(v) => { h.insert("grpc-timeout", v); }
                Err(_) => { rec.ev(json!({"e":"parsed","k":"unsendable","nanos_total":[0]})); return; }
            }
            if stim["extra_header"].as_bool().unwrap_or(false) { h.insert("x-other", "1".parse().unwrap()); }
            match tonic::transport::verif_hooks::parse_grpc_timeout(&h) {
                Ok(Some(p)) => rec.ev(json!({"e":"parsed","k":"some","nanos_total":digits_of(p.as_nanos())})),
                Ok(None) => rec.ev(json!({"e":"parsed","k":"none","nanos_total":[0]})),
                Err(()) => rec.ev(json!({"e":"parsed","k":"err","nanos_total":[0]})),
            }
        }
        "absent" => {
            let h = http::HeaderMap::new();
            match tonic::transport::verif_hooks::parse_grpc_timeout(&h) {
                Ok(None) => rec.ev(json!({"e":"parsed","k":"none","nanos_total":[0]})),
                Ok(Some(p)) => rec.ev(json!({"e":"parsed","k":"some","nanos_total":digits_of(p.as_nanos())})),
                Err(()) => rec.ev(json!({"e":"parsed","k":"err","nanos_total":[0]})),
            }
        }
        k => panic!("deadline lab: unknown kind {k}"),
    }
}

pub fn gen(seed: u64, tier: &str) -> Vec<Value> {
    let mut rng = rand::rngs::StdRng::seed_from_u64(seed ^ 0xC09);
    let mut out = vec![];
    let n = if tier == "thorough" { 20000 } else { 2500 };
    // durations uniform in digit count (1..21 digits of nanoseconds, capped at 99 999 999 hours)
    let max_ns: u128 = 99_999_999u128 * 3600 * 1_000_000_000;
    for _ in 0..n {
        let nd = rng.gen_range(1..=21);
        let mut v: u128 = 0;
        for i in 0..nd { let d = if i == 0 { rng.gen_range(1..10) } else { match rng.gen_range(0..4) { 0 => 0, 1 => 9, _ => rng.gen_range(0..10) } }; v = v * 10 + d as u128; }
        let v = v.min(max_ns);
        out.push(json!({"kind":"encode","class":"random_duration","secs":digits_of(v / 1_000_000_000),"nanos":(v % 1_000_000_000) as u64}));
        if out.len() % 3 == 0 { let k = out.len(); out.last_mut().unwrap()["prior_ms"] = json!([60_000u64, 1, 0, 3_600_000][(k / 3) % 4]); }
    }
    // hostile / arbitrary header strings
    let units = b"HMSmunhsUN x.";
    for _ in 0..n {
        let nd = rng.gen_range(0..11);
        let mut v: Vec<u8> = (0..nd).map(|_| match rng.gen_range(0..12) { 0 => b' ', 1 => b'+', 2 => b'-', 3 => b'.', 4 => rng.gen_range(0x21..0x7f), _ => rng.gen_range(b'0'..=b'9') }).collect();
        if rng.gen_bool(0.9) { v.push(units[rng.gen_range(0..units.len())]); }
        if rng.gen_bool(0.03) { v.push(0xe9); }
        out.push(json!({"kind":"parse","class":"arbitrary_header","value":bytes_json(&v),"extra_header":rng.gen_bool(0.3)}));
    }
    // values that are valid UTF-8 but not ASCII: every prefix shape x a multi-byte character at the end, in the middle, alone
    for pre in ["", "5", "12", "99999999", "1S", " "] { for tail in ["µ", "€", "é", "日", "\u{1F600}", "ｍ", "µS", "éS", "S\u{0301}"] {
        let mut v = pre.as_bytes().to_vec(); v.extend_from_slice(tail.as_bytes());
        out.push(json!({"kind":"parse","class":"utf8_header","value":bytes_json(&v),"extra_header":false}));
    } }
    // and bytes that are not UTF-8 at all
    for v in [vec![0xb5u8], vec![b'5', 0xb5], vec![b'5', 0xc2], vec![0xff, b'S'], vec![b'1', 0x80, b'S']] {
        out.push(json!({"kind":"parse","class":"non_utf8_header","value":bytes_json(&v),"extra_header":false}));
    }
    out.push(json!({"kind":"absent","class":"absent"}));
    out
}
