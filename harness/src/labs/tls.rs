//! TLS lab (C15): real rustls handshakes between a tonic client and a tonic server over an in-memory pipe.
//! Stimulus: {roots:"right"|"other"|"none", name:"match"|"mismatch"|"uri_match"|"uri_mismatch", alpn:"h2"|"none"|"http/1.1",
//!            assume_http2: bool, client_auth:"none"|"required"|"optional", identity:"none"|"valid"|"other_ca", tls_cfg: bool}
use crate::labs::call::gen::svc::{svc_client::SvcClient, svc_server::{Svc, SvcServer}};
use crate::labs::Rec;
use crate::shim::Shim;
use crate::util::*;
use serde_json::{json, Value};
use std::pin::Pin;
use std::sync::{Arc, Mutex};
use std::task::{Context, Poll};
use std::time::Duration;
use tokio::io::{AsyncRead, AsyncWrite, ReadBuf};
use tokio_rustls::rustls;
use tonic::transport::{Certificate, ClientTlsConfig, Identity, ServerTlsConfig};
use tonic::{Request, Response, Status, Streaming};

const D: &str = "/verif/tls-data";
fn pem(n: &str) -> Vec<u8> { std::fs::read(format!("{D}/{n}")).unwrap_or_else(|_| panic!("missing {D}/{n}")) }

/// records the first bytes the client writes (is it a TLS ClientHello or plaintext HTTP/2?)
struct TapIo { inner: Shim, first: Arc<Mutex<Vec<u8>>> }
impl AsyncRead for TapIo { fn poll_read(mut self: Pin<&mut Self>, cx: &mut Context<'_>, b: &mut ReadBuf<'_>) -> Poll<std::io::Result<()>> { Pin::new(&mut self.inner).poll_read(cx, b) } }
impl AsyncWrite for TapIo {
    fn poll_write(mut self: Pin<&mut Self>, cx: &mut Context<'_>, d: &[u8]) -> Poll<std::io::Result<usize>> {
        let r = Pin::new(&mut self.inner).poll_write(cx, d);
        if let Poll::Ready(Ok(n)) = r { let mut f = self.first.lock().unwrap(); if f.len() < 24 { let k = (24 - f.len()).min(n); f.extend_from_slice(&d[..k]); } }
        r
    }
    fn poll_flush(mut self: Pin<&mut Self>, cx: &mut Context<'_>) -> Poll<std::io::Result<()>> { Pin::new(&mut self.inner).poll_flush(cx) }
    fn poll_shutdown(mut self: Pin<&mut Self>, cx: &mut Context<'_>) -> Poll<std::io::Result<()>> { Pin::new(&mut self.inner).poll_shutdown(cx) }
}

#[derive(Clone)]
struct H { log: Rec }
type BoxStream = Pin<Box<dyn tokio_stream::Stream<Item = Result<Vec<u8>, Status>> + Send>>;
#[tonic::async_trait]
impl Svc for H {
    async fn unary(&self, r: Request<Vec<u8>>) -> Result<Response<Vec<u8>>, Status> {
        // two accessors of the same thing: Request::peer_certs() and the TlsConnectInfo extension
        let via_ext = r.extensions().get::<tonic::transport::server::TlsConnectInfo<tonic::transport::server::TcpConnectInfo>>().and_then(|i| i.peer_certs());
        let ext_n = via_ext.as_ref().map(|c| c.len() as i64).unwrap_or(-1);
        let certs = r.peer_certs();
        // one small digest per certificate shown to the handler, in order (the driver computes the same digests from the PEM files)
        let digests: Vec<u64> = certs.as_ref().map(|c| c.iter().map(|d| d.as_ref().iter().enumerate().fold(0u64, |a, (i, b)| (a + (i as u64 % 251 + 1) * *b as u64) % 1_000_003)).collect()).unwrap_or_default();
        self.log.ev(json!({"e":"handler","peer_certs": certs.as_ref().map(|c| c.len() as i64).unwrap_or(-1), "ext_certs": ext_n, "peer_digests": digests}));
        Ok(Response::new(vec![1]))
    }
    async fn cstream(&self, _r: Request<Streaming<Vec<u8>>>) -> Result<Response<Vec<u8>>, Status> { Err(Status::unimplemented("")) }
    type SStreamStream = BoxStream;
    async fn sstream(&self, _r: Request<Vec<u8>>) -> Result<Response<BoxStream>, Status> { Err(Status::unimplemented("")) }
    type BidiStream = BoxStream;
    async fn bidi(&self, _r: Request<Streaming<Vec<u8>>>) -> Result<Response<BoxStream>, Status> { Err(Status::unimplemented("")) }
}

fn manual_server_config(stim: &Value) -> Arc<rustls::ServerConfig> {
    use rustls::pki_types::{pem::PemObject, CertificateDer, PrivateKeyDer};
    let certs: Vec<CertificateDer<'static>> = CertificateDer::pem_slice_iter(&pem("server.pem")).map(|c| c.unwrap()).collect();
    let key = PrivateKeyDer::from_pem_slice(&pem("server.key")).unwrap();
    let provider = Arc::new(rustls::crypto::ring::default_provider());
    let b = rustls::ServerConfig::builder_with_provider(provider.clone()).with_safe_default_protocol_versions().unwrap();
    let b = match stim["client_auth"].as_str().unwrap_or("none") {
        "none" => b.with_no_client_auth(),
        mode => {
            let mut roots = rustls::RootCertStore::empty();
            for c in CertificateDer::pem_slice_iter(&pem("ca_c.pem")) { roots.add(c.unwrap()).unwrap(); }
            let vb = rustls::server::WebPkiClientVerifier::builder_with_provider(Arc::new(roots), provider);
            let v = if mode == "optional" { vb.allow_unauthenticated().build().unwrap() } else { vb.build().unwrap() };
            b.with_client_cert_verifier(v)
        }
    };
    let mut cfg = b.with_single_cert(certs, key).unwrap();
    cfg.alpn_protocols = match stim["alpn"].as_str().unwrap_or("h2") { "http/1.1" => vec![b"http/1.1".to_vec()], "h2" => vec![b"h2".to_vec()], _ => vec![] };
    Arc::new(cfg)
}

/// stim.second_alpn: two connections from ONE Endpoint.  The first goes to a server that negotiates h2 (full handshake, session
/// tickets issued, one call made); the second to a server that shares the first one's session store - so the handshake may be
/// resumed - and negotiates `second_alpn` ("h2" | "none" | "http/1.1").  What h2 requirement applies to a connection does not depend
/// on how its handshake was abbreviated.  Events: "handler" per request, "client" (first connection), "client2" (second, with
/// "resumed": what the second server saw).
fn run_two(stim: &Value, rec: &Rec) {
    let log = rec.clone();
    let stim = stim.clone();
    block_on_paused(async move {
        let base = manual_server_config(&json!({"alpn":"h2","client_auth":"none"}));
        let mut second = (*base).clone();      // same session storage / ticketer (they are Arcs inside the config)
        second.alpn_protocols = match stim["second_alpn"].as_str().unwrap_or("none") { "http/1.1" => vec![b"http/1.1".to_vec()], "h2" => vec![b"h2".to_vec()], _ => vec![] };
        let cfgs = [base, Arc::new(second)];
        // stim.second_client_auth = "required": both servers are built by tonic itself (ServerTlsConfig), the first without client
        // authentication, the second requiring a certificate of the client CA: two configurations of one process share nothing that
        // would let a session of the first be resumed on the second
        let tonic_built = stim["second_client_auth"].as_str() == Some("required");
        let t = ClientTlsConfig::new().ca_certificate(Certificate::from_pem(pem("ca_a.pem"))).domain_name("good.test").assume_http2(stim["assume_http2"].as_bool().unwrap_or(false));
        let ep = match tonic::transport::Endpoint::from_static("https://good.test").tls_config(t) { Ok(e) => e, Err(e) => { log.ev(json!({"e":"client","connect":"config_err","call":"none","code":-1,"msg":e.to_string()})); return; } };
        let first = Arc::new(Mutex::new(vec![]));
        for (round, cfg) in cfgs.iter().enumerate() {
            let (c_io, s_io, _d) = Shim::pair(65536, 65536, 65536, 0);
            let acceptor = tokio_rustls::TlsAcceptor::from(cfg.clone());
            let svc = SvcServer::new(H { log: log.clone() });
            let resumed = Arc::new(Mutex::new(None::<bool>));
            let resumed2 = resumed.clone();
            let log2 = log.clone();
            let srv = if tonic_built {
                let mut t = ServerTlsConfig::new().identity(Identity::from_pem(pem("server.pem"), pem("server.key")));
                if round == 1 { t = t.client_ca_root(Certificate::from_pem(pem("ca_c.pem"))); }
                let incoming = tokio_stream::StreamExt::chain(tokio_stream::once(Ok::<_, std::io::Error>(s_io)), tokio_stream::pending());
                tokio::spawn(async move { if let Ok(mut b) = tonic::transport::Server::builder().tls_config(t) { let _ = b.add_service(svc).serve_with_incoming(incoming).await; } })
            } else { tokio::spawn(async move {
                match acceptor.accept(s_io).await {
                    Ok(tls) => {
                        *resumed2.lock().unwrap() = Some(tls.get_ref().1.handshake_kind() == Some(rustls::HandshakeKind::Resumed));
                        let incoming = tokio_stream::StreamExt::chain(tokio_stream::once(Ok::<_, std::io::Error>(tls)), tokio_stream::pending());
                        let _ = tonic::transport::Server::builder().add_service(svc).serve_with_incoming(incoming).await; }
                    Err(e) => log2.ev(json!({"e":"server_handshake_failed","msg":e.to_string()})),
                }
            }) };
            let mut slot = Some(TapIo { inner: c_io, first: first.clone() });
            let ch = tokio::time::timeout(Duration::from_secs(30), ep.connect_with_connector(tower::service_fn(move |_: http::Uri| { let io = slot.take(); async move { io.map(hyper_util::rt::TokioIo::new).ok_or_else(|| std::io::Error::other("gone")) } }))).await;
            let (connect, call, code) = match ch {
                Err(_) => ("hang", "none", -1),
                Ok(Err(_)) => ("err", "none", -1),
                Ok(Ok(ch)) => {
                    let mut cl = SvcClient::new(ch);
                    match tokio::time::timeout(Duration::from_secs(30), cl.unary(Request::new(vec![7]))).await {
                        Err(_) => ("ok", "hang", -1), Ok(Ok(_)) => ("ok", "ok", 0), Ok(Err(s)) => ("ok", "err", s.code() as i32) }
                }
            };
            tokio::time::sleep(Duration::from_millis(2)).await;
            let f = first.lock().unwrap().clone();
            let kind = if f.is_empty() { "none" } else if f.len() >= 3 && f[0] == 0x16 && f[1] == 0x03 { "tls_client_hello" } else if f.starts_with(b"PRI * HTTP/2") { "plaintext_h2" } else { "other" };
            let r = *resumed.lock().unwrap();
            log.ev(json!({"e": if round == 0 { "client" } else { "client2" },"connect":connect,"call":call,"code":code,"first_bytes":kind,"resumed":r.unwrap_or(false)}));
            srv.abort();
            first.lock().unwrap().clear();
        }
    });
}

/// stim.balance_tls: a load-balanced channel (Channel::balance_list) over two https endpoints on loopback TCP, in real time.  Both servers
/// present the certificate for good.test; endpoint A expects good.test (valid), endpoint B expects `b_domain` - each endpoint of a
/// balanced channel is authenticated by its own TLS settings.  Event: {"e":"balance_tls","a_hits","b_hits","ok_calls"}.
#[derive(Clone)]
struct Counting { hits: Arc<std::sync::atomic::AtomicU64> }
#[tonic::async_trait]
impl Svc for Counting {
    async fn unary(&self, _r: Request<Vec<u8>>) -> Result<Response<Vec<u8>>, Status> { self.hits.fetch_add(1, std::sync::atomic::Ordering::SeqCst); Ok(Response::new(vec![1])) }
    async fn cstream(&self, _r: Request<Streaming<Vec<u8>>>) -> Result<Response<Vec<u8>>, Status> { Err(Status::unimplemented("")) }
    type SStreamStream = BoxStream;
    async fn sstream(&self, _r: Request<Vec<u8>>) -> Result<Response<BoxStream>, Status> { Err(Status::unimplemented("")) }
    type BidiStream = BoxStream;
    async fn bidi(&self, _r: Request<Streaming<Vec<u8>>>) -> Result<Response<BoxStream>, Status> { Err(Status::unimplemented("")) }
}
fn run_balance_tls(stim: &Value, rec: &Rec) {
    let b_domain = stim["b_domain"].as_str().unwrap_or("wrong.test").to_string();
    let rt = tokio::runtime::Builder::new_multi_thread().worker_threads(2).enable_all().build().unwrap();
    let log = rec.clone();
    rt.block_on(async move {
        let mut hits = vec![]; let mut addrs = vec![]; let mut servers = vec![];
        for _ in 0..2 {
            let l = tokio::net::TcpListener::bind("127.0.0.1:0").await.expect("loopback port");
            addrs.push(l.local_addr().unwrap());
            let h = Arc::new(std::sync::atomic::AtomicU64::new(0)); hits.push(h.clone());
            let cfg = ServerTlsConfig::new().identity(Identity::from_pem(pem("server.pem"), pem("server.key")));
            servers.push(tokio::spawn(async move {
                let _ = tonic::transport::Server::builder().tls_config(cfg).expect("tls").add_service(SvcServer::new(Counting { hits: h }))
                    .serve_with_incoming(tokio_stream::wrappers::TcpListenerStream::new(l)).await;
            }));
        }
        let ep = |addr: std::net::SocketAddr, domain: &str| tonic::transport::Endpoint::from_shared(format!("https://{addr}")).unwrap()
            .tls_config(ClientTlsConfig::new().ca_certificate(Certificate::from_pem(pem("ca_a.pem"))).domain_name(domain)).expect("client tls")
            .connect_timeout(Duration::from_secs(3));
        let ch = tonic::transport::Channel::balance_list(vec![ep(addrs[0], "good.test"), ep(addrs[1], &b_domain)].into_iter());
        let mut cl = SvcClient::new(ch);
        let mut ok = 0u64;
        for _ in 0..30 {
            if let Ok(Ok(_)) = tokio::time::timeout(Duration::from_secs(5), cl.unary(Request::new(vec![7]))).await { ok += 1; }
            tokio::time::sleep(Duration::from_millis(5)).await;
        }
        log.ev(json!({"e":"balance_tls","a_hits":hits[0].load(std::sync::atomic::Ordering::SeqCst),"b_hits":hits[1].load(std::sync::atomic::Ordering::SeqCst),"ok_calls":ok}));
        for s in servers { s.abort(); }
    });
}

pub fn run(stim: &Value, rec: &Rec) {
    if stim["balance_tls"].as_bool().unwrap_or(false) { return run_balance_tls(stim, rec); }
    if stim["second_alpn"].is_string() { return run_two(stim, rec); }
    let log = rec.clone();
    let stim = stim.clone();
    block_on_paused(async move {
        let (c_io, s_io, _d) = Shim::pair(65536, 65536, 65536, 0);
        let first = Arc::new(Mutex::new(vec![]));
        let svc = SvcServer::new(H { log: log.clone() });
        // ---- server
        if stim["alpn"].as_str().unwrap_or("h2") == "h2" {
            // stim.order = "rev": the builder methods are called in the opposite order (identity last on the server; identity, name, roots,
            // assume_http2 on the client) - the order of builder calls must not matter
            let rev = stim["order"].as_str() == Some("rev");
            let mut cfg = if rev { ServerTlsConfig::new() } else { ServerTlsConfig::new().identity(Identity::from_pem(pem("server.pem"), pem("server.key"))) };
            // client_ca: "proper" (default), "empty" (no PEM section at all) or "key_only" (a private key where the CA should be)
            let ca: Vec<u8> = match stim["client_ca"].as_str().unwrap_or("proper") { "empty" => b"# no certificate here\n".to_vec(), "key_only" => pem("client_c.key"),
                _ => match stim["client_ca_form"].as_str().unwrap_or("single") {
                    "bundle_last" => { let mut v = pem("ca_a.pem"); v.push(b'\n'); v.extend(pem("ca_c.pem")); v }      // CA a issues no client certificate
                    "bundle_first" => { let mut v = pem("ca_c.pem"); v.push(b'\n'); v.extend(pem("ca_a.pem")); v }
                    _ => pem("ca_c.pem") } };
            match stim["client_auth"].as_str().unwrap_or("none") { "none" => {}, mode => { // stim.leave_default: a server that requires client certificates does not say so explicitly (required is the documented default)
                cfg = if mode == "required" && stim["leave_default"].as_bool().unwrap_or(false) { cfg.client_ca_root(Certificate::from_pem(ca)) }
                      else if rev { cfg.client_auth_optional(mode == "optional").client_ca_root(Certificate::from_pem(ca)) } else { cfg.client_ca_root(Certificate::from_pem(ca)).client_auth_optional(mode == "optional") }; } }
            if rev { cfg = cfg.identity(Identity::from_pem(pem("server.pem"), pem("server.key"))); }
            // stim.accept_error_first: the listener reports a fatal accept error (EMFILE) before the connection under test arrives: the
            // server keeps serving, and what it serves is still TLS
            let mut items = vec![];
            if stim["accept_error_first"].as_bool().unwrap_or(false) { items.push(Err::<crate::shim::Shim, std::io::Error>(std::io::Error::from_raw_os_error(24))); }
            items.push(Ok(s_io));
            let incoming = tokio_stream::StreamExt::chain(tokio_stream::iter(items), tokio_stream::pending());
            let log3 = log.clone();
            tokio::spawn(async move {
                match tonic::transport::Server::builder().tls_config(cfg) {
                    Ok(mut b) => { let _ = b.add_service(svc).serve_with_incoming(incoming).await; }
                    Err(e) => { log3.ev(json!({"e":"server_config_rejected","msg":e.to_string()})); drop(incoming); }
                }
            });
        } else {
            let acceptor = tokio_rustls::TlsAcceptor::from(manual_server_config(&stim));
            let log2 = log.clone();
            tokio::spawn(async move {
                match acceptor.accept(s_io).await {
                    Ok(tls) => { let incoming = tokio_stream::StreamExt::chain(tokio_stream::once(Ok::<_, std::io::Error>(tls)), tokio_stream::pending());
                        let _ = tonic::transport::Server::builder().add_service(svc).serve_with_incoming(incoming).await; }
                    Err(e) => log2.ev(json!({"e":"server_handshake_failed","msg":e.to_string()})),
                }
            });
        }
        // ---- client
        let uri = match stim["name"].as_str().unwrap_or("match") { "uri_mismatch" => "https://other.test", _ => "https://good.test" };
        let mut ep = tonic::transport::Endpoint::from_static(uri);
        // origin override ("good_before" | "good_after" | "bad_before" | "bad_after"): host that does / does not match the certificate,
        // set before or after tls_config; it names the :authority of requests and plays no part in authenticating the peer
        let origin = stim["origin"].as_str().unwrap_or("none").to_string();
        let origin_uri: Option<http::Uri> = if origin.starts_with("good") { Some("https://good.test".parse().unwrap()) } else if origin.starts_with("bad") { Some("https://wrong.test".parse().unwrap()) } else { None };
        if origin.ends_with("_before") { ep = ep.origin(origin_uri.clone().unwrap()); }
        if stim["tls_cfg"].as_bool().unwrap_or(true) {
            let rev = stim["order"].as_str() == Some("rev");
            let mut t = if rev { ClientTlsConfig::new() } else { ClientTlsConfig::new().assume_http2(stim["assume_http2"].as_bool().unwrap_or(false)) };
            for step in (if rev { ["identity", "name", "roots", "assume"] } else { ["roots", "name", "identity", "none"] }) {
                match step {
                    "roots" => {
            // roots_form: how the trusted root reaches the configuration - alone, or as one of several certificates in one PEM bundle
            let cat = |a: &str, b: &str| { let mut v = pem(a); v.push(b'\n'); v.extend(pem(b)); v };
            match (stim["roots"].as_str().unwrap_or("right"), stim["roots_form"].as_str().unwrap_or("single")) {
                ("right", "bundle_last") => { t = t.ca_certificate(Certificate::from_pem(cat("ca_b.pem", "ca_a.pem"))); }
                ("right", "bundle_first") => { t = t.ca_certificate(Certificate::from_pem(cat("ca_a.pem", "ca_b.pem"))); }
                // list_*: several roots given one by one (ca_certificates / repeated ca_certificate)
                ("right", "list_last") => { t = t.ca_certificates(vec![Certificate::from_pem(pem("ca_b.pem")), Certificate::from_pem(pem("ca_a.pem"))]); }
                ("right", "list_first") => { t = t.ca_certificate(Certificate::from_pem(pem("ca_a.pem"))).ca_certificate(Certificate::from_pem(pem("ca_b.pem"))); }
                ("other", "list_last") | ("other", "list_first") => { t = t.ca_certificates(vec![Certificate::from_pem(pem("ca_b.pem")), Certificate::from_pem(pem("ca_c.pem"))]); }
                ("right", _) => { t = t.ca_certificate(Certificate::from_pem(pem("ca_a.pem"))); }
                ("other", "bundle_last") | ("other", "bundle_first") => { t = t.ca_certificate(Certificate::from_pem(cat("ca_b.pem", "ca_c.pem"))); }
                ("other", _) => { t = t.ca_certificate(Certificate::from_pem(pem("ca_b.pem"))); }
                _ => {} }
                    }
                    "name" => {
            match stim["name"].as_str().unwrap_or("match") { "match" => { t = t.domain_name("good.test"); } "mismatch" => { t = t.domain_name("wrong.test"); } _ => {} }
                    }
                    "identity" => {
            match stim["identity"].as_str().unwrap_or("none") { "valid" => { t = t.identity(Identity::from_pem(pem("client_c.pem"), pem("client_c.key"))); } "other_ca" => { t = t.identity(Identity::from_pem(pem("client_b.pem"), pem("client_b.key"))); }
                // "chain": a leaf issued by a sub-CA of the server's client CA, presented together with that sub-CA's certificate;
                // "chain_leaf_only": the same leaf without the certificate that links it to the trusted CA
                "chain" => { t = t.identity(Identity::from_pem(pem("client_chain.pem"), pem("client_ci.key"))); }
                "chain_leaf_only" => { t = t.identity(Identity::from_pem(pem("client_ci.pem"), pem("client_ci.key"))); } _ => {} }
                    }
                    "assume" => { t = t.assume_http2(stim["assume_http2"].as_bool().unwrap_or(false)); }
                    _ => {}
                }
            }
            match ep.tls_config(t) { Ok(e) => ep = e, Err(e) => { log.ev(json!({"e":"client","connect":"config_err","call":"none","code":-1,"msg":e.to_string()})); return; } }
        }
        if origin.ends_with("_after") { ep = ep.origin(origin_uri.clone().unwrap()); }
        let mut slot = Some(TapIo { inner: c_io, first: first.clone() });
        let ch = tokio::time::timeout(Duration::from_secs(30), ep.connect_with_connector(tower::service_fn(move |_: http::Uri| { let io = slot.take(); async move { io.map(hyper_util::rt::TokioIo::new).ok_or_else(|| std::io::Error::other("gone")) } }))).await;
        let (connect, call, code) = match ch {
            Err(_) => ("hang", "none", -1),
            Ok(Err(_)) => ("err", "none", -1),
            Ok(Ok(ch)) => {
                let mut cl = SvcClient::new(ch);
                match tokio::time::timeout(Duration::from_secs(30), cl.unary(Request::new(vec![7]))).await {
                    Err(_) => ("ok", "hang", -1), Ok(Ok(_)) => ("ok", "ok", 0), Ok(Err(s)) => ("ok", "err", s.code() as i32) }
            }
        };
        tokio::time::sleep(Duration::from_millis(2)).await;
        let f = first.lock().unwrap().clone();
        let kind = if f.is_empty() { "none" } else if f.len() >= 3 && f[0] == 0x16 && f[1] == 0x03 { "tls_client_hello" } else if f.starts_with(b"PRI * HTTP/2") { "plaintext_h2" } else { "other" };
        log.ev(json!({"e":"client","connect":connect,"call":call,"code":code,"first_bytes":kind}));
    });
}
