//! Status lab (C04): status <-> headers, reading arbitrary headers, HTTP and HTTP/2 classification tables.
//! Stimulus kinds:
//!   rt    : {code, msg:[utf8 bytes], details:[..], meta:[{n, bin, v:[..]}]}   add_header then from_header_map
//!   parse : {headers:[{n, v:[..]}]}                                         from_header_map on arbitrary headers
//!   http  : {status}                                                        Streaming over an empty body with that HTTP status
//!   h2    : {reason}                                                        Status::from_error(h2::Error::from(Reason))
use crate::labs::Rec;
use crate::util::*;
use rand::{Rng, SeedableRng};
use serde_json::{json, Value};
use tonic::metadata::{KeyAndValueRef, MetadataKey, MetadataMap, MetadataValue};
use tonic::{Code, Status};

pub fn headers_json(h: &http::HeaderMap) -> Value {
    Value::Array(h.iter().map(|(k, v)| json!({"n": k.as_str(), "nb": bytes_json(k.as_str().as_bytes()), "v": bytes_json(v.as_bytes())})).collect())
}
pub fn meta_json(m: &MetadataMap) -> Value {
    Value::Array(m.iter().map(|kv| match kv {
        KeyAndValueRef::Ascii(k, v) => json!({"n": k.as_str(), "bin": false, "ok": true, "v": bytes_json(v.as_bytes())}),
        KeyAndValueRef::Binary(k, v) => match v.to_bytes() {
            Ok(b) => json!({"n": k.as_str(), "bin": true, "ok": true, "v": bytes_json(&b)}),
            Err(_) => json!({"n": k.as_str(), "bin": true, "ok": false, "v": []}),
        },
    }).collect())
}
pub fn build_meta(spec: &Value) -> (MetadataMap, Vec<Value>) {
    let mut m = MetadataMap::new();
    let mut rejected = vec![];
    for e in spec.as_array().cloned().unwrap_or_default() {
        let name = e["n"].as_str().unwrap_or("");
        let v = json_bytes(&e["v"]);
        if e["bin"].as_bool().unwrap_or(false) {
            match MetadataKey::<tonic::metadata::Binary>::from_bytes(name.as_bytes()) {
                Ok(k) => { m.append_bin(k, MetadataValue::from_bytes(&v)); }
                Err(_) => rejected.push(e.clone()),
            }
        } else {
            match (MetadataKey::<tonic::metadata::Ascii>::from_bytes(name.as_bytes()), MetadataValue::<tonic::metadata::Ascii>::try_from(&v[..])) {
                (Ok(k), Ok(val)) => { m.append(k, val); }
                _ => rejected.push(e.clone()),
            }
        }
    }
    (m, rejected)
}
pub fn status_full_json(s: &Status) -> Value {
    json!({"some": true, "code": s.code() as i32, "msg": str_json(s.message()), "details": bytes_json(s.details()), "meta": meta_json(s.metadata())})
}

pub fn run(stim: &Value, rec: &Rec) {
    match stim["kind"].as_str().unwrap_or("") {
        "rt" => {
            let (meta, rejected) = build_meta(&stim["meta"]);
            let msg = String::from_utf8(json_bytes(&stim["msg"])).expect("stimulus message must be UTF-8");
            // the constructor that fits the stimulus is used in every other run (with_metadata / with_details / new)
            let code = Code::from_i32(stim["code"].as_i64().unwrap() as i32);
            let det = json_bytes(&stim["details"]);
            let alt = stim["alt_ctor"].as_bool().unwrap_or(stim["code"].as_i64().unwrap_or(0) % 2 == 1);
            let st = if alt && det.is_empty() && meta.is_empty() { Status::new(code, msg) }
                     else if alt && det.is_empty() { Status::with_metadata(code, msg, meta) }
                     else if alt && meta.is_empty() { Status::with_details(code, msg, det.into()) }
                     else { Status::with_details_and_metadata(code, msg, det.into(), meta) };
            rec.ev(json!({"e":"built","rejected":rejected}));
            let mut h = http::HeaderMap::new();
            // the other way the same status is written out: the trailers-only response of into_http()
            let resp = { let (meta2, _) = build_meta(&stim["meta"]);
                         Status::with_details_and_metadata(code, st.message().to_string(), st.details().to_vec().into(), meta2).into_http::<http_body_util::Empty<bytes::Bytes>>() };
            match st.add_header(&mut h) {
                Ok(()) => {
                    let mut rh = resp.headers().clone();
                    let ctype: Vec<Value> = rh.get_all("content-type").iter().map(|v| bytes_json(v.as_bytes())).collect();
                    rh.remove("content-type");
                    rec.ev(json!({"e":"written","into_http_same": rh == h, "http_status": resp.status().as_u16(),
                                  "ctype": ctype, "eos": http_body::Body::is_end_stream(resp.body())}));
                    rec.ev(json!({"e":"hdrs","ok":true,"list":headers_json(&h)}));
                    match Status::from_header_map(&h) {
                        Some(p) => rec.ev(json!({"e":"parsed","st":status_full_json(&p)})),
                        None => rec.ev(json!({"e":"parsed","st":{"some":false}})),
                    }
                }
                Err(e) => rec.ev(json!({"e":"hdrs","ok":false,"list":[],"err":status_full_json(&e)})),
            }
        }
        "parse" => {
            let mut h = http::HeaderMap::new();
            let mut skipped = 0;
            for e in stim["headers"].as_array().cloned().unwrap_or_default() {
                match (http::header::HeaderName::from_bytes(e["n"].as_str().unwrap_or("").as_bytes()), http::HeaderValue::from_bytes(&json_bytes(&e["v"]))) {
                    (Ok(n), Ok(v)) => { h.append(n, v); }
                    _ => skipped += 1,
                }
            }
            rec.ev(json!({"e":"input","list":headers_json(&h),"skipped":skipped}));
            match Status::from_header_map(&h) {
                Some(p) => rec.ev(json!({"e":"parsed","st":status_full_json(&p)})),
                None => rec.ev(json!({"e":"parsed","st":{"some":false}})),
            }
        }
        "http" => {
            let code = http::StatusCode::from_u16(stim["status"].as_u64().unwrap() as u16).unwrap();
            let body = http_body_util::Empty::<bytes::Bytes>::new();
            let mut s = tonic::codec::Streaming::<Vec<u8>>::new_response(crate::codec::RawCodec::default(), http_body_util::BodyExt::map_err(body, |e: std::convert::Infallible| -> Status { match e {} }), code, None, None);
            let r = block_on(async { s.message().await });
            match r {
                Ok(None) => rec.ev(json!({"e":"http","r":"end","code":-1})),
                Ok(Some(_)) => rec.ev(json!({"e":"http","r":"msg","code":-1})),
                Err(e) => rec.ev(json!({"e":"http","r":"err","code":e.code() as i32})),
            }
        }
        "h2" => {
            let reason = h2::Reason::from(stim["reason"].as_u64().unwrap() as u32);
            let s1 = Status::from_error(Box::new(h2::Error::from(reason)));
            // the same error buried in a source chain
            #[derive(Debug)]
            struct Wrap(h2::Error);
            impl std::fmt::Display for Wrap { fn fmt(&self, f: &mut std::fmt::Formatter<'_>) -> std::fmt::Result { write!(f, "wrap") } }
            impl std::error::Error for Wrap { fn source(&self) -> Option<&(dyn std::error::Error + 'static)> { Some(&self.0) } }
            let s2 = Status::from_error(Box::new(Wrap(h2::Error::from(reason))));
            rec.ev(json!({"e":"h2","code":s1.code() as i32,"nested":s2.code() as i32}));
        }
        // the same table for a stream that a real peer resets: a bare h2 server answers a call made through a tonic channel with
        // RST_STREAM(reason), before any response headers ("early") or after them ("late"); `code` is what the caller is given
        "h2_remote" => {
            let reason = h2::Reason::from(stim["reason"].as_u64().unwrap() as u32);
            let late = stim["when"].as_str() == Some("late");
            let code = block_on_paused(async move {
                let (c_io, s_io, _d) = crate::shim::Shim::pair(65536, 65536, 65536, 0);
                let srv = tokio::spawn(async move {
                    if let Ok(mut conn) = h2::server::handshake(s_io).await {
                        while let Some(Ok((_req, mut respond))) = conn.accept().await {
                            if late {
                                let head = http::Response::builder().status(200).header("content-type", "application/grpc").body(()).unwrap();
                                if let Ok(mut stream) = respond.send_response(head, false) { stream.send_reset(reason); }
                            } else { respond.send_reset(reason); }
                        }
                    }
                });
                let mut slot = Some(c_io);
                let ch = tonic::transport::Endpoint::from_static("http://peer.test")
                    .connect_with_connector(tower::service_fn(move |_: http::Uri| { let io = slot.take(); async move { io.map(hyper_util::rt::TokioIo::new).ok_or_else(|| std::io::Error::other("gone")) } })).await;
                let code = match ch {
                    Err(_) => -2,
                    Ok(ch) => {
                        let mut cl = crate::labs::call::gen::svc::svc_client::SvcClient::new(ch);
                        match tokio::time::timeout(std::time::Duration::from_secs(30), cl.unary(tonic::Request::new(vec![1u8]))).await { Err(_) => -3, Ok(Ok(_)) => 0, Ok(Err(s)) => s.code() as i32 }
                    }
                };
                srv.abort();
                code
            });
            rec.ev(json!({"e":"h2","code":code,"nested":code}));
        }
        k => panic!("status lab: unknown kind {k}"),
    }
}

fn rand_msg(rng: &mut impl Rng) -> String {
    let alphabet: Vec<&str> = vec!["a", " ", "%", "\"", "#", "<", ">", "`", "?", "{", "}", "~", ":", "\r", "\n", "\t", "\u{7f}", "\u{0}", "é", "€", "😀", "%41", "%zz", "+", "/", "=", "Z"];
    let n = [0usize, 1, 2, 3, 5, 9, 30, 64][rng.gen_range(0..8)];
    if rng.gen_bool(0.3) { (0..n).map(|_| char::from_u32(rng.gen_range(0..0x2ffff)).unwrap_or('x')).collect() }
    else { (0..n).map(|_| alphabet[rng.gen_range(0..alphabet.len())]).collect() }
}
pub fn rand_meta(rng: &mut impl Rng) -> Vec<Value> {
    let names = ["x", "x-bin", "bin", "a-bin-b", "k1", "k2-bin", "te", "user-agent", "content-type", "grpc-status", "grpc-message", "grpc-message-type", "te-bin", "grpc-status-bin"];
    let n = rng.gen_range(0..5);
    (0..n).map(|_| {
        let name = names[rng.gen_range(0..names.len())];
        let bin = name.ends_with("-bin");
        let len = rng.gen_range(0..9);
        let v: Vec<u8> = if bin { (0..len).map(|_| rng.gen()).collect() } else if rng.gen_bool(0.2) { (0..len).map(|_| rng.gen_range(0x80..=0xff)).collect() } else { (0..len).map(|_| rng.gen_range(0x21..0x7f)).collect() };
        json!({"n": name, "bin": bin, "v": bytes_json(&v)})
    }).collect()
}

pub fn gen(seed: u64, tier: &str) -> Vec<Value> {
    let mut rng = rand::rngs::StdRng::seed_from_u64(seed ^ 0xC04);
    let mut out = vec![];
    let n = if tier == "thorough" { 4000 } else { 500 };
    for _ in 0..n {
        let dl = [0usize, 1, 2, 3, 4, 5, 6, 7, 16, 200][rng.gen_range(0..10)];
        out.push(json!({"kind":"rt","class":"random_status","code": rng.gen_range(0..17), "msg": str_json(&rand_msg(&mut rng)),
            "details": bytes_json(&(0..dl).map(|_| rng.gen()).collect::<Vec<u8>>()), "meta": rand_meta(&mut rng)}));
    }
    // hostile header maps
    let statuses: Vec<Vec<u8>> = vec![b"".to_vec(), b"0".to_vec(), b"00".to_vec(), b"7".to_vec(), b"16".to_vec(), b"17".to_vec(), b"-1".to_vec(), b"1e1".to_vec(), b"+1".to_vec(), b" 1".to_vec(), b"1 ".to_vec(), vec![b'9'; 300], vec![0xff, 0xfe], b"2".to_vec(), b"13".to_vec(), b"016".to_vec()];
    let msgs: Vec<Vec<u8>> = vec![b"ok".to_vec(), b"%".to_vec(), b"%4".to_vec(), b"%zz".to_vec(), b"%C3%A9".to_vec(), b"%C3".to_vec(), b"%FF%FE".to_vec(), b"a%20b%25".to_vec(), vec![0xc3, 0xa9], vec![0xff], b"%00".to_vec(), b"".to_vec()];
    let dets: Vec<Vec<u8>> = vec![b"".to_vec(), b"AAID".to_vec(), b"AAI".to_vec(), b"AAI=".to_vec(), b"AA==".to_vec(), b"AA".to_vec(), b"A".to_vec(), b"A===".to_vec(), b"!!!!".to_vec(), b"AA=A".to_vec(), b"AAJ".to_vec(), b"AB".to_vec(), b"AA I".to_vec(), b"=".to_vec(), vec![0xff, 0x41], b"AAIDAA==".to_vec(), b"AAID====".to_vec()];
    // sweep of the grpc-status value itself: every 1-byte value, and every 2-byte value whose first byte is one a decimal
    // code can start with (or a near miss); thorough: every 2-byte value
    let legal = |b: u8| b == 9 || (32..=126).contains(&b) || b >= 128;
    let firsts: Vec<u8> = if tier == "thorough" { (0..=255u8).filter(|b| legal(*b)).collect() } else { vec![b'0', b'1', b'2', b'9', b' ', b'-', b'+', b'/', b':'] };
    for b in (0..=255u8).filter(|b| legal(*b)) { out.push(json!({"kind":"parse","class":"status_value_sweep","headers":[{"n":"grpc-status","v":bytes_json(&[b])}]})); }
    for a in firsts.iter() { for b in (0..=255u8).filter(|b| legal(*b)) {
        out.push(json!({"kind":"parse","class":"status_value_sweep","headers":[{"n":"grpc-status","v":bytes_json(&[*a, b])},{"n":"grpc-message","v":bytes_json(b"m")}]}));
    } }
    for _ in 0..200 { let v: Vec<u8> = (0..3).map(|_| b"0123456789 +-./:&"[rng.gen_range(0..17)]).collect();
        out.push(json!({"kind":"parse","class":"status_value_sweep","headers":[{"n":"grpc-status","v":bytes_json(&v)}]})); }
    // shape sweeps: every grpc-message over {'%', hex digit, non-hex letter, space, the two bytes of U+00E9} up to length 4
    // (thorough 5), every grpc-status-details-bin over {'A', '=', '!', ' '} up to length 5 (thorough 6)
    {
        fn words(alpha: &[u8], max: usize) -> Vec<Vec<u8>> { let mut all = vec![vec![]]; let mut last = vec![vec![]];
            for _ in 0..max { let mut next = vec![]; for w in &last { for a in alpha { let mut x: Vec<u8> = w.clone(); x.push(*a); next.push(x); } } all.extend(next.clone()); last = next; } all }
        for w in words(&[b'%', b'A', b'z', b' ', 0xC3, 0xA9], if tier == "thorough" { 5 } else { 4 }) {
            out.push(json!({"kind":"parse","class":"message_shape_sweep","headers":[{"n":"grpc-status","v":bytes_json(b"3")},{"n":"grpc-message","v":bytes_json(&w)}]}));
        }
        for w in words(&[b'A', b'=', b'!', b' '], if tier == "thorough" { 6 } else { 5 }) {
            out.push(json!({"kind":"parse","class":"details_shape_sweep","headers":[{"n":"grpc-status","v":bytes_json(b"3")},{"n":"grpc-status-details-bin","v":bytes_json(&w)}]}));
        }
    }
    let m = if tier == "thorough" { 3000 } else { 600 };
    for _ in 0..m {
        let mut hs = vec![];
        let present = rng.gen_range(0..8);
        if present != 0 { hs.push(json!({"n":"grpc-status","v":bytes_json(&statuses[rng.gen_range(0..statuses.len())])})); }
        if rng.gen_bool(0.6) { hs.push(json!({"n":"grpc-message","v":bytes_json(&msgs[rng.gen_range(0..msgs.len())])})); }
        if rng.gen_bool(0.6) { hs.push(json!({"n":"grpc-status-details-bin","v":bytes_json(&dets[rng.gen_range(0..dets.len())])})); }
        if rng.gen_bool(0.15) { hs.push(json!({"n":"grpc-status","v":bytes_json(&statuses[rng.gen_range(0..statuses.len())])})); }
        if rng.gen_bool(0.3) { hs.push(json!({"n":"x-extra","v":bytes_json(b"v")})); }
        if rng.gen_bool(0.2) { hs.push(json!({"n":"y-bin","v":bytes_json(b"!notbase64")})); }
        // shuffle
        for i in (1..hs.len()).rev() { let j = rng.gen_range(0..=i); hs.swap(i, j); }
        out.push(json!({"kind":"parse","class":"hostile_headers","headers":hs}));
    }
    for s in 100..600u32 { out.push(json!({"kind":"http","class":"http_table","status":s})); }
    for r in (0..21u32).chain([255u32, 1000, 0x7fffffff].into_iter()) { out.push(json!({"kind":"h2","class":"h2_table","reason":r})); }
    for r in 0..14u32 { for when in ["early", "late"] { out.push(json!({"kind":"h2_remote","class":"h2_remote_reset","reason":r,"when":when})); } }
    out
}
