//! Interceptor lab (C12): an http request goes through InterceptedService(inner); the inner service records
//! what it receives. Stimulus: {req:{method, version, uri, headers:[{n,v}], ext_a, body:[..]},
//!   actions:[{op:"insert"|"append"|"remove"|"insert_bin"|"append_bin"|"ext"|"ext_remove"|"ext_replace"|"fresh"|"reject", n, v, code, msg, details, meta}]}
use crate::labs::status::{build_meta, headers_json};
use crate::labs::Rec;
use crate::util::*;
use bytes::Bytes;
use http_body_util::BodyExt;
use rand::{Rng, SeedableRng};
use serde_json::{json, Value};
use tonic::body::Body;
use tonic::metadata::{Ascii, Binary, MetadataKey, MetadataValue};
use tonic::service::interceptor::InterceptedService;
use tonic::{Code, Status};
use tower::{Service, ServiceExt};

#[derive(Clone)] struct ExtA(u32);
#[derive(Clone)] struct ExtB(u32);

pub fn run(stim: &Value, rec: &Rec) {
    let log = rec.clone();
    let inner = tower::service_fn(move |req: http::Request<Body>| {
        let log = log.clone();
        async move {
            let (p, b) = req.into_parts();
            let body = b.collect().await.map(|c| c.to_bytes()).unwrap_or_default();
            log.ev(json!({"e":"inner_req","method":p.method.as_str(),"version":format!("{:?}", p.version),"uri":str_json(&p.uri.to_string()),
                "list":headers_json(&p.headers),"ext_a":p.extensions.get::<ExtA>().map(|x| x.0 as i64).unwrap_or(-1),
                "ext_b":p.extensions.get::<ExtB>().map(|x| x.0 as i64).unwrap_or(-1),"body":bytes_json(&body)}));
            let resp = http::Response::builder().status(200).header("x-inner", "1").body(Body::new(http_body_util::Full::new(Bytes::from_static(b"inner")))).unwrap();
            Ok::<_, std::convert::Infallible>(resp)
        }
    });
    let actions = stim["actions"].as_array().cloned().unwrap_or_default();
    let log2 = rec.clone();
    let icpt = move |mut r: tonic::Request<()>| -> Result<tonic::Request<()>, Status> {
        let mut applied = vec![];
        let mut verdict: Option<Status> = None;
        let saw_ext_a = r.extensions().get::<ExtA>().map(|x| x.0 as i64).unwrap_or(-1);      // what the interceptor was given
        for a in &actions {
            let n = a["n"].as_str().unwrap_or("");
            let v = json_bytes(&a["v"]);
            let ok = match a["op"].as_str().unwrap_or("") {
                "insert" => match (MetadataKey::<Ascii>::from_bytes(n.as_bytes()), MetadataValue::<Ascii>::try_from(&v[..])) { (Ok(k), Ok(val)) => { r.metadata_mut().insert(k, val); true } _ => false },
                "append" => match (MetadataKey::<Ascii>::from_bytes(n.as_bytes()), MetadataValue::<Ascii>::try_from(&v[..])) { (Ok(k), Ok(val)) => { r.metadata_mut().append(k, val); true } _ => false },
                "insert_bin" => match MetadataKey::<Binary>::from_bytes(n.as_bytes()) { Ok(k) => { r.metadata_mut().insert_bin(k, MetadataValue::from_bytes(&v)); true } _ => false },
                "append_bin" => match MetadataKey::<Binary>::from_bytes(n.as_bytes()) { Ok(k) => { r.metadata_mut().append_bin(k, MetadataValue::from_bytes(&v)); true } _ => false },
                "remove" => { if n.ends_with("-bin") { r.metadata_mut().remove_bin(n); } else { r.metadata_mut().remove(n); } true }
                "ext" => { r.extensions_mut().insert(ExtB(7)); true }
                "ext_remove" => { r.extensions_mut().remove::<ExtA>(); true }
                "ext_replace" => { r.extensions_mut().insert(ExtA(9)); true }
                // a brand-new Request carrying the metadata so far: none of the incoming extensions
                "fresh" => { let mut nr = tonic::Request::new(()); *nr.metadata_mut() = r.metadata().clone(); r = nr; true }
                "reject" => {
                    let (meta, _) = build_meta(&a["meta"]);
                    verdict = Some(Status::with_details_and_metadata(Code::from_i32(a["code"].as_i64().unwrap_or(2) as i32),
                        String::from_utf8_lossy(&json_bytes(&a["msg"])).into_owned(), json_bytes(&a["details"]).into(), meta));
                    true
                }
                _ => false,
            };
            applied.push(ok);
            if verdict.is_some() { break; }
        }
        log2.ev(json!({"e":"icpt","applied":applied,"saw_ext_a": saw_ext_a}));
        match verdict { Some(s) => Err(s), None => Ok(r) }
    };
    // stim.via_layer: the same interceptor installed through InterceptorLayer (what Server::layer / ServiceBuilder users write)
    let mut svc = if stim["via_layer"].as_bool().unwrap_or(false) { tower::Layer::layer(&tonic::service::InterceptorLayer::new(icpt), inner) } else { InterceptedService::new(inner, icpt) };
    let rq = &stim["req"];
    let mut b = http::Request::builder().method(rq["method"].as_str().unwrap_or("POST")).uri(rq["uri"].as_str().unwrap_or("/a.S/M"))
        .version(match rq["version"].as_str().unwrap_or("HTTP/2.0") { "HTTP/1.1" => http::Version::HTTP_11, _ => http::Version::HTTP_2 });
    let mut skipped = 0;
    for h in rq["headers"].as_array().cloned().unwrap_or_default() {
        match (http::header::HeaderName::from_bytes(h["n"].as_str().unwrap_or("").as_bytes()), http::HeaderValue::from_bytes(&json_bytes(&h["v"]))) {
            (Ok(n), Ok(v)) => { b = b.header(n, v); }
            _ => skipped += 1,
        }
    }
    if rq["ext_a"].as_bool().unwrap_or(false) { b = b.extension(ExtA(5)); }
    let req = b.body(Body::new(http_body_util::Full::new(Bytes::from(json_bytes(&rq["body"]))))).unwrap();
    rec.ev(json!({"e":"sent","list":headers_json(req.headers()),"skipped":skipped,"uri":str_json(&req.uri().to_string())}));
    let resp = block_on(async { svc.ready().await.unwrap().call(req).await }).unwrap();
    let (p, body) = resp.into_parts();
    // what the transport asks before it writes the HEADERS frame: a body that is already at its end gets END_STREAM on that frame
    let eos = http_body::Body::is_end_stream(&body);
    let mut data = vec![]; let mut ntr = 0;
    block_on(async { let mut body = std::pin::pin!(body); while let Some(f) = body.frame().await { match f { Ok(f) => { if let Some(d) = f.data_ref() { data.extend_from_slice(d); } else { ntr += 1; } } Err(_) => break } } });
    rec.ev(json!({"e":"resp","status":p.status.as_u16(),"list":headers_json(&p.headers),"body":bytes_json(&data),"trailers":ntr,"eos":eos}));
}

pub fn gen(seed: u64, tier: &str) -> Vec<Value> {
    let mut rng = rand::rngs::StdRng::seed_from_u64(seed ^ 0xC12);
    let n = if tier == "thorough" { 6000 } else { 1000 };
    let names = ["x", "x-bin", "y", "te", "content-type", "user-agent", "grpc-status", "grpc-timeout", "grpc-encoding", "authorization", "k-bin",
                 // headers other HTTP stacks (proxies, browsers, grpc-web bridges) add and tonic's own client never sends
                 "content-length", "accept", "accept-encoding", "host", "cookie", "x-forwarded-for", "grpc-accept-encoding", "grpc-message-type", "trailer", "via"];
    let uris = ["/a.S/M", "/a.S/M?q=1", "http://h.test/a.S/M", "/", "*"];
    (0..n).map(|_| {
        let via_layer = rng.gen_bool(0.3);
        let nh = rng.gen_range(0..6);
        let headers: Vec<Value> = (0..nh).map(|_| {
            let name = names[rng.gen_range(0..names.len())];
            let len = rng.gen_range(0..7);
            let v: Vec<u8> = if name.ends_with("-bin") { let raw: Vec<u8> = (0..len).map(|_| rng.gen()).collect();
                // binary values arrive padded as often as not (both are legal on the wire; tonic's own client sends them un-padded)
                if rng.gen_bool(0.5) { use base64::Engine; base64::engine::general_purpose::STANDARD.encode(&raw).into_bytes() } else { base64_nopad(&raw) } } else { (0..len).map(|_| rng.gen_range(0x21..0x7fu8)).collect() };
            json!({"n": name, "v": bytes_json(&v)})
        }).collect();
        let na = rng.gen_range(0..4);
        let mut actions: Vec<Value> = (0..na).map(|_| {
            let name = names[rng.gen_range(0..names.len())];
            let bin = name.ends_with("-bin");
            let len = rng.gen_range(0..6);
            let v: Vec<u8> = if bin { (0..len).map(|_| rng.gen()).collect() } else { (0..len).map(|_| rng.gen_range(0x21..0x7fu8)).collect() };
            let op = match (rng.gen_range(0..8), bin) { (0, false) => "insert", (1, false) => "append", (0, true) => "insert_bin", (1, true) => "append_bin", (2, _) => "remove", (3, _) => "ext",
                (5, _) => "ext_remove", (6, _) => "ext_replace", (7, _) => "fresh", (_, false) => "append", (_, true) => "append_bin" };
            json!({"op": op, "n": name, "v": bytes_json(&v)})
        }).collect();
        if rng.gen_bool(0.3) {
            let msg = ["", "denied", "nö %", "a b", "%", "%41", "path 'a%2Fb' (saw %41)", "100% sure", "%zz %4", "tab\there", "x%25y"][rng.gen_range(0..11)];
            let dl = rng.gen_range(0..5);
            // one rejecting status in twelve carries details of several kilobytes
            let dl = if rng.gen_range(0..12) == 0 { [6145usize, 9000, 20000][rng.gen_range(0..3)] } else { dl };
            let mut meta = crate::labs::status::rand_meta(&mut rng);
            // a third of the rejecting statuses carry, in their metadata, an entry named like the details header (metadata copied from
            // some upstream response): the status's own details must still be the ones the caller receives
            // (only when the status has details of its own: with none, the entry is simply the caller's header of that name and the
            // statement does not say which of the two readings a peer should prefer)
            if dl > 0 && rng.gen_bool(0.4) { meta.push(json!({"n":"grpc-status-details-bin","bin":true,"v":bytes_json(b"stale upstream details")})); }
            actions.push(json!({"op":"reject","n":"","v":[],"code":rng.gen_range(0..17),"msg":str_json(msg),"details":bytes_json(&(0..dl).map(|_| rng.gen()).collect::<Vec<u8>>()),"meta":meta}));
        }
        let bl = rng.gen_range(0..20);
        let (m, ver, uri) = (["POST","GET","OPTIONS","PUT"][rng.gen_range(0..4)], ["HTTP/2.0","HTTP/1.1"][rng.gen_range(0..2)], uris[rng.gen_range(0..uris.len())]);
        json!({"class":"intercept","req":{"method":m,"version":ver,
            "uri":uri,"headers":headers,"ext_a":rng.gen_bool(0.5),"body":bytes_json(&(0..bl).map(|_| rng.gen()).collect::<Vec<u8>>())},"actions":actions,"via_layer":via_layer})
    }).collect()
}

fn base64_nopad(b: &[u8]) -> Vec<u8> {
    use base64::Engine;
    base64::engine::general_purpose::STANDARD_NO_PAD.encode(b).into_bytes()
}
