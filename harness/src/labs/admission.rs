//! Admission lab (Admission.tla; growth beyond the listed properties, deadline clauses count for C09): a tonic server with
//! `concurrency_limit_per_connection`, gated handlers, tonic clients on one or two connections, in virtual time.
//! Stimulus: {limit, calls:[{k, c, tmo}], steps:[{op:"send"|"release"|"tick", k, after:{running, queued, ok, cut}}], tick_ms}
//!   tmo = the call's deadline in ticks (0 = none), set with Request::set_timeout on the client.
//! After every step the system is left to become quiescent and what can be observed is recorded:
//!   {"e":"obs","i":..,"running":[..] (handlers started and neither finished nor dropped),"ended":[..],"ok":[..],"cut":[..],"other":[..]}
use crate::labs::call::gen::svc::{svc_client::SvcClient, svc_server::{Svc, SvcServer}};
use crate::labs::Rec;
use crate::shim::Shim;
use crate::util::*;
use serde_json::{json, Value};
use std::collections::{BTreeMap, BTreeSet, HashMap};
use std::pin::Pin;
use std::sync::{Arc, Mutex};
use std::time::Duration;
use tokio::sync::Semaphore;
use tonic::{Request, Response, Status, Streaming};

type BoxStream = Pin<Box<dyn tokio_stream::Stream<Item = Result<Vec<u8>, Status>> + Send>>;
#[derive(Default)]
struct Board { started: Vec<u8>, ended: BTreeSet<u8>, results: BTreeMap<u8, i32> }
#[derive(Clone)]
struct Gated { gates: Arc<Mutex<HashMap<u8, Arc<Semaphore>>>>, board: Arc<Mutex<Board>>, log: Rec }
impl Gated { fn gate(&self, k: u8) -> Arc<Semaphore> { self.gates.lock().unwrap().entry(k).or_insert_with(|| Arc::new(Semaphore::new(0))).clone() } }
/// marks the handler as ended when its future is dropped, finished or not
struct Ended { k: u8, board: Arc<Mutex<Board>>, log: Rec, finished: bool }
impl Drop for Ended { fn drop(&mut self) { self.board.lock().unwrap().ended.insert(self.k); self.log.ev(json!({"e": if self.finished { "srv_done" } else { "srv_drop" }, "k": self.k})); } }
#[tonic::async_trait]
impl Svc for Gated {
    async fn unary(&self, r: Request<Vec<u8>>) -> Result<Response<Vec<u8>>, Status> {
        let k = r.get_ref().first().copied().unwrap_or(0);
        self.board.lock().unwrap().started.push(k);
        self.log.ev(json!({"e":"srv_req","k":k}));
        let mut g = Ended { k, board: self.board.clone(), log: self.log.clone(), finished: false };
        self.gate(k).acquire().await.unwrap().forget();
        g.finished = true;
        Ok(Response::new(vec![k, 100]))
    }
    async fn cstream(&self, _r: Request<Streaming<Vec<u8>>>) -> Result<Response<Vec<u8>>, Status> { Err(Status::unimplemented("unused")) }
    type SStreamStream = BoxStream;
    async fn sstream(&self, _r: Request<Vec<u8>>) -> Result<Response<BoxStream>, Status> { Err(Status::unimplemented("unused")) }
    type BidiStream = BoxStream;
    async fn bidi(&self, _r: Request<Streaming<Vec<u8>>>) -> Result<Response<BoxStream>, Status> { Err(Status::unimplemented("unused")) }
}

pub fn run(stim: &Value, rec: &Rec) {
    let log = rec.clone();
    let stim = stim.clone();
    block_on_paused(async move {
        let limit = stim["limit"].as_u64().unwrap_or(1) as usize;
        let tick = Duration::from_millis(stim["tick_ms"].as_u64().unwrap_or(100));
        let mut conn_of = HashMap::new(); let mut tmo_of = HashMap::new();
        for c in stim["calls"].as_array().cloned().unwrap_or_default() {
            let k = c["k"].as_u64().unwrap() as u8;
            conn_of.insert(k, c["c"].as_u64().unwrap());
            tmo_of.insert(k, c["tmo"].as_u64().unwrap_or(0));
        }
        let h = Gated { gates: Default::default(), board: Default::default(), log: log.clone() };
        let conns: BTreeSet<u64> = conn_of.values().cloned().collect();
        let mut ios = vec![]; let mut client_ios = vec![];
        for c in &conns { let (c_io, s_io, _d) = Shim::pair(65536, 65536, 65536, 0); ios.push(Ok::<_, std::io::Error>(s_io)); client_ios.push((*c, c_io)); }
        let incoming = tokio_stream::StreamExt::chain(tokio_stream::iter(ios), tokio_stream::pending());
        let svc = SvcServer::new(h.clone());
        // stim.srv_timeout_ticks: a Server::timeout as well (it sits inside the limit: its clock starts at admission)
        let srv_tmo = stim["srv_timeout_ticks"].as_u64().filter(|t| *t > 0);
        let serve = tokio::spawn(async move {
            let mut b = tonic::transport::Server::builder().concurrency_limit_per_connection(limit);
            if let Some(t) = srv_tmo { b = b.timeout(tick * t as u32); }
            let _ = b.add_service(svc).serve_with_incoming(incoming).await;
        });
        let mut clients: HashMap<u64, SvcClient<tonic::transport::Channel>> = HashMap::new();
        for (c, c_io) in client_ios {
            let mut slot = Some(c_io);
            match tonic::transport::Endpoint::from_static("http://srv.test")
                .connect_with_connector(tower::service_fn(move |_: http::Uri| { let io = slot.take(); async move { io.map(hyper_util::rt::TokioIo::new).ok_or_else(|| std::io::Error::other("gone")) } })).await {
                Ok(ch) => { clients.insert(c, SvcClient::new(ch)); }
                Err(e) => log.ev(json!({"e":"client_connect_err","c":c,"msg":e.to_string()})),
            }
        }
        let mut tasks = vec![];
        let steps = stim["steps"].as_array().cloned().unwrap_or_default();
        for (i, st) in steps.iter().enumerate() {
            let k = st["k"].as_u64().unwrap_or(0) as u8;
            match st["op"].as_str().unwrap_or("") {
                "send" => {
                    if let Some(cl) = clients.get(&conn_of[&k]) {
                        let mut cl = cl.clone(); let board = h.board.clone(); let t = tmo_of[&k];
                        tasks.push(tokio::spawn(async move {
                            let mut r = Request::new(vec![k]);
                            if t > 0 { r.set_timeout(tick * t as u32); }
                            let code = match cl.unary(r).await { Ok(_) => 0, Err(s) => s.code() as i32 };
                            board.lock().unwrap().results.insert(k, code);
                        }));
                    }
                }
                "release" => h.gate(k).add_permits(1),
                "tick" => tokio::time::sleep(tick).await,
                _ => {}
            }
            // quiescence barrier (virtual time only advances when every task is idle)
            tokio::time::sleep(Duration::from_millis(1)).await;
            let b = h.board.lock().unwrap();
            let running: Vec<u8> = { let mut v: Vec<u8> = b.started.iter().filter(|k| !b.ended.contains(k)).cloned().collect(); v.sort(); v };
            let by = |f: &dyn Fn(i32) -> bool| -> Vec<u8> { b.results.iter().filter(|(_, c)| f(**c)).map(|(k, _)| *k).collect() };
            log.ev(json!({"e":"obs","i":i as u64,"op":st["op"],"k":k,"running":running,"started":b.started.clone(),"ended":b.ended.iter().collect::<Vec<_>>(),
                "ok":by(&|c| c == 0),"cut":by(&|c| c == 1),"other":by(&|c| c != 0 && c != 1)}));
        }
        for t in tasks { t.abort(); }
        serve.abort();
    });
}
