//! Routing lab (C10): any set / order of registered services x any request path.
//! Stimulus: {reg:["a.S","a.S2","S","a.b.S","a.s"] (in registration order), path:[bytes], via:"routes"|"builder"}
use crate::codec::RawCodec;
use crate::labs::status::headers_json;
use crate::labs::Rec;
use crate::util::*;
use bytes::Bytes;
use http_body_util::BodyExt;
use serde_json::{json, Value};
use tonic::body::Body;
use tonic::{Request, Response, Status};
use tower::{Service, ServiceExt};

pub mod g {
    pub mod a_s { include!(concat!(env!("OUT_DIR"), "/a.S.rs")); }
    pub mod a_s2 { include!(concat!(env!("OUT_DIR"), "/a.S2.rs")); }
    pub mod bare_s { include!(concat!(env!("OUT_DIR"), "/.S.rs")); }
    pub mod a_b_s { include!(concat!(env!("OUT_DIR"), "/a.b.S.rs")); }
    #[allow(non_camel_case_types)]
    pub mod a_lower { include!(concat!(env!("OUT_DIR"), "/a.s.rs")); }
    pub mod long { include!(concat!(env!("OUT_DIR"), "/lab.routing.longnames.v1.ServiceWithAVeryLongName.rs")); }
}

#[derive(Clone)]
pub struct H { pub svc: &'static str, pub log: Rec }
impl H {
    fn hit(&self, m: &str, r: &Request<Vec<u8>>) -> Result<Response<Vec<u8>>, Status> {
        self.log.ev(json!({"e":"handled","svc":self.svc,"method":m,"msg":bytes_json(r.get_ref())}));
        Ok(Response::new(vec![42]))
    }
}
macro_rules! impl_h { ($tr:path) => {
    #[tonic::async_trait]
    impl $tr for H {
        async fn m_upper(&self, r: Request<Vec<u8>>) -> Result<Response<Vec<u8>>, Status> { self.hit("M", &r) }
        async fn m_two(&self, r: Request<Vec<u8>>) -> Result<Response<Vec<u8>>, Status> { self.hit("M2", &r) }
        async fn m_lower(&self, r: Request<Vec<u8>>) -> Result<Response<Vec<u8>>, Status> { self.hit("m", &r) }
    }
}; }
impl_h!(g::a_s::s_server::S);
impl_h!(g::a_s2::s2_server::S2);
impl_h!(g::bare_s::s_server::S);
impl_h!(g::a_b_s::s_server::S);
impl_h!(g::a_lower::s_server::s);
#[tonic::async_trait]
impl g::long::service_with_a_very_long_name_server::ServiceWithAVeryLongName for H {
    async fn m_upper(&self, r: Request<Vec<u8>>) -> Result<Response<Vec<u8>>, Status> { self.hit("M", &r) }
    async fn m_two(&self, r: Request<Vec<u8>>) -> Result<Response<Vec<u8>>, Status> { self.hit("M2", &r) }
    async fn m_lower(&self, r: Request<Vec<u8>>) -> Result<Response<Vec<u8>>, Status> { self.hit("m", &r) }
    async fn l63(&self, r: Request<Vec<u8>>) -> Result<Response<Vec<u8>>, Status> { self.hit("L63", &r) }
    async fn l64(&self, r: Request<Vec<u8>>) -> Result<Response<Vec<u8>>, Status> { self.hit("L64", &r) }
    async fn l65(&self, r: Request<Vec<u8>>) -> Result<Response<Vec<u8>>, Status> { self.hit("L65", &r) }
    async fn l128(&self, r: Request<Vec<u8>>) -> Result<Response<Vec<u8>>, Status> { self.hit("L128", &r) }
    async fn l129(&self, r: Request<Vec<u8>>) -> Result<Response<Vec<u8>>, Status> { self.hit("L129", &r) }
    async fn l300(&self, r: Request<Vec<u8>>) -> Result<Response<Vec<u8>>, Status> { self.hit("L300", &r) }
}

/// A request body whose one DATA frame has arrived and whose end has not: pending for good after the frame.
pub struct OpenBody(Option<Bytes>);
impl http_body::Body for OpenBody {
    type Data = Bytes;
    type Error = Status;
    fn poll_frame(mut self: std::pin::Pin<&mut Self>, _cx: &mut std::task::Context<'_>) -> std::task::Poll<Option<Result<http_body::Frame<Bytes>, Status>>> {
        match self.0.take() { Some(b) => std::task::Poll::Ready(Some(Ok(http_body::Frame::data(b)))), None => std::task::Poll::Pending }
    }
}

/// An interceptor that hands back a freshly built request (metadata copied, extensions not): legal, and it must not change
/// which method a path names.
fn rebuild(r: tonic::Request<()>) -> Result<tonic::Request<()>, tonic::Status> { let mut n = tonic::Request::new(()); *n.metadata_mut() = r.metadata().clone(); Ok(n) }
pub fn build_routes(reg: &[String], log: &Rec, via_builder: bool) -> tonic::service::Routes { build_routes_opt(reg, log, via_builder, false) }
pub fn build_routes_opt(reg: &[String], log: &Rec, via_builder: bool, intercepted: bool) -> tonic::service::Routes {
    let mut b = tonic::service::Routes::builder();
    let mut r = tonic::service::Routes::default();
    macro_rules! add { ($svc:expr) => {{
        if intercepted { let s = tonic::service::interceptor::InterceptedService::new($svc, rebuild as fn(tonic::Request<()>) -> Result<tonic::Request<()>, tonic::Status>);
                         if via_builder { b.add_service(s); } else { r = r.add_service(s); } }
        else if via_builder { b.add_service($svc); } else { r = r.add_service($svc); } }}; }
    for name in reg {
        match name.as_str() {
            "a.S" => add!(g::a_s::s_server::SServer::new(H { svc: "a.S", log: log.clone() })),
            "a.S2" => add!(g::a_s2::s2_server::S2Server::new(H { svc: "a.S2", log: log.clone() })),
            "S" => add!(g::bare_s::s_server::SServer::new(H { svc: "S", log: log.clone() })),
            "a.b.S" => add!(g::a_b_s::s_server::SServer::new(H { svc: "a.b.S", log: log.clone() })),
            "a.s" => add!(g::a_lower::s_server::sServer::new(H { svc: "a.s", log: log.clone() })),
            "long" => add!(g::long::service_with_a_very_long_name_server::ServiceWithAVeryLongNameServer::new(H { svc: "long", log: log.clone() })),
            other => panic!("unknown service {other}"),
        }
    }
    if via_builder { b.routes() } else { r }
}

/// via "server": the services are registered on tonic::transport::Server through add_service / add_optional_service (stim.plan:
/// [{name, how: "add"|"some"|"none"}]), served over an in-memory pipe, and the request is sent by a bare h2 client.
fn run_via_server(stim: &Value, rec: &Rec) {
    let path = json_bytes(&stim["path"]);
    let uri = match http::Uri::try_from(&path[..]) { Ok(u) if u.path_and_query().is_some() && u.scheme().is_none() => u, _ => { rec.ev(json!({"e":"sent","uri_ok":false})); return; } };
    rec.ev(json!({"e":"sent","uri_ok":true,"path_seen":str_json(uri.path())}));
    let plan = stim["plan"].as_array().cloned().unwrap_or_default();
    let log = rec.clone();
    let open = stim["body"].as_str() == Some("open");
    let run = async move {
        let mut srv = tonic::transport::Server::builder();
        let mut router: Option<tonic::transport::server::Router> = None;
        macro_rules! reg { ($how:expr, $svc:expr, $ty:ty) => {{
            router = Some(match (router.take(), $how) {
                (None, "none") => srv.add_optional_service(None::<$ty>),
                (None, "some") => srv.add_optional_service(Some($svc)),
                (None, _) => srv.add_service($svc),
                (Some(r), "none") => r.add_optional_service(None::<$ty>),
                (Some(r), "some") => r.add_optional_service(Some($svc)),
                (Some(r), _) => r.add_service($svc),
            });
        }}; }
        // plan entry {how:"routes", names:[..]}: those services are collected in a Routes value (prepared) and handed over with add_routes
        if let Some(names) = plan.first().filter(|st| st["how"].as_str() == Some("routes")).map(|st| st["names"].as_array().cloned().unwrap_or_default()) {
            let reg: Vec<String> = names.iter().map(|v| v.as_str().unwrap_or("").to_string()).collect();
            router = Some(srv.add_routes(build_routes(&reg, &log, true).prepare()));
        }
        for st in plan.iter().filter(|st| st["how"].as_str() != Some("routes")) {
            let how = st["how"].as_str().unwrap_or("add");
            match st["name"].as_str().unwrap_or("") {
                "a.S" => reg!(how, g::a_s::s_server::SServer::new(H { svc: "a.S", log: log.clone() }), g::a_s::s_server::SServer<H>),
                "a.S2" => reg!(how, g::a_s2::s2_server::S2Server::new(H { svc: "a.S2", log: log.clone() }), g::a_s2::s2_server::S2Server<H>),
                "S" => reg!(how, g::bare_s::s_server::SServer::new(H { svc: "S", log: log.clone() }), g::bare_s::s_server::SServer<H>),
                "a.b.S" => reg!(how, g::a_b_s::s_server::SServer::new(H { svc: "a.b.S", log: log.clone() }), g::a_b_s::s_server::SServer<H>),
                "a.s" => reg!(how, g::a_lower::s_server::sServer::new(H { svc: "a.s", log: log.clone() }), g::a_lower::s_server::sServer<H>),
                "long" => reg!(how, g::long::service_with_a_very_long_name_server::ServiceWithAVeryLongNameServer::new(H { svc: "long", log: log.clone() }), g::long::service_with_a_very_long_name_server::ServiceWithAVeryLongNameServer<H>),
                other => panic!("unknown service {other}"),
            }
        }
        let Some(router) = router else { return; };
        let (c_io, s_io, _d) = crate::shim::Shim::pair(65536, 65536, 65536, 0);
        let incoming = tokio_stream::StreamExt::chain(tokio_stream::once(Ok::<_, std::io::Error>(s_io)), tokio_stream::pending());
        let server = tokio::spawn(async move { let _ = router.serve_with_incoming(incoming).await; });
        let (mut client, conn) = match h2::client::handshake(c_io).await { Ok(x) => x, Err(e) => { log.ev(json!({"e":"h2_err","msg":e.to_string()})); return; } };
        let connt = tokio::spawn(async move { let _ = conn.await; });
        let full = http::Uri::builder().scheme("http").authority("lab.test").path_and_query(uri.path_and_query().unwrap().clone()).build().unwrap();
        let req = http::Request::builder().method("POST").uri(full).header("content-type", stim["ctype"].as_str().unwrap_or("application/grpc")).header("te", "trailers").body(()).unwrap();
        let r: Result<(), String> = async {
            let (resp, mut send) = client.send_request(req, false).map_err(|e| e.to_string())?;
            send.send_data(Bytes::from_static(&[0, 0, 0, 0, 1, 7]), !open).map_err(|e| e.to_string())?;
            let resp = if open { match tokio::time::timeout(std::time::Duration::from_secs(5), resp).await { Ok(r) => r, Err(_) => { log.ev(json!({"e":"no_answer"})); return Ok(()); } } } else { resp.await }.map_err(|e| e.to_string())?;
            let (p, mut body) = resp.into_parts();
            let mut data = vec![];
            while let Some(ch) = body.data().await { let ch = ch.map_err(|e| e.to_string())?; let _ = body.flow_control().release_capacity(ch.len()); data.extend_from_slice(&ch); }
            let trailers = match body.trailers().await.map_err(|e| e.to_string())? { Some(t) => headers_json(&t), None => json!([]) };
            log.ev(json!({"e":"resp","status":p.status.as_u16(),"list":headers_json(&p.headers),"body":bytes_json(&data),"trailers":trailers}));
            Ok(())
        }.await;
        if let Err(m) = r { log.ev(json!({"e":"h2_err","msg":m})); }
        server.abort(); connt.abort();
    };
    if open { block_on_paused(run) } else { block_on(run) }
}

pub fn run(stim: &Value, rec: &Rec) {
    if stim["via"].as_str() == Some("server") { return run_via_server(stim, rec); }
    let reg: Vec<String> = stim["reg"].as_array().cloned().unwrap_or_default().iter().map(|v| v.as_str().unwrap_or("").to_string()).collect();
    let path = json_bytes(&stim["path"]);
    // a fifth of the tables register their services behind an interceptor that rebuilds the request
    let routes = build_routes_opt(&reg, rec, stim["via"].as_str() == Some("builder"), stim["intercepted"].as_bool().unwrap_or(path.len() % 5 == 2));
    let uri = match http::Uri::try_from(&path[..]) { Ok(u) => u, Err(_) => { rec.ev(json!({"e":"sent","uri_ok":false})); return; } };
    rec.ev(json!({"e":"sent","uri_ok":true,"path_seen":str_json(uri.path())}));
    // body "open": the request's message has arrived but its body has not ended (a caller that has not half-closed yet, as a streaming
    // caller waiting for the server would): a path that names no registered method is answered all the same
    let open = stim["body"].as_str() == Some("open");
    let body = if open { Body::new(OpenBody(Some(Bytes::from_static(&[0, 0, 0, 0, 1, 7])))) } else { Body::new(http_body_util::Full::new(Bytes::from_static(&[0, 0, 0, 0, 1, 7]))) };
    let req = http::Request::builder().method("POST").version(http::Version::HTTP_2).uri(uri)
        .header("content-type", stim["ctype"].as_str().unwrap_or("application/grpc")).header("te", "trailers")
        .body(body).unwrap();
    let run = async {
        // prepare() is documented as an optional optimisation: two thirds of the tables are used without it
        let mut svc = if stim["prepare"].as_bool().unwrap_or(path.len() % 3 == 0) { routes.prepare() } else { routes };
        let fut = ServiceExt::<http::Request<Body>>::ready(&mut svc).await.unwrap().call(req);
        let resp = if open { match tokio::time::timeout(std::time::Duration::from_secs(5), fut).await { Ok(r) => r.unwrap(), Err(_) => { rec.ev(json!({"e":"no_answer"})); return; } } } else { fut.await.unwrap() };
        let (p, body) = resp.into_parts();
        let mut data = vec![]; let mut trailers = json!([]);
        let mut body = std::pin::pin!(body);
        while let Some(f) = body.frame().await { match f { Ok(f) => { if let Some(d) = f.data_ref() { data.extend_from_slice(d); } else if let Some(t) = f.trailers_ref() { trailers = headers_json(t); } } Err(_) => break } }
        rec.ev(json!({"e":"resp","status":p.status.as_u16(),"list":headers_json(&p.headers),"body":bytes_json(&data),"trailers":trailers}));
    };
    if open { block_on_paused(run) } else { block_on(run) }
    let _ = RawCodec::default();
}
