//! Routing lab (C10): any set / order of registered services x any request path.
//! Stimulus: {reg:["a.S","a.S2","S","a.b.S","a.s"] (in registration order), path:[bytes], via:"routes"|"builder"}
use crate::codec::RawCodec;
use crate::labs::status::headers_json;
use crate::labs::Rec;
use crate::util::*;
use bytes::Bytes;
use http_body_util::BodyExt;
use serde_json::{json, Value};
use tonic::body::Body;
use tonic::{Request, Response, Status};
use tower::{Service, ServiceExt};

pub mod g {
    pub mod a_s { include!(concat!(env!("OUT_DIR"), "/a.S.rs")); }
    pub mod a_s2 { include!(concat!(env!("OUT_DIR"), "/a.S2.rs")); }
    pub mod bare_s { include!(concat!(env!("OUT_DIR"), "/.S.rs")); }
    pub mod a_b_s { include!(concat!(env!("OUT_DIR"), "/a.b.S.rs")); }
    #[allow(non_camel_case_types)]
    pub mod a_lower { include!(concat!(env!("OUT_DIR"), "/a.s.rs")); }
}

#[derive(Clone)]
pub struct H { pub svc: &'static str, pub log: Rec }
impl H {
    fn hit(&self, m: &str, r: &Request<Vec<u8>>) -> Result<Response<Vec<u8>>, Status> {
        self.log.ev(json!({"e":"handled","svc":self.svc,"method":m,"msg":bytes_json(r.get_ref())}));
        Ok(Response::new(vec![42]))
    }
}
macro_rules! impl_h { ($tr:path) => {
    #[tonic::async_trait]
    impl $tr for H {
        async fn m_upper(&self, r: Request<Vec<u8>>) -> Result<Response<Vec<u8>>, Status> { self.hit("M", &r) }
        async fn m_two(&self, r: Request<Vec<u8>>) -> Result<Response<Vec<u8>>, Status> { self.hit("M2", &r) }
        async fn m_lower(&self, r: Request<Vec<u8>>) -> Result<Response<Vec<u8>>, Status> { self.hit("m", &r) }
    }
}; }
impl_h!(g::a_s::s_server::S);
impl_h!(g::a_s2::s2_server::S2);
impl_h!(g::bare_s::s_server::S);
impl_h!(g::a_b_s::s_server::S);
impl_h!(g::a_lower::s_server::s);

pub fn build_routes(reg: &[String], log: &Rec, via_builder: bool) -> tonic::service::Routes {
    let mut b = tonic::service::Routes::builder();
    let mut r = tonic::service::Routes::default();
    macro_rules! add { ($svc:expr) => {{ if via_builder { b.add_service($svc); } else { r = r.add_service($svc); } }}; }
    for name in reg {
        match name.as_str() {
            "a.S" => add!(g::a_s::s_server::SServer::new(H { svc: "a.S", log: log.clone() })),
            "a.S2" => add!(g::a_s2::s2_server::S2Server::new(H { svc: "a.S2", log: log.clone() })),
            "S" => add!(g::bare_s::s_server::SServer::new(H { svc: "S", log: log.clone() })),
            "a.b.S" => add!(g::a_b_s::s_server::SServer::new(H { svc: "a.b.S", log: log.clone() })),
            "a.s" => add!(g::a_lower::s_server::sServer::new(H { svc: "a.s", log: log.clone() })),
            other => panic!("unknown service {other}"),
        }
    }
    if via_builder { b.routes() } else { r }
}

pub fn run(stim: &Value, rec: &Rec) {
    let reg: Vec<String> = stim["reg"].as_array().cloned().unwrap_or_default().iter().map(|v| v.as_str().unwrap_or("").to_string()).collect();
    let routes = build_routes(&reg, rec, stim["via"].as_str() == Some("builder"));
    let path = json_bytes(&stim["path"]);
    let uri = match http::Uri::try_from(&path[..]) { Ok(u) => u, Err(_) => { rec.ev(json!({"e":"sent","uri_ok":false})); return; } };
    rec.ev(json!({"e":"sent","uri_ok":true,"path_seen":str_json(uri.path())}));
    let req = http::Request::builder().method("POST").version(http::Version::HTTP_2).uri(uri)
        .header("content-type", "application/grpc").header("te", "trailers")
        .body(Body::new(http_body_util::Full::new(Bytes::from_static(&[0, 0, 0, 0, 1, 7])))).unwrap();
    block_on(async {
        let mut svc = routes.prepare();
        let resp = ServiceExt::<http::Request<Body>>::ready(&mut svc).await.unwrap().call(req).await.unwrap();
        let (p, body) = resp.into_parts();
        let mut data = vec![]; let mut trailers = json!([]);
        let mut body = std::pin::pin!(body);
        while let Some(f) = body.frame().await { match f { Ok(f) => { if let Some(d) = f.data_ref() { data.extend_from_slice(d); } else if let Some(t) = f.trailers_ref() { trailers = headers_json(t); } } Err(_) => break } }
        rec.ev(json!({"e":"resp","status":p.status.as_u16(),"list":headers_json(&p.headers),"body":bytes_json(&data),"trailers":trailers}));
    });
    let _ = RawCodec::default();
}
