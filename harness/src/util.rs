use serde_json::{json, Value};
use std::io::Write;

pub fn bytes_json(b: &[u8]) -> Value { Value::Array(b.iter().map(|x| json!(*x)).collect()) }
pub fn json_bytes(v: &Value) -> Vec<u8> {
    v.as_array().map(|a| a.iter().map(|x| x.as_u64().unwrap_or(0) as u8).collect()).unwrap_or_default()
}
pub fn str_json(s: &str) -> Value { bytes_json(s.as_bytes()) }

/// Event sink for one lab invocation: ndjson lines.
pub struct Out { pub w: std::io::BufWriter<std::fs::File>, pub n: usize }
impl Out {
    pub fn create(path: &str) -> Self { Out { w: std::io::BufWriter::new(std::fs::File::create(path).expect("create out")), n: 0 } }
    pub fn ev(&mut self, v: Value) { writeln!(self.w, "{}", v).unwrap(); self.n += 1; }
    pub fn flush(&mut self) { self.w.flush().unwrap(); }
}

pub fn read_ndjson(path: &str) -> Vec<Value> {
    let s = std::fs::read_to_string(path).expect("read stimuli");
    s.lines().filter(|l| !l.trim().is_empty()).map(|l| serde_json::from_str(l).expect("json line")).collect()
}

/// Block on a future on a fresh current-thread runtime with paused clock.
pub fn block_on_paused<F: std::future::Future>(f: F) -> F::Output {
    let rt = tokio::runtime::Builder::new_current_thread().enable_all().start_paused(true).build().unwrap();
    rt.block_on(f)
}
pub fn block_on<F: std::future::Future>(f: F) -> F::Output {
    let rt = tokio::runtime::Builder::new_current_thread().enable_all().build().unwrap();
    rt.block_on(f)
}

pub fn code_name(c: tonic::Code) -> i32 { c as i32 }
