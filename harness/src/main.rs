//! vh — verification harness: runs stimuli against the real tonic crates and records ndjson traces.
//! The harness only *projects* (how to observe); every verdict is TLC's, evaluating the TLA+ specs on these traces.
#![allow(clippy::all)]
pub mod codec;
pub mod util;
pub mod shim;
pub mod labs;

#[global_allocator]
static ALLOC: shim::Counting = shim::Counting;

fn main() {
    let args: Vec<String> = std::env::args().collect();
    if args.len() < 3 {
        eprintln!("usage: vh <lab> gen <seed> <tier> <out_stim.ndjson> | vh <lab> run <stim.ndjson> <out_trace.ndjson>");
        std::process::exit(2);
    }
    let lab = args[1].as_str();
    match args[2].as_str() {
        "gen" => {
            let seed: u64 = args[3].parse().expect("seed");
            let tier = args[4].as_str();
            let stims = labs::gen(lab, seed, tier);
            let mut out = util::Out::create(&args[5]);
            for s in stims { out.ev(s); }
            out.flush();
        }
        "run" => {
            let stims = util::read_ndjson(&args[3]);
            let mut out = util::Out::create(&args[4]);
            labs::run_all(lab, stims, &mut out);
            out.flush();
        }
        _ => { eprintln!("bad mode"); std::process::exit(2); }
    }
}
