//! Codecs used by the labs: a raw byte codec (payload = message bytes) and a prost test message.
use bytes::{Buf, BufMut};
use tonic::codec::{BufferSettings, Codec, DecodeBuf, Decoder, EncodeBuf, Encoder};
use tonic::Status;

#[derive(Clone, Copy, Debug)]
pub struct RawCodec {
    pub buffer_size: usize,
    pub yield_threshold: usize,
}
impl Default for RawCodec {
    fn default() -> Self {
        let d = BufferSettings::default();
        let _ = d;
        RawCodec { buffer_size: 8 * 1024, yield_threshold: 32 * 1024 }
    }
}
impl RawCodec {
    pub fn with(buffer_size: usize, yield_threshold: usize) -> Self { RawCodec { buffer_size, yield_threshold } }
}
impl Decoder for RawCodec {
    type Item = Vec<u8>;
    type Error = Status;
    fn decode(&mut self, b: &mut DecodeBuf<'_>) -> Result<Option<Vec<u8>>, Status> {
        let n = b.remaining();
        Ok(Some(b.copy_to_bytes(n).to_vec()))
    }
    fn buffer_settings(&self) -> BufferSettings { BufferSettings::new(self.buffer_size, self.yield_threshold) }
}
impl Encoder for RawCodec {
    type Item = Vec<u8>;
    type Error = Status;
    fn encode(&mut self, item: Vec<u8>, dst: &mut EncodeBuf<'_>) -> Result<(), Status> {
        // a message starting with [250, 17, k] is refused by the codec after it wrote k bytes of it
        if item.len() >= 3 && item[0] == 250 && item[1] == 17 {
            let k = (item[2] as usize).min(item.len() - 3);
            dst.put_slice(&item[3..3 + k]);
            return Err(Status::internal("codec refused the message"));
        }
        // a message starting with [250, 18, e] stands for one of 2^32 + e bytes: address space is reserved and claimed, never touched
        if item.len() >= 3 && item[0] == 250 && item[1] == 18 {
            let n = (1usize << 32) + item[2] as usize;
            dst.reserve(n);
            unsafe { dst.advance_mut(n) };
            return Ok(());
        }
        dst.put_slice(&item);
        Ok(())
    }
    fn buffer_settings(&self) -> BufferSettings { BufferSettings::new(self.buffer_size, self.yield_threshold) }
}
impl Codec for RawCodec {
    type Encode = Vec<u8>;
    type Decode = Vec<u8>;
    type Encoder = RawCodec;
    type Decoder = RawCodec;
    fn encoder(&mut self) -> RawCodec { *self }
    fn decoder(&mut self) -> RawCodec { *self }
}

/// Three-field prost message; the spec re-derives its serialisation (`ProtoSer` in Bytes.tla).
#[derive(Clone, PartialEq, prost::Message)]
pub struct TestMsg {
    #[prost(uint32, tag = "1")]
    pub a: u32,
    #[prost(bytes = "vec", tag = "2")]
    pub b: Vec<u8>,
    #[prost(string, tag = "3")]
    pub c: String,
}
