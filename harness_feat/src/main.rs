//! vhf <in.ndjson> <out.ndjson>: raw-mode runs of the call lab (a hand-built http request into tonic::server::Grpc) in a build of
//! tonic that has exactly one compression feature.  Same stimulus and event format as `vh call` in mode "raw" (Trace_Call!RawClauses).
use bytes::{Buf, BufMut, Bytes};
use http_body::Body as HttpBody;
use serde_json::{json, Value};
use std::io::{BufRead, Write};
use std::pin::Pin;
use std::sync::{Arc, Mutex};
use tonic::codec::{Codec, CompressionEncoding, DecodeBuf, Decoder, EncodeBuf, Encoder};
use tonic::{Request, Response, Status};

#[derive(Clone, Copy, Default)]
struct Raw;
impl Decoder for Raw { type Item = Vec<u8>; type Error = Status;
    fn decode(&mut self, b: &mut DecodeBuf<'_>) -> Result<Option<Vec<u8>>, Status> { let n = b.remaining(); Ok(Some(b.copy_to_bytes(n).to_vec())) } }
impl Encoder for Raw { type Item = Vec<u8>; type Error = Status;
    fn encode(&mut self, item: Vec<u8>, dst: &mut EncodeBuf<'_>) -> Result<(), Status> { dst.put_slice(&item); Ok(()) } }
impl Codec for Raw { type Encode = Vec<u8>; type Decode = Vec<u8>; type Encoder = Raw; type Decoder = Raw;
    fn encoder(&mut self) -> Raw { Raw } fn decoder(&mut self) -> Raw { Raw } }

fn jb(v: &Value) -> Vec<u8> { v.as_array().map(|a| a.iter().map(|x| x.as_u64().unwrap_or(0) as u8).collect()).unwrap_or_default() }
fn bj(b: &[u8]) -> Value { Value::Array(b.iter().map(|x| json!(*x)).collect()) }
fn headers_json(h: &http::HeaderMap) -> Value { Value::Array(h.iter().map(|(n, v)| json!({"n": n.as_str(), "nb": bj(n.as_str().as_bytes()), "v": bj(v.as_bytes())})).collect()) }
fn frame(flag: u8, p: &[u8]) -> Vec<u8> { let mut v = vec![flag]; v.extend_from_slice(&(p.len() as u32).to_be_bytes()); v.extend_from_slice(p); v }
fn compress_with(enc: &str, data: &[u8]) -> Vec<u8> {
    match enc {
        "gzip" => { let mut e = flate2::write::GzEncoder::new(vec![], flate2::Compression::new(6)); e.write_all(data).unwrap(); e.finish().unwrap() }
        "deflate" => { let mut e = flate2::write::ZlibEncoder::new(vec![], flate2::Compression::new(6)); e.write_all(data).unwrap(); e.finish().unwrap() }
        "zstd" => zstd::bulk::compress(data, 3).unwrap(),
        _ => data.to_vec(),
    }
}
fn frames_hint(wire: &[u8]) -> Value {
    let mut out = vec![]; let mut p = 0usize;
    while p + 5 <= wire.len() {
        let flag = wire[p]; let len = u32::from_be_bytes([wire[p + 1], wire[p + 2], wire[p + 3], wire[p + 4]]) as usize;
        if p + 5 + len > wire.len() { break; }
        let payload = &wire[p + 5..p + 5 + len];
        let z = if flag == 1 && !payload.is_empty() { match zstd::bulk::decompress(payload, 64 << 20) { Ok(v) => json!({"ok":true,"v":bj(&v)}), Err(_) => json!({"ok":false,"v":[]}) } } else { json!({"ok":false,"v":[]}) };
        out.push(json!({"off": p as u64, "flag": flag, "len": len as u64, "zstd": z}));
        p += 5 + len;
    }
    Value::Array(out)
}
/// the one encoding this build knows, by name
fn enc_of(s: &str) -> Option<CompressionEncoding> {
    #[cfg(feature = "gzip")] if s == "gzip" { return Some(CompressionEncoding::Gzip); }
    #[cfg(feature = "deflate")] if s == "deflate" { return Some(CompressionEncoding::Deflate); }
    #[cfg(feature = "zstd")] if s == "zstd" { return Some(CompressionEncoding::Zstd); }
    let _ = s; None
}

type BoxStream = Pin<Box<dyn tokio_stream::Stream<Item = Result<Vec<u8>, Status>> + Send>>;
#[derive(Clone)]
struct H { script: Arc<Value>, log: Arc<Mutex<Vec<Value>>> }
impl H { fn seen(&self, r: &Request<Vec<u8>>) { self.log.lock().unwrap().push(json!({"e":"srv_req","meta":[],"msgs":[bj(r.get_ref())],"err":-1})); } }
impl tonic::server::UnaryService<Vec<u8>> for H {
    type Response = Vec<u8>;
    type Future = std::future::Ready<Result<Response<Vec<u8>>, Status>>;
    fn call(&mut self, r: Request<Vec<u8>>) -> Self::Future { self.seen(&r); std::future::ready(Ok(Response::new(jb(&self.script["msgs"][0])))) }
}
impl tonic::server::ServerStreamingService<Vec<u8>> for H {
    type Response = Vec<u8>;
    type ResponseStream = BoxStream;
    type Future = std::future::Ready<Result<Response<BoxStream>, Status>>;
    fn call(&mut self, r: Request<Vec<u8>>) -> Self::Future {
        self.seen(&r);
        let items: Vec<Result<Vec<u8>, Status>> = self.script["msgs"].as_array().cloned().unwrap_or_default().iter().map(|m| Ok(jb(m))).collect();
        std::future::ready(Ok(Response::new(Box::pin(tokio_stream::iter(items)) as BoxStream)))
    }
}

async fn run_one(stim: &Value, log: &Arc<Mutex<Vec<Value>>>) {
    let mut g = tonic::server::Grpc::new(Raw);
    for e in stim["server"]["send"].as_array().cloned().unwrap_or_default() { if let Some(e) = enc_of(e.as_str().unwrap_or("")) { g = g.send_compressed(e); } }
    for e in stim["server"]["accept"].as_array().cloned().unwrap_or_default() { if let Some(e) = enc_of(e.as_str().unwrap_or("")) { g = g.accept_compressed(e); } }
    let raw = &stim["raw"];
    let mut b = http::Request::builder().method("POST").uri(raw["uri"].as_str().unwrap_or("/")).version(http::Version::HTTP_2);
    let mut skipped = 0;
    for h in raw["headers"].as_array().cloned().unwrap_or_default() {
        match (http::header::HeaderName::from_bytes(h["n"].as_str().unwrap_or("").as_bytes()), http::HeaderValue::from_bytes(&jb(&h["v"]))) { (Ok(n), Ok(v)) => { b = b.header(n, v); } _ => skipped += 1 }
    }
    let msg = jb(&raw["msg"]);
    let flag = raw["flag"].as_u64().unwrap_or(0) as u8;
    let payload = if flag == 1 { compress_with(raw["comp"].as_str().unwrap_or(""), &msg) } else { msg };
    let mut body_bytes: Vec<u8> = vec![];
    for _ in 0..raw["lead"].as_u64().unwrap_or(0) { body_bytes.extend(frame(0, &[5])); }
    body_bytes.extend(frame(flag, &payload));
    let req = b.body(http_body_util::Full::new(Bytes::from(body_bytes))).unwrap();
    log.lock().unwrap().push(json!({"e":"raw_sent","skipped":skipped,"list":headers_json(req.headers())}));
    let h = H { script: Arc::new(stim["script"].clone()), log: log.clone() };
    let resp = if stim["shape"].as_str() == Some("sstream") { g.server_streaming(h, req).await } else { g.unary(h, req).await };
    let (parts, body) = resp.into_parts();
    log.lock().unwrap().push(json!({"e":"resp_head","status":parts.status.as_u16(),"list":headers_json(&parts.headers),"eos":body.is_end_stream()}));
    let mut body = std::pin::pin!(body);
    let mut resp_bytes = vec![]; let mut n = 0;
    loop {
        n += 1; if n > 10000 { break; }
        match std::future::poll_fn(|cx| body.as_mut().poll_frame(cx)).await {
            None => { log.lock().unwrap().push(json!({"e":"frame","side":"resp","k":"end"})); break; }
            Some(Err(s)) => { log.lock().unwrap().push(json!({"e":"frame","side":"resp","k":"err","code":s.code() as i32})); }
            Some(Ok(f)) => {
                if let Some(d) = f.data_ref() { resp_bytes.extend_from_slice(d); log.lock().unwrap().push(json!({"e":"frame","side":"resp","k":"data","bytes":bj(d)})); }
                else if let Some(t) = f.trailers_ref() { log.lock().unwrap().push(json!({"e":"frame","side":"resp","k":"trailers","list":headers_json(t)})); }
            }
        }
    }
    log.lock().unwrap().push(json!({"e":"bodies","req":{"bytes":[],"frames":[]},"resp":{"bytes":bj(&resp_bytes),"frames":frames_hint(&resp_bytes)}}));
}

fn main() {
    let a: Vec<String> = std::env::args().collect();
    let inp = std::io::BufReader::new(std::fs::File::open(&a[1]).expect("stimuli"));
    let mut out = std::io::BufWriter::new(std::fs::File::create(&a[2]).expect("trace"));
    let rt = tokio::runtime::Builder::new_current_thread().enable_all().build().unwrap();
    std::panic::set_hook(Box::new(|_| {}));
    for (k, line) in inp.lines().enumerate() {
        let stim: Value = serde_json::from_str(&line.unwrap()).unwrap();
        writeln!(out, "{}", json!({"e":"reset","run":k as u64 + 1,"lab":format!("vhf:{}", if cfg!(feature = "gzip") { "gzip" } else if cfg!(feature = "deflate") { "deflate" } else { "zstd" }),"stim":stim})).unwrap();
        let log = Arc::new(Mutex::new(vec![]));
        let r = std::panic::catch_unwind(std::panic::AssertUnwindSafe(|| rt.block_on(run_one(&stim, &log))));
        for e in log.lock().unwrap().drain(..) { writeln!(out, "{}", e).unwrap(); }
        match r { Ok(()) => writeln!(out, "{}", json!({"e":"end","outcome":"ok"})).unwrap(),
                  Err(p) => writeln!(out, "{}", json!({"e":"end","outcome":"panic","msg":p.downcast_ref::<String>().cloned().unwrap_or_default()})).unwrap() }
    }
}
